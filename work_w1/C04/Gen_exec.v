From Coq Require Import ZArith List Bool Lia ZifyBool.
Import ListNotations.
Open Scope Z_scope.
Open Scope bool_scope.

From RecordUpdate Require Import RecordSet.
Import RecordSetNotations.
From RV Require Import SM.Model SM.SrcExec SM.SrcExecProofs.

Section Gen.
Variable sh : shape.
Variable body : nat -> name -> Z -> Z -> bool -> list action.
Variable nested : sm -> Z -> sm * list event.

(* now = getTime() *)
Definition gen_s0 (now : Z) (f : frame) : frame :=
  (Build_frame (Build_sm (should (f_m f)) (engaged (f_m f)) (cur (f_m f)) (start (f_m f)) (sdat (f_m f)) (dur (f_m f)) (nt_cur (f_m f)) (auto_on (f_m f)) now (ncall (f_m f))) now (f_tm f) (f_state f) (f_done f) (f_nss f) (f_ev f) (f_err f) (f_ret f)).
(* if not self.__engaged: *)
Definition gen_s1 (now : Z) (f : frame) : frame :=
  (if (engaged (f_m f)) then (Build_frame (f_m f) (f_now f) (f_tm f) (f_state f) (f_done f) (f_nss f) (f_ev f) (f_err f) (f_ret f)) else (if (should (f_m f)) then (Build_frame (Build_sm (should (f_m f)) true (cur (f_m f)) (f_now f) (sdat (f_m f)) (dur (f_m f)) (nt_cur (f_m f)) (auto_on (f_m f)) (clk (f_m f)) (ncall (f_m f))) (f_now f) (f_tm f) (f_state f) (f_done f) (f_nss f) (f_ev f) (f_err f) (f_ret f)) else (match (sh_default sh) with Some s1 => (Build_frame (f_m f) (f_now f) (f_tm f) (f_state f) (f_done f) (f_nss f) (f_ev f) (f_err f) (f_ret f)) | None => (Build_frame (f_m f) (f_now f) (f_tm f) (f_state f) (f_done f) (f_nss f) (f_ev f) (f_err f) true) end))).
(* tm = now - self.__start *)
Definition gen_s2 (now : Z) (f : frame) : frame :=
  (Build_frame (f_m f) (f_now f) ((f_now f) - (start (f_m f))) (f_state f) (f_done f) (f_nss f) (f_ev f) (f_err f) (f_ret f)).
(* state = self.__state *)
Definition gen_s3 (now : Z) (f : frame) : frame :=
  (Build_frame (f_m f) (f_now f) (f_tm f) (cur (f_m f)) (f_done f) (f_nss f) (f_ev f) (f_err f) (f_ret f)).
(* done_called = False *)
Definition gen_s4 (now : Z) (f : frame) : frame :=
  (Build_frame (f_m f) (f_now f) (f_tm f) (f_state f) false (f_nss f) (f_ev f) (f_err f) (f_ret f)).
(* new_state_start = tm *)
Definition gen_s5 (now : Z) (f : frame) : frame :=
  (Build_frame (f_m f) (f_now f) (f_tm f) (f_state f) (f_done f) (f_tm f) (f_ev f) (f_err f) (f_ret f)).
(* if state is not None and state.ran and (state.expires < tm): *)
Definition gen_s6 (now : Z) (f : frame) : frame :=
  (match (f_state f) with Some s1 => (if (ran ((sdat (f_m f)) s1)) then (if ((st_exp ((sdat (f_m f)) s1)) <? (f_tm f)) then (match lookup sh s1 with Some dc2 => if d_timed dc2 then (match d_next dc2 with Some nx3 => (if is_state sh nx3 then (let m4 := next_state (f_m f) nx3 in (Build_frame m4 (f_now f) (f_tm f) (cur m4) (f_done f) (st_exp ((sdat (f_m f)) s1)) (f_ev f ++ [EvEnter nx3]) (f_err f) (f_ret f))) else (Build_frame (f_m f) (f_now f) (f_tm f) (Some s1) (f_done f) (st_exp ((sdat (f_m f)) s1)) (f_ev f) true (f_ret f))) | None => (let m5 := done sh (f_m f) in (if (should m5) then (if is_state sh (sh_first sh) then (let m6 := next_state (Build_sm (should m5) true (cur m5) ((start m5) + (st_exp ((sdat m5) s1))) (sdat m5) (dur m5) (nt_cur m5) (auto_on m5) (clk m5) (ncall m5)) (sh_first sh) in (Build_frame m6 (f_now f) ((f_tm f) - (st_exp ((sdat m5) s1))) (cur m6) true 0 (f_ev f ++ [EvDone] ++ [EvEnter (sh_first sh)]) (f_err f) (f_ret f))) else (Build_frame (Build_sm (should m5) true (cur m5) ((start m5) + (st_exp ((sdat m5) s1))) (sdat m5) (dur m5) (nt_cur m5) (auto_on m5) (clk m5) (ncall m5)) (f_now f) ((f_tm f) - (st_exp ((sdat m5) s1))) (Some s1) true 0 (f_ev f ++ [EvDone]) true (f_ret f))) else (Build_frame m5 (f_now f) (f_tm f) None true (st_exp ((sdat (f_m f)) s1)) (f_ev f ++ [EvDone]) (f_err f) (f_ret f)))) end) else (Build_frame (f_m f) (f_now f) (f_tm f) (Some s1) (f_done f) (st_exp ((sdat (f_m f)) s1)) (f_ev f) true (f_ret f)) | None => (Build_frame (f_m f) (f_now f) (f_tm f) (Some s1) (f_done f) (st_exp ((sdat (f_m f)) s1)) (f_ev f) true (f_ret f)) end) else (Build_frame (f_m f) (f_now f) (f_tm f) (Some s1) (f_done f) (f_nss f) (f_ev f) (f_err f) (f_ret f))) else (Build_frame (f_m f) (f_now f) (f_tm f) (Some s1) (f_done f) (f_nss f) (f_ev f) (f_err f) (f_ret f))) | None => (Build_frame (f_m f) (f_now f) (f_tm f) None (f_done f) (f_nss f) (f_ev f) (f_err f) (f_ret f)) end).
(* if not (self.__should_engage or (state is not None and state.must_finish)): *)
Definition gen_s7 (now : Z) (f : frame) : frame :=
  (if (should (f_m f)) then (Build_frame (f_m f) (f_now f) (f_tm f) (f_state f) (f_done f) (f_nss f) (f_ev f) (f_err f) (f_ret f)) else (match (f_state f) with Some s1 => (if (is_must sh s1) then (Build_frame (f_m f) (f_now f) (f_tm f) (Some s1) (f_done f) (f_nss f) (f_ev f) (f_err f) (f_ret f)) else (Build_frame (f_m f) (f_now f) (f_tm f) None (f_done f) (f_nss f) (f_ev f) (f_err f) (f_ret f))) | None => (Build_frame (f_m f) (f_now f) (f_tm f) None (f_done f) (f_nss f) (f_ev f) (f_err f) (f_ret f)) end)).
(* if state is None and self.__engaged and (not done_called): *)
Definition gen_s8 (now : Z) (f : frame) : frame :=
  (match (f_state f) with Some s1 => (Build_frame (f_m f) (f_now f) (f_tm f) (Some s1) (f_done f) (f_nss f) (f_ev f) (f_err f) (f_ret f)) | None => (if (engaged (f_m f)) then (if (f_done f) then (Build_frame (f_m f) (f_now f) (f_tm f) None (f_done f) (f_nss f) (f_ev f) (f_err f) (f_ret f)) else (let m2 := done sh (f_m f) in (Build_frame m2 (f_now f) (f_tm f) None true (f_nss f) (f_ev f ++ [EvDone]) (f_err f) (f_ret f)))) else (Build_frame (f_m f) (f_now f) (f_tm f) None (f_done f) (f_nss f) (f_ev f) (f_err f) (f_ret f))) end).
(* if state is None and self.__default_state is not None: *)
Definition gen_s9 (now : Z) (f : frame) : frame :=
  (match (f_state f) with Some s1 => (Build_frame (f_m f) (f_now f) (f_tm f) (Some s1) (f_done f) (f_nss f) (f_ev f) (f_err f) (f_ret f)) | None => (match (sh_default sh) with Some s2 => (if (negb (is_some_eq (cur (f_m f)) s2)) then (Build_frame (Build_sm (should (f_m f)) (engaged (f_m f)) (Some s2) (start (f_m f)) (upd (sdat (f_m f)) s2 (((sdat (f_m f)) s2) <| ran := false |>)) (dur (f_m f)) (nt_cur (f_m f)) (auto_on (f_m f)) (clk (f_m f)) (ncall (f_m f))) (f_now f) (f_tm f) (Some s2) (f_done f) (f_nss f) (f_ev f) (f_err f) (f_ret f)) else (Build_frame (f_m f) (f_now f) (f_tm f) (Some s2) (f_done f) (f_nss f) (f_ev f) (f_err f) (f_ret f))) | None => (Build_frame (f_m f) (f_now f) (f_tm f) None (f_done f) (f_nss f) (f_ev f) (f_err f) (f_ret f)) end) end).
(* if state is not None: *)
Definition gen_s10 (now : Z) (f : frame) : frame :=
  (match (f_state f) with Some s1 => (if (negb (ran ((sdat (f_m f)) s1))) then (if (is_timed sh s1) then (let ra := run_actions sh nested (body (ncall (f_m f)) s1 (f_tm f) ((f_tm f) - (st_start (((sdat (f_m f)) s1) <| ran := true |> <| st_start := (f_nss f) |> <| st_exp := ((f_nss f) + ((dur (f_m f)) s1)) |>))) (negb (ran ((sdat (f_m f)) s1)))) (Build_sm (should (f_m f)) (engaged (f_m f)) (cur (f_m f)) (start (f_m f)) (upd (sdat (f_m f)) s1 (((sdat (f_m f)) s1) <| ran := true |> <| st_start := (f_nss f) |> <| st_exp := ((f_nss f) + ((dur (f_m f)) s1)) |>)) (dur (f_m f)) (nt_cur (f_m f)) (auto_on (f_m f)) (clk (f_m f)) (S (ncall (f_m f)))) in let m2 := fst ra in (Build_frame m2 (f_now f) (f_tm f) (Some s1) (f_done f) (f_nss f) (f_ev f ++ EvCall s1 (f_tm f) ((f_tm f) - (st_start (((sdat (f_m f)) s1) <| ran := true |> <| st_start := (f_nss f) |> <| st_exp := ((f_nss f) + ((dur (f_m f)) s1)) |>))) (negb (ran ((sdat (f_m f)) s1))) (engaged (f_m f)) :: filter observable (snd ra)) (existsb is_err (snd ra)) (f_ret f))) else (let ra := run_actions sh nested (body (ncall (f_m f)) s1 (f_tm f) ((f_tm f) - (st_start (((sdat (f_m f)) s1) <| ran := true |> <| st_start := (f_nss f) |> <| st_exp := ((f_nss f) + (sh_inf sh)) |>))) (negb (ran ((sdat (f_m f)) s1)))) (Build_sm (should (f_m f)) (engaged (f_m f)) (cur (f_m f)) (start (f_m f)) (upd (sdat (f_m f)) s1 (((sdat (f_m f)) s1) <| ran := true |> <| st_start := (f_nss f) |> <| st_exp := ((f_nss f) + (sh_inf sh)) |>)) (dur (f_m f)) (nt_cur (f_m f)) (auto_on (f_m f)) (clk (f_m f)) (S (ncall (f_m f)))) in let m3 := fst ra in (Build_frame m3 (f_now f) (f_tm f) (Some s1) (f_done f) (f_nss f) (f_ev f ++ EvCall s1 (f_tm f) ((f_tm f) - (st_start (((sdat (f_m f)) s1) <| ran := true |> <| st_start := (f_nss f) |> <| st_exp := ((f_nss f) + (sh_inf sh)) |>))) (negb (ran ((sdat (f_m f)) s1))) (engaged (f_m f)) :: filter observable (snd ra)) (existsb is_err (snd ra)) (f_ret f)))) else (let ra := run_actions sh nested (body (ncall (f_m f)) s1 (f_tm f) ((f_tm f) - (st_start ((sdat (f_m f)) s1))) (negb (ran ((sdat (f_m f)) s1)))) (Build_sm (should (f_m f)) (engaged (f_m f)) (cur (f_m f)) (start (f_m f)) (sdat (f_m f)) (dur (f_m f)) (nt_cur (f_m f)) (auto_on (f_m f)) (clk (f_m f)) (S (ncall (f_m f)))) in let m4 := fst ra in (Build_frame m4 (f_now f) (f_tm f) (Some s1) (f_done f) (f_nss f) (f_ev f ++ EvCall s1 (f_tm f) ((f_tm f) - (st_start ((sdat (f_m f)) s1))) (negb (ran ((sdat (f_m f)) s1))) (engaged (f_m f)) :: filter observable (snd ra)) (existsb is_err (snd ra)) (f_ret f)))) | None => (if (f_done f) then (Build_frame (f_m f) (f_now f) (f_tm f) None (f_done f) (f_nss f) (f_ev f) (f_err f) (f_ret f)) else (let m5 := done sh (f_m f) in (Build_frame m5 (f_now f) (f_tm f) None (f_done f) (f_nss f) (f_ev f ++ [EvDone]) (f_err f) (f_ret f)))) end).
(* self.__should_engage = False *)
Definition gen_s11 (now : Z) (f : frame) : frame :=
  (Build_frame (Build_sm false (engaged (f_m f)) (cur (f_m f)) (start (f_m f)) (sdat (f_m f)) (dur (f_m f)) (nt_cur (f_m f)) (auto_on (f_m f)) (clk (f_m f)) (ncall (f_m f))) (f_now f) (f_tm f) (f_state f) (f_done f) (f_nss f) (f_ev f) (f_err f) (f_ret f)).
Definition gen_execute (m : sm) (now : Z) : frame :=
  seqf (gen_s11 now) (
  seqf (gen_s10 now) (
  seqf (gen_s9 now) (
  seqf (gen_s8 now) (
  seqf (gen_s7 now) (
  seqf (gen_s6 now) (
  seqf (gen_s5 now) (
  seqf (gen_s4 now) (
  seqf (gen_s3 now) (
  seqf (gen_s2 now) (
  seqf (gen_s1 now) (
  seqf (gen_s0 now) (
    (Build_frame m 0 0 None false 0 [] false false))))))))))))).
Lemma regen_s0 : forall now f, gen_s0 now f = ref_s0 sh body nested now f.
Proof. first [ reflexivity | intros now f; destruct f as [m ? ? ? ? ? ? ? ?]; destruct m; unfold gen_s0, ref_s0; cbn; repeat (match goal with |- context [match ?x with _ => _ end] => destruct x eqn:? end; cbn in *; try congruence); reflexivity ]. Qed.
Lemma regen_s1 : forall now f, gen_s1 now f = ref_s1 sh body nested now f.
Proof. first [ reflexivity | intros now f; destruct f as [m ? ? ? ? ? ? ? ?]; destruct m; unfold gen_s1, ref_s1; cbn; repeat (match goal with |- context [match ?x with _ => _ end] => destruct x eqn:? end; cbn in *; try congruence); reflexivity ]. Qed.
Lemma regen_s2 : forall now f, gen_s2 now f = ref_s2 sh body nested now f.
Proof. first [ reflexivity | intros now f; destruct f as [m ? ? ? ? ? ? ? ?]; destruct m; unfold gen_s2, ref_s2; cbn; repeat (match goal with |- context [match ?x with _ => _ end] => destruct x eqn:? end; cbn in *; try congruence); reflexivity ]. Qed.
Lemma regen_s3 : forall now f, gen_s3 now f = ref_s3 sh body nested now f.
Proof. first [ reflexivity | intros now f; destruct f as [m ? ? ? ? ? ? ? ?]; destruct m; unfold gen_s3, ref_s3; cbn; repeat (match goal with |- context [match ?x with _ => _ end] => destruct x eqn:? end; cbn in *; try congruence); reflexivity ]. Qed.
Lemma regen_s4 : forall now f, gen_s4 now f = ref_s4 sh body nested now f.
Proof. first [ reflexivity | intros now f; destruct f as [m ? ? ? ? ? ? ? ?]; destruct m; unfold gen_s4, ref_s4; cbn; repeat (match goal with |- context [match ?x with _ => _ end] => destruct x eqn:? end; cbn in *; try congruence); reflexivity ]. Qed.
Lemma regen_s5 : forall now f, gen_s5 now f = ref_s5 sh body nested now f.
Proof. first [ reflexivity | intros now f; destruct f as [m ? ? ? ? ? ? ? ?]; destruct m; unfold gen_s5, ref_s5; cbn; repeat (match goal with |- context [match ?x with _ => _ end] => destruct x eqn:? end; cbn in *; try congruence); reflexivity ]. Qed.
Lemma regen_s6 : forall now f, gen_s6 now f = ref_s6 sh body nested now f.
Proof. first [ reflexivity | intros now f; destruct f as [m ? ? ? ? ? ? ? ?]; destruct m; unfold gen_s6, ref_s6; cbn; repeat (match goal with |- context [match ?x with _ => _ end] => destruct x eqn:? end; cbn in *; try congruence); reflexivity ]. Qed.
Lemma regen_s7 : forall now f, gen_s7 now f = ref_s7 sh body nested now f.
Proof. first [ reflexivity | intros now f; destruct f as [m ? ? ? ? ? ? ? ?]; destruct m; unfold gen_s7, ref_s7; cbn; repeat (match goal with |- context [match ?x with _ => _ end] => destruct x eqn:? end; cbn in *; try congruence); reflexivity ]. Qed.
Lemma regen_s8 : forall now f, gen_s8 now f = ref_s8 sh body nested now f.
Proof. first [ reflexivity | intros now f; destruct f as [m ? ? ? ? ? ? ? ?]; destruct m; unfold gen_s8, ref_s8; cbn; repeat (match goal with |- context [match ?x with _ => _ end] => destruct x eqn:? end; cbn in *; try congruence); reflexivity ]. Qed.
Lemma regen_s9 : forall now f, gen_s9 now f = ref_s9 sh body nested now f.
Proof. first [ reflexivity | intros now f; destruct f as [m ? ? ? ? ? ? ? ?]; destruct m; unfold gen_s9, ref_s9; cbn; repeat (match goal with |- context [match ?x with _ => _ end] => destruct x eqn:? end; cbn in *; try congruence); reflexivity ]. Qed.
Lemma regen_s10 : forall now f, gen_s10 now f = ref_s10 sh body nested now f.
Proof. first [ reflexivity | intros now f; destruct f as [m ? ? ? ? ? ? ? ?]; destruct m; unfold gen_s10, ref_s10; cbn; repeat (match goal with |- context [match ?x with _ => _ end] => destruct x eqn:? end; cbn in *; try congruence); reflexivity ]. Qed.
Lemma regen_s11 : forall now f, gen_s11 now f = ref_s11 sh body nested now f.
Proof. first [ reflexivity | intros now f; destruct f as [m ? ? ? ? ? ? ? ?]; destruct m; unfold gen_s11, ref_s11; cbn; repeat (match goal with |- context [match ?x with _ => _ end] => destruct x eqn:? end; cbn in *; try congruence); reflexivity ]. Qed.
Lemma regen_execute : forall m now, gen_execute m now = ref_execute sh body nested m now.
Proof.
  intros m now; unfold gen_execute, ref_execute.
  rewrite (seqf_ext (gen_s0 now) (ref_s0 sh body nested now) _ (regen_s0 now)).
  rewrite (seqf_ext (gen_s1 now) (ref_s1 sh body nested now) _ (regen_s1 now)).
  rewrite (seqf_ext (gen_s2 now) (ref_s2 sh body nested now) _ (regen_s2 now)).
  rewrite (seqf_ext (gen_s3 now) (ref_s3 sh body nested now) _ (regen_s3 now)).
  rewrite (seqf_ext (gen_s4 now) (ref_s4 sh body nested now) _ (regen_s4 now)).
  rewrite (seqf_ext (gen_s5 now) (ref_s5 sh body nested now) _ (regen_s5 now)).
  rewrite (seqf_ext (gen_s6 now) (ref_s6 sh body nested now) _ (regen_s6 now)).
  rewrite (seqf_ext (gen_s7 now) (ref_s7 sh body nested now) _ (regen_s7 now)).
  rewrite (seqf_ext (gen_s8 now) (ref_s8 sh body nested now) _ (regen_s8 now)).
  rewrite (seqf_ext (gen_s9 now) (ref_s9 sh body nested now) _ (regen_s9 now)).
  rewrite (seqf_ext (gen_s10 now) (ref_s10 sh body nested now) _ (regen_s10 now)).
  rewrite (seqf_ext (gen_s11 now) (ref_s11 sh body nested now) _ (regen_s11 now)).
  reflexivity.
Qed.


(* so execute(), as the source has it now, IS the model's exec_step (for every machine, clock, user code, nesting) *)
Theorem src_execute_is_exec_step : forall m now, is_state sh (sh_first sh) = true ->
  let f := gen_execute m now in
  let r := exec_step sh body nested m now in
  (f_err f = false -> f_m f = fst r /\ f_ev f = filter observable (snd r)) /\
  (f_err f = true -> In EvErr (snd r)).
Proof. intros m now H; rewrite regen_execute; exact (ref_execute_spec sh body nested m now H). Qed.
End Gen.
Print Assumptions src_execute_is_exec_step.
