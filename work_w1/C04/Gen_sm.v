From Coq Require Import ZArith List Bool Lia ZifyBool.
Import ListNotations.
Open Scope Z_scope.
Open Scope bool_scope.

From RecordUpdate Require Import RecordSet.
Import RecordSetNotations.
From RV Require Import SM.Model.

Section Gen.
Variable sh : shape.
Variable nested : sm -> Z -> sm * list event.


(* self.__state is self.__default_state: only the current state matters *)
Definition at_default_c (c : option name) : bool :=
  match c, sh_default sh with Some c, Some d => Nat.eqb c d | _, _ => false end.
Lemma at_default_c_eq : forall m, at_default sh m = at_default_c (cur m).
Proof. intros m; reflexivity. Qed.

Definition gen_next_state (self : sm) (s : name) :=
  (Build_sm (should self) (engaged self) (Some s) (start self) (upd (sdat self) s ((sdat self) s <| ran := false |>)) (dur self) (Some s) (auto_on self) (clk self) (ncall self)).
Definition gen_done (self : sm)  :=
  (Build_sm (should self) false None (start self) (sdat self) (dur self) None (auto_on self) (clk self) (ncall self)).
Definition gen_on_disable (self : sm)  :=
  (Build_sm (should self) false None (start self) (sdat self) (dur self) None (auto_on self) (clk self) (ncall self)).
Definition gen_on_enable (self : sm)  :=
  (Build_sm (should self) (engaged self) (cur self) (start self) (sdat self) (dur self) (nt_cur self) (auto_on self) (clk self) (ncall self)).
Definition gen_engage (self : sm) (init : option name) (force : bool) :=
  (if (force || (is_none (cur self)) || (at_default_c (cur self))) then (if (negb (is_none init)) then (Build_sm true (engaged self) (Some (match init with Some s0 => s0 | None => O end)) (start self) (upd (sdat self) (match init with Some s0 => s0 | None => O end) ((sdat self) (match init with Some s0 => s0 | None => O end) <| ran := false |>)) (dur self) (Some (match init with Some s0 => s0 | None => O end)) (auto_on self) (clk self) (ncall self)) else (Build_sm true (engaged self) (Some (sh_first sh)) (start self) (upd (sdat self) (sh_first sh) ((sdat self) (sh_first sh) <| ran := false |>)) (dur self) (Some (sh_first sh)) (auto_on self) (clk self) (ncall self))) else (Build_sm true (engaged self) (cur self) (start self) (sdat self) (dur self) (nt_cur self) (auto_on self) (clk self) (ncall self))).
Definition gen_next_state_now (self : sm) (s : name) (now' : Z) :=
  (let m1 := fst (nested (Build_sm (should self) (engaged self) (Some s) (start self) (upd (sdat self) s ((sdat self) s <| ran := false |>)) (dur self) (Some s) (auto_on self) (clk self) (ncall self)) now') in (if engaged m1 then (Build_sm (should self) (engaged m1) (cur m1) (start m1) (sdat m1) (dur m1) (nt_cur m1) (auto_on m1) (clk m1) (ncall m1)) else (Build_sm (should m1) (engaged m1) (cur m1) (start m1) (sdat m1) (dur m1) (nt_cur m1) (auto_on m1) (clk m1) (ncall m1)))).
Definition gen_a_on_enable (self : sm)  :=
  (Build_sm (should self) (engaged self) (cur self) (start self) (sdat self) (dur self) (nt_cur self) true (clk self) (ncall self)).
Definition gen_a_done (self : sm)  :=
  (Build_sm false false None (start self) (sdat self) (dur self) None false (clk self) (ncall self)).
Definition gen_a_on_iteration (self : sm) (now' : Z) :=
  (if auto_on self then (if (false || (is_none (cur self)) || (at_default_c (cur self))) then (let m1 := fst (nested (Build_sm true (engaged self) (Some (sh_first sh)) (start self) (upd (sdat self) (sh_first sh) ((sdat self) (sh_first sh) <| ran := false |>)) (dur self) (Some (sh_first sh)) (auto_on self) (clk self) (ncall self)) now') in (Build_sm (should m1) (engaged m1) (cur m1) (start m1) (sdat m1) (dur m1) (nt_cur m1) (engaged m1) (clk m1) (ncall m1))) else (let m1 := fst (nested (Build_sm true (engaged self) (cur self) (start self) (sdat self) (dur self) (nt_cur self) (auto_on self) (clk self) (ncall self)) now') in (Build_sm (should m1) (engaged m1) (cur m1) (start m1) (sdat m1) (dur m1) (nt_cur m1) (engaged m1) (clk m1) (ncall m1)))) else (Build_sm (should self) (engaged self) (cur self) (start self) (sdat self) (dur self) (nt_cur self) (auto_on self) (clk self) (ncall self))).

Lemma src_next_state : forall m s, gen_next_state m s = next_state m s.
Proof. intros m s; destruct m; reflexivity. Qed.
Lemma src_done : forall m, sh_auto sh = false -> gen_done m = done sh m.
Proof. intros m H; destruct m; unfold gen_done, done; rewrite H; reflexivity. Qed.
Lemma src_on_disable : forall m, sh_auto sh = false -> gen_on_disable m = done sh m.
Proof. intros m H; destruct m; unfold gen_on_disable, done; rewrite H; reflexivity. Qed.
Lemma src_on_enable : forall m, gen_on_enable m = m.
Proof. intros m; destruct m; reflexivity. Qed.
Lemma src_a_done : forall m, sh_auto sh = true -> gen_a_done m = done sh m.
Proof. intros m H; destruct m; unfold gen_a_done, done; rewrite H; reflexivity. Qed.
Lemma src_a_on_enable : forall m, gen_a_on_enable m = m <| auto_on := true |>.
Proof. intros m; destruct m; reflexivity. Qed.
(* engage(): for names that are states (anything else is the KeyError of self.__states[...]: the model's EvErr branch) *)
Lemma src_engage : forall m init force,
  is_state sh (match init with Some s0 => s0 | None => sh_first sh end) = true ->
  gen_engage m init force = fst (engage sh m init force).
Proof.
  intros m init force H; destruct m; unfold gen_engage, engage; rewrite !at_default_c_eq; cbn.
  destruct init as [s0|]; cbn in *; rewrite H;
    repeat match goal with |- context [if ?b then _ else _] => destruct b eqn:? end; cbn in *; try reflexivity; try congruence.
Qed.
(* next_state_now(): next_state, then the nested iteration, then the request is restored only while still executing *)
Lemma src_next_state_now : forall m s now',
  gen_next_state_now m s now' =
  (let m0 := next_state m s in let m1 := fst (nested m0 now') in if engaged m1 then m1 <| should := should m0 |> else m1).
Proof.
  intros m s now'; destruct m; unfold gen_next_state_now, next_state, RecordSet.set; cbn.
  match goal with |- context [nested ?x now'] => destruct (nested x now') as [m1 e1] end; cbn.
  destruct m1 as [? eng ? ? ? ? ? ? ? ?]; unfold RecordSet.set; cbn. destruct eng; reflexivity.
Qed.
(* AutonomousStateMachine.on_iteration(): the state half of the model's AOnIteration step *)
Lemma src_a_on_iteration : forall m now', is_state sh (sh_first sh) = true ->
  gen_a_on_iteration m now' =
  (if auto_on m then let m0 := fst (engage sh m None false) in let m1 := fst (nested m0 now') in m1 <| auto_on := engaged m1 |> else m).
Proof.
  intros m now' H; destruct m as [? ? ? ? ? ? ? aon ? ?]; unfold gen_a_on_iteration, engage; rewrite !at_default_c_eq; cbn.
  destruct aon; [|reflexivity]. rewrite H. cbn.
  unfold next_state, RecordSet.set; cbn.
  repeat match goal with |- context [if ?b then _ else _] => destruct b eqn:? end; cbn;
    match goal with |- context [nested ?x now'] => destruct (nested x now') as [m1 e1] end; cbn; destruct m1; reflexivity.
Qed.

End Gen.