"""C01-C04, C13: the small methods of magicbot/state_machine.py around execute() -- next_state, done, engage, on_disable,
next_state_now and AutonomousStateMachine.on_enable / on_iteration / done -- translated from the current source
(harness/pytr.py, fail-closed) and proved equal to the functions of SM/Model.v for every machine state.

Reading of the source that is particular to this class (everything else is generic pytr):
  state_data = self.__states[state] ; state_data.ran = False ; self.__state = state_data ; self.current_state = state
        -> the per-state record of [state] gets ran := false; cur := Some state; nt_cur := Some state
           (an unknown name is a KeyError: the model's EvErr branch; the lemmas assume is_state)
  self.current_state = ''                      -> nt_cur := None
  self.__state is None / is self.__default_state -> is_none (cur m) / at_default sh m
  self.execute()                               -> the model's nested execute (a parameter of the generated function)
  in AutonomousStateMachine: self.__engaged is the latch auto_on, self._StateMachine__should_engage is should,
  self.is_executing is engaged.
execute() itself is translated by harness/exec_translate.py (statement by statement, SM/SrcExec*.v)."""
import ast

from .pytr import Spec, Shape, HEADER, paren, txt

SM = ("Build_sm", [("__should_engage", "should", "bool"), ("__engaged", "engaged", "bool"), ("__state", "cur", "optname"),
                   ("__start", "start", "z"), ("__sdat", "sdat", "fun"), ("__dur", "dur", "fun"), ("current_state", "nt_cur", "optname"),
                   ("__auto", "auto_on", "bool"), ("__clk", "clk", "z"), ("__ncall", "ncall", "z")])
PATH = "magicbot/state_machine.py"


class SMSpec(Spec):
    def special(self, s, env, go):
        t = txt(s)
        # normalisation of a _State object to its name
        if isinstance(s, ast.If) and t.startswith("if isinstance(state, _State):"):
            return go(env)
        if isinstance(s, ast.If) and t.startswith("if self.VERBOSE_LOGGING and"):
            return go(env)                      # logging only
        if isinstance(s, ast.Assign) and t == "state_data = self.__states[state]":
            e2 = env.copy()
            e2.locs["state_data"] = "@" + env.locs["state"]
            return go(e2)
        if isinstance(s, ast.Assign) and t == "state_data.ran = False" and env.locs.get("state_data", "").startswith("@"):
            nm = env.locs["state_data"][1:]
            e2 = env.copy()
            e2.fields["__sdat"] = "(upd %s %s (%s %s <| ran := false |>))" % (
                paren(env.fields["__sdat"]), paren(nm), paren(env.fields["__sdat"]), paren(nm))
            return go(e2)
        if isinstance(s, ast.Assign) and t == "self.__state = state_data" and env.locs.get("state_data", "").startswith("@"):
            e2 = env.copy()
            e2.fields["__state"] = "(Some %s)" % paren(env.locs["state_data"][1:])
            return go(e2)
        if isinstance(s, ast.Assign) and t == "self.current_state = state" and "state" in env.locs:
            e2 = env.copy()
            e2.fields["current_state"] = "(Some %s)" % paren(env.locs["state"])
            return go(e2)
        if isinstance(s, ast.Assign) and t == "self.current_state = ''":
            e2 = env.copy()
            e2.fields["current_state"] = "None"
            return go(e2)
        if isinstance(s, ast.Assign) and t == "self.__state = None":
            e2 = env.copy()
            e2.fields["__state"] = "None"
            return go(e2)
        if isinstance(s, ast.If) and isinstance(s.test, ast.Name) and s.test.id in ("initial_state",) and s.test.id in env.locs:
            # truthiness of an optional state name
            if any(isinstance(n, ast.Return) for n in ast.walk(s)):
                raise Shape("return inside `if %s:`" % s.test.id)
            a = self.run(list(s.body), env.copy(), lambda e: go(e), lambda e, v: go(e))
            b = self.run(list(s.orelse), env.copy(), lambda e: go(e), lambda e, v: go(e))
            if env.locs[s.test.id] == "None":
                return b
            return "(if (negb (is_none init)) then %s else %s)" % (a, b)
        if isinstance(s, ast.Expr) and t == "self.execute()":
            # the nested / following iteration: the model's [nested] function of the machine built so far
            e2 = env.copy()
            for py, proj, _ in self.rec:
                e2.fields[py] = "%s m1" % proj
            return "(let m1 := fst (nested %s now') in %s)" % (self.state_term(env), go(e2))
        if isinstance(s, ast.Expr) and t in ("super().on_enable()",):
            return go(env)                      # StateMachine.on_enable is `pass` (checked by its own lemma)
        if isinstance(s, ast.Expr) and t == "super().done()":
            callee = list(self.find_in("StateMachine", "done").body)
            sub = SMSpec(self.repo, self.path, "StateMachine", "done", (self.ctor, self.rec), [], self.externals, result="state")
            return sub.run(callee, env, lambda e: go(self.rebase(e)), lambda e, v: go(self.rebase(e)))
        return None

    def rebase(self, e):
        return e

    def find(self, method):
        try:
            return Spec.find(self, method)
        except Shape:
            if self.cls != "StateMachine":
                return self.find_in("StateMachine", method)
            raise

    def find_in(self, cls, method):
        keep = self.cls
        self.cls = cls
        try:
            return self.find(method)
        finally:
            self.cls = keep


def none_test(env):
    return "(is_none %s)" % paren(env.fields["__state"])


def default_test(env):
    return "(at_default_c %s)" % paren(env.fields["__state"])


BASE_EXT = {"self.__state is None": none_test, "self.__state is self.__default_state": default_test, "self.__first": "(sh_first sh)"}


def specs(repo):
    def mk(cls, method, params, ext=None, **kw):
        e = dict(BASE_EXT)
        e.update(ext or {})
        sp = SMSpec(repo, PATH, cls, method, SM, params, e, **kw)
        return sp
    nxt = mk("StateMachine", "next_state", [("s", "name")], {"state": "s"}, result="state", gen="gen_next_state")
    done = mk("StateMachine", "done", [], result="state", gen="gen_done")
    ondis = mk("StateMachine", "on_disable", [], result="state", gen="gen_on_disable", siblings={"done": 1})
    onen = mk("StateMachine", "on_enable", [], result="state", gen="gen_on_enable")
    eng = mk("StateMachine", "engage", [("init", "option name"), ("force", "bool")],
             {"initial_state": "(match init with Some s0 => s0 | None => O end)", "force": "force"}, result="state",
             gen="gen_engage", siblings={"next_state": 1})
    eng.truth = {"initial_state": "(negb (is_none init))"}
    now = mk("StateMachine", "next_state_now", [("s", "name"), ("now'", "Z")], {"state": "s"}, result="state",
             gen="gen_next_state_now", siblings={"next_state": 1})
    auto_alias = {"__engaged": "__auto", "_StateMachine__should_engage": "__should_engage"}
    aen = mk("AutonomousStateMachine", "on_enable", [], result="state", gen="gen_a_on_enable")
    adone = mk("AutonomousStateMachine", "done", [], result="state", gen="gen_a_done")
    ait = mk("AutonomousStateMachine", "on_iteration", [("now'", "Z")], {"tm": "now'", "self.is_executing": lambda env: env.fields["__engaged"]},
             result="state", gen="gen_a_on_iteration", siblings={"engage": 1, "next_state": 1})
    for sp in (aen, adone, ait):
        sp.attr_alias = dict(auto_alias)
    return [nxt, done, ondis, onen, eng, now, aen, adone, ait]


class _Truthy:
    pass


PRELUDE = r"""
(* self.__state is self.__default_state: only the current state matters *)
Definition at_default_c (c : option name) : bool :=
  match c, sh_default sh with Some c, Some d => Nat.eqb c d | _, _ => false end.
Lemma at_default_c_eq : forall m, at_default sh m = at_default_c (cur m).
Proof. intros m; reflexivity. Qed.
"""

LEMMAS = r"""
Lemma src_next_state : forall m s, gen_next_state m s = next_state m s.
Proof. intros m s; destruct m; reflexivity. Qed.
Lemma src_done : forall m, sh_auto sh = false -> gen_done m = done sh m.
Proof. intros m H; destruct m; unfold gen_done, done; rewrite H; reflexivity. Qed.
Lemma src_on_disable : forall m, sh_auto sh = false -> gen_on_disable m = done sh m.
Proof. intros m H; destruct m; unfold gen_on_disable, done; rewrite H; reflexivity. Qed.
Lemma src_on_enable : forall m, gen_on_enable m = m.
Proof. intros m; destruct m; reflexivity. Qed.
Lemma src_a_done : forall m, sh_auto sh = true -> gen_a_done m = done sh m.
Proof. intros m H; destruct m; unfold gen_a_done, done; rewrite H; reflexivity. Qed.
Lemma src_a_on_enable : forall m, gen_a_on_enable m = m <| auto_on := true |>.
Proof. intros m; destruct m; reflexivity. Qed.
(* engage(): for names that are states (anything else is the KeyError of self.__states[...]: the model's EvErr branch) *)
Lemma src_engage : forall m init force,
  is_state sh (match init with Some s0 => s0 | None => sh_first sh end) = true ->
  gen_engage m init force = fst (engage sh m init force).
Proof.
  intros m init force H; destruct m; unfold gen_engage, engage; rewrite !at_default_c_eq; cbn.
  destruct init as [s0|]; cbn in *; rewrite H;
    repeat match goal with |- context [if ?b then _ else _] => destruct b eqn:? end; cbn in *; try reflexivity; try congruence.
Qed.
(* next_state_now(): next_state, then the nested iteration, then the request is restored only while still executing *)
Lemma src_next_state_now : forall m s now',
  gen_next_state_now m s now' =
  (let m0 := next_state m s in let m1 := fst (nested m0 now') in if engaged m1 then m1 <| should := should m0 |> else m1).
Proof.
  intros m s now'; destruct m; unfold gen_next_state_now, next_state, RecordSet.set; cbn.
  match goal with |- context [nested ?x now'] => destruct (nested x now') as [m1 e1] end; cbn.
  destruct m1 as [? eng ? ? ? ? ? ? ? ?]; unfold RecordSet.set; cbn. destruct eng; reflexivity.
Qed.
(* AutonomousStateMachine.on_iteration(): the state half of the model's AOnIteration step *)
Lemma src_a_on_iteration : forall m now', is_state sh (sh_first sh) = true ->
  gen_a_on_iteration m now' =
  (if auto_on m then let m0 := fst (engage sh m None false) in let m1 := fst (nested m0 now') in m1 <| auto_on := engaged m1 |> else m).
Proof.
  intros m now' H; destruct m as [? ? ? ? ? ? ? aon ? ?]; unfold gen_a_on_iteration, engage; rewrite !at_default_c_eq; cbn.
  destruct aon; [|reflexivity]. rewrite H. cbn.
  unfold next_state, RecordSet.set; cbn.
  repeat match goal with |- context [if ?b then _ else _] => destruct b eqn:? end; cbn;
    match goal with |- context [nested ?x now'] => destruct (nested x now') as [m1 e1] end; cbn; destruct m1; reflexivity.
Qed.
"""


def coq(repo):
    L = [HEADER, "From RecordUpdate Require Import RecordSet.", "Import RecordSetNotations.",
         "From RV Require Import SM.Model.", "", "Section Gen.", "Variable sh : shape.",
         "Variable nested : sm -> Z -> sm * list event.", "", PRELUDE]
    for sp in specs(repo):
        d = sp.definition("sm").replace("(self : sm)", "(self : sm)")
        L.append(d)
    L.append(LEMMAS)
    L.append("End Gen.")
    return "\n".join(L)


def obligation(ctx):
    from .common import REPO
    name = ("regen:StateMachine.next_state/done/engage/on_disable/next_state_now and AutonomousStateMachine.on_enable/"
            "on_iteration/done have the shape the translator recognises")
    try:
        text = coq(REPO)
    except Shape as e:
        ctx.obligation(name, False, str(e))
        return False
    except (SyntaxError, OSError, KeyError, IndexError, AttributeError) as e:
        ctx.obligation(name, False, repr(e))
        return False
    ctx.obligation(name, True, "")
    rc, out = ctx.coq_file("Gen_sm", text)
    ctx.obligation("regen:Gen_sm (9 methods around execute() translated from the source == SM.Model next_state/done/engage/"
                   "the next_state_now and on_iteration steps, for every machine state)", rc == 0, out[-1500:])
    return rc == 0


if __name__ == "__main__":
    import sys
    print(coq(sys.argv[1] if len(sys.argv) > 1 else "/repo"))
