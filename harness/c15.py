"""C15: StatefulAutonomous runs each state for its duration, in every period.

Tie to the source: generated StatefulAutonomous subclasses (type()) -- half of
them a hierarchy of 2-4 classes with the states spread over the mode class and
its bases (inherited states, an inherited first state, definitions hidden by a
more derived one); the class bodies go to Coq in MRO order and the model's
__build_states (Model.build_states) decides what the mode's states are and
whether the constructor raises --, scripted
state functions that log the arguments they receive and perform (and log)
scripted next_state()/done() calls, real SmartDashboard/NetworkTables entries "<MODE_NAME>\\<state>_duration"
edited between periods, dyadic tm values (ticks of 1/64 s).  The recorded
list of state-function invocations and escaping exceptions of every history is
compared INSIDE Coq with the visible part of `mode_trace inf mro h` of
Stateful/Model.v (work/C15/cases_*.v, `cbad 0 cases`; the constructor raising
is part of the observation).  How the code moves between states
internally (self.next_state() at an expiry, the body of done()) is not
specified by C15 and not observed.

The oracle (only used when something broke) states the clauses of the property
over the implementation's events with a reference bookkeeping of entries.
"""
import json
import os
import random
import sys
import time

from .common import (CORPUS, time_limit, coq_Z, coq_bool, coq_list, coq_nat, coq_opt,
                     parse_eval_lists, shards)

T = 64                      # ticks per second
INF_S = 0xFFFFFFFF          # the code's "never expires", seconds
INF = INF_S * T
UNKNOWN = "zz9"             # a name that is not an attribute of anything
UNKNOWN_ID = 99
ALL_PARAMS = ["tm", "state_tm", "initial_call"]
MODE_NAMES = ["m0", "Mode 1", "m2", "auto-3", "m4", "m5", "m6"]


def sid(name):
    return UNKNOWN_ID if name == UNKNOWN else int(name[1:])


# ---------------------------------------------------------------------
# driving the implementation
# ---------------------------------------------------------------------
def impl_mod():
    import importlib
    for m in [k for k in sys.modules if k.startswith("robotpy_ext.autonomous.stateful_autonomous")]:
        del sys.modules[m]
    return importlib.import_module("robotpy_ext.autonomous.stateful_autonomous")


def _mk_fn(name, params):
    src = "def %s(%s):\n    self._call(%r, locals())\n" % (name, ",".join(["self"] + params), name)
    d = {}
    exec(src, d)
    return d[name]


def cond_holds(cond, stm, init):
    k = cond[0]
    if k == "always":
        return True
    if k == "init":
        return bool(init)
    if k == "notinit":
        return not init
    if k == "stmge":
        return stm >= cond[1]
    raise ValueError(cond)


def lookup_rule(rules, name, stm, init):
    for (n, cond, acts) in rules:
        if n == name and cond_holds(cond, stm, init):
            return acts
    return []


# ---------------------------------------------------------------------
# the mode CLASS: a hierarchy of class bodies
# ---------------------------------------------------------------------
# spec["classes"]: list of {"bases": [indices of earlier entries], "defs": [...]}, bases first, the LAST
# entry is the mode class that is instantiated; no "bases" = derives from StatefulAutonomous directly.
# A def is {"name", "kind": "state", "timed", "dur", "next", "params", "first"} or
# {"name", "kind": "other", "as": "method"|"none"|"const"} (an attribute that is not a state).
# spec["states"] / spec["first"] / spec["firsts"] are DERIVED (normalize_spec): the states the mode has
# by Python's attribute lookup on the class (inherited ones included, the most derived definition wins).
def skeleton_mro(classes):
    """indices of spec["classes"] in the order of type(self).__mro__ (plain Python classes, no library)."""
    ks = []
    for i, c in enumerate(classes):
        bases = tuple(ks[j] for j in c.get("bases", [])) or (object,)
        ks.append(type("K%d" % i, bases, {"_idx": i}))
    return [k._idx for k in ks[-1].__mro__ if k is not object]


def flat_classes(spec):
    defs = []
    for s_ in spec["states"]:
        d = dict(s_, kind="state", first=(s_["name"] == spec.get("first")))
        defs.append(d)
    return [{"bases": [], "defs": defs}]


def effective_defs(classes):
    """name -> (def, index of the defining class), by the MRO"""
    eff = {}
    for ci in skeleton_mro(classes):
        for d in classes[ci]["defs"]:
            eff.setdefault(d["name"], (d, ci))
    return eff


def normalize_spec(spec):
    if not spec.get("classes"):
        spec["classes"] = flat_classes(spec)
    for c in spec["classes"]:
        c.setdefault("bases", [])
        for d in c["defs"]:
            d.setdefault("kind", "state")
            if d["kind"] == "state":
                d.setdefault("first", False)
                if d["timed"]:
                    d.setdefault("next", None)
    eff = effective_defs(spec["classes"])
    states = [dict((k, v) for k, v in d.items() if k not in ("kind", "first"))
              for (nm, (d, _)) in sorted(eff.items()) if d["kind"] == "state"]
    firsts = sorted(nm for (nm, (d, _)) in eff.items() if d["kind"] == "state" and d["first"])
    spec["states"] = states
    spec["firsts"] = firsts
    spec["first"] = firsts[0] if len(firsts) == 1 else None
    return spec


def inherited_names(spec):
    """effective states that are not defined in the mode class itself"""
    top = len(spec["classes"]) - 1
    return sorted(nm for (nm, (d, ci)) in effective_defs(spec["classes"]).items()
                  if d["kind"] == "state" and ci != top)


def build_class(mod, spec, idx):
    """type()-generated mode class (with its base classes) for a mode definition."""
    def _call(self, name, loc):
        tm, stm, init = loc.get("tm"), loc.get("state_tm"), loc.get("initial_call")
        self._log.append(("call", name,
                          None if tm is None else tm * T,
                          None if stm is None else stm * T,
                          init))
        # the scripted user code of this iteration (conditions only use
        # parameters this function receives)
        for (n, cond, acts) in self._rules:
            if n != name:
                continue
            k = cond[0]
            ok = (k == "always" or (k == "init" and init) or (k == "notinit" and not init)
                  or (k == "stmge" and stm * T >= cond[1]))
            if ok:
                for a in acts:
                    if a[0] == "next":
                        self.next_state(a[1])
                        self._log.append(("next", a[1]))
                    else:
                        self.done()
                        self._log.append(("done",))
                break

    classes = spec["classes"]
    built = []
    for ci, c in enumerate(classes):
        top = ci == len(classes) - 1
        ns = {}
        if top:
            ns["MODE_NAME"] = spec["mode_name"]
            ns["_call"] = _call
        else:
            # a base class of the mode is a mode class of its own (DriveForward, with DriveAndShoot(DriveForward) derived from it)
            ns["MODE_NAME"] = "%s_b%d" % (spec["mode_name"], ci)
            ns["_call"] = lambda self, name, tm, stm, init: None
        for d in c["defs"]:
            if d["kind"] == "other":
                ns[d["name"]] = {"method": (lambda self: None), "none": None, "const": 3.5}[d.get("as", "method")]
                continue
            f = _mk_fn(d["name"], d["params"])
            if d["timed"]:
                # whole seconds are written the way people write them: duration=2 (an int), everything else as a float
                dur_arg = d["dur"] // T if d["dur"] % T == 0 else d["dur"] / T
                ns[d["name"]] = mod.timed_state(f, duration=dur_arg, next_state=d["next"], first=d["first"])
            else:
                ns[d["name"]] = mod.state(f, first=d["first"])
        bases = tuple(built[j] for j in c["bases"]) or (mod.StatefulAutonomous,)
        built.append(type("SA_%d%s" % (idx, "" if top else "_b%d" % ci), bases, ns))
    build_class.bases_built = built[:-1]
    return built[-1]


def sd_table():
    import ntcore
    return ntcore.NetworkTableInstance.getDefault().getTable("SmartDashboard")


def run_impl(mod, spec, ops, idx=0):
    """Returns (constructor exception class or None, events per op, harness problems)."""
    cls = build_class(mod, spec, idx)
    problems = []
    envk = spec.get("env", idx)
    if envk % 2 == 0:
        # the selector creates every mode at start-up: a base mode class may well have been instantiated before the derived
        # one is (nothing of that instance may reach the mode under test); a base that cannot be built on its own is fine
        for b_ in build_class.bases_built:
            try:
                b_(spec.get("components"))
            except Exception:  # noqa
                pass
    try:
        m = cls(spec.get("components"))
    except Exception as e:  # noqa
        return type(e).__name__, [[] for _ in ops], problems
    m._log = []
    m._rules = []
    table = sd_table()
    timed = [s["name"] for s in spec["states"] if s["timed"]]
    # ... and other modes are created AFTER it: a mode derived from the one under test (same states, its own MODE_NAME and
    # so its own dashboard keys, edited to other values below) and the base mode classes; none of them is ever enabled
    others = []
    if envk % 3 == 1:
        sib = type("SA_%d_sib" % idx, (cls,), {"MODE_NAME": spec["mode_name"] + "_sib"})
        for k_ in [sib] + list(build_class.bases_built):
            try:
                k_(spec.get("components"))
                others.append(k_.MODE_NAME)
            except Exception:  # noqa
                pass
    out = []
    hung = False
    for op in ops:
        m._log = []
        if hung:                 # the call did not return: nothing can be said about the rest of this history
            out.append([])
            continue
        try:
            if op["op"] == "enable":
                for name in timed:
                    key = "%s\\%s_duration" % (spec["mode_name"], name)
                    v = op["dash"].get(name)
                    if v is None:
                        table.getEntry(key).unpublish()
                        if table.getNumber(key, -12345.0) != -12345.0:
                            problems.append("could not remove %s" % key)
                    else:
                        table.putNumber(key, v / T)
                        if table.getNumber(key, -12345.0) != v / T:
                            problems.append("could not write %s" % key)
                    for j_, o_ in enumerate(others):
                        table.putNumber("%s\\%s_duration" % (o_, name), ((v or 0) + 5 + 3 * j_) / T)
                with time_limit(5):
                    m.on_enable()
            elif op["op"] == "iter":
                m._rules = op["rules"]
                with time_limit(5):
                    m.on_iteration(op["tm"] / T)
            else:
                m.on_disable()
        except Exception as e:  # noqa
            m._log.append(("err", type(e).__name__))
            hung = hung or type(e).__name__ == "Hang"
        evs = []
        for e in m._log:
            if e[0] == "call":
                tm, stm = e[2], e[3]
                if (tm is not None and tm != int(tm)) or (stm is not None and stm != int(stm)):
                    problems.append("non-dyadic argument %r" % (e,))
                evs.append(("call", e[1], None if tm is None else int(tm),
                            None if stm is None else int(stm), e[4]))
            else:
                evs.append(e)
        out.append(evs)
    return None, out, problems


# ---------------------------------------------------------------------
# reference bookkeeping (generator + oracle)
# ---------------------------------------------------------------------
class Book:
    """Where the mode stands according to the PROPERTY, kept from events."""

    def __init__(self, spec):
        self.spec = spec
        self.decl = {s["name"]: s for s in spec["states"]}
        self.status = ("notenabled",)
        self.dur = {}
        self.lo = None
        self.in_domain = True      # False once the history left what C15 talks about

    def duration(self, s):
        return self.dur.get(s, INF)

    def body_events(self, rules, name, stm, init):
        evs = []
        for a in lookup_rule(rules, name, stm, init):
            if a[0] == "done":
                evs.append(("done",))
            elif a[1] in self.decl:
                evs.append(("next", a[1]))
            else:
                evs.append(("err", "AttributeError"))
                break
        return evs

    def expected(self, op):
        """(expected events, clause, status after the expiry handling).
        Events: ('call', s, tm, state_tm, initial_call), the function's own
        ('next', s) / ('done',) calls, ('err', class)."""
        st = self.status
        if op["op"] == "disable":
            return [], "on_disable-does-nothing", st
        if op["op"] == "enable":
            return [], "on_enable", ("entered", self.spec["first"], "enable")
        tm, rules = op["tm"], op["rules"]
        if st[0] == "notenabled":
            return [("err", "ValueError")], "misuse", st
        if st[0] == "ended":
            return [], "after_end_nothing", st
        if st[0] == "entered":
            s = st[1]
            clause = "first_runs" if st[2] == "enable" else "entered_runs_once"
            return [("call", s, tm, 0, True)] + self.body_events(rules, s, 0, True), clause, st
        s, start = st[1], st[2]
        exp = start + self.duration(s)
        if tm <= exp:
            stm = tm - start
            return ([("call", s, tm, stm, False)] + self.body_events(rules, s, stm, False),
                    "holds_until_expiry", st)
        d = self.decl[s]
        if not d["timed"]:
            return [("err", "AttributeError")], "misuse", st
        n = d["next"]
        if n is None:
            return [], "after_end_nothing", ("ended",)
        if n not in self.decl:
            return [("err", "AttributeError")], "misuse", st
        stm = tm - exp
        return ([("call", n, tm, stm, True)] + self.body_events(rules, n, stm, True),
                "hands_over_at_expiry", ("entered", n, "expiry"))

    def advance(self, op, evs, exp_evs, st_pre):
        """bookkeeping: entries by on_enable / expiry as the property
        prescribes them (st_pre), then the events that happened; clocks from
        the arguments the function saw, else from the expectation."""
        if op["op"] == "enable":
            self.dur = {}
            for s in self.spec["states"]:
                if s["timed"]:
                    v = op["dash"].get(s["name"])
                    self.dur[s["name"]] = s["dur"] if v is None else v
            self.lo = None
        if op["op"] == "iter":
            if self.lo is not None and op["tm"] < self.lo:
                self.in_domain = False
            self.lo = op["tm"]
        if not any(e[0] == "err" for e in evs):
            self.status = st_pre
        exp_start = {}
        for e in exp_evs:
            if e[0] == "call":
                exp_start[e[1]] = e[2] - e[3]
        for e in evs:
            if e[0] == "err":
                self.in_domain = False
            elif e[0] == "done":
                self.status = ("ended",)
            elif e[0] == "next":
                self.status = ("entered", e[1], "body")
                if e[1] not in self.decl:
                    self.in_domain = False
            elif e[0] == "call":
                if e[2] is not None and e[3] is not None:
                    start = e[2] - e[3]
                else:
                    start = exp_start.get(e[1], op.get("tm", 0))
                self.status = ("running", e[1], start)
                if e[1] not in self.decl:
                    self.in_domain = False


def ev_agrees(obs, exp):
    if obs[0] != exp[0]:
        return False
    if obs[0] == "err":
        return True
    if obs[0] in ("next", "done"):
        return obs == exp
    if obs[1] != exp[1]:
        return False
    for o, x in zip(obs[2:], exp[2:]):
        if o is not None and o != x:
            return False
    return True


def oracle(spec, ops, events, ctor=None):
    """Violations of the property on an implementation trace: list of dicts.
    The mode has the states Python's attribute lookup finds on its class
    (spec["states"]: inherited ones included)."""
    firsts = spec.get("firsts", [spec["first"]] if spec.get("first") else [])
    if ctor is not None:
        if len(firsts) == 1:
            # a mode with exactly one first state cannot even be constructed:
            # on_enable()/on_iteration() can never run its first state
            return [{"op_index": -1, "clause": "first_runs(constructor)", "status": ["notenabled"],
                     "expected": "a mode object whose first state is %s" % firsts[0],
                     "observed": [("ctor_err", ctor)]}]
        return []
    if len(firsts) != 1:
        # zero or several first states: the property does not say what runs; the model assumes the
        # constructor refuses (ValueError)
        return [{"op_index": -1, "clause": "constructor_accepts_%d_first_states" % len(firsts),
                 "status": ["notenabled"], "expected": "ValueError", "observed": [("ctor_ok",)]}]
    b = Book(spec)
    viol = []
    for k, (op, evs) in enumerate(zip(ops, events)):
        exp, clause, st_pre = b.expected(op)
        judge = b.in_domain and clause != "misuse"
        if op["op"] == "iter" and b.lo is not None and op["tm"] < b.lo:
            judge = False
        if judge:
            ok = len(evs) == len(exp) and all(ev_agrees(o, x) for o, x in zip(evs, exp))
            if not ok:
                # name the clause more precisely
                calls_o = [e for e in evs if e[0] == "call"]
                calls_x = [e for e in exp if e[0] == "call"]
                cl = clause
                if clause == "after_end_nothing" and b.status[0] == "running":
                    cl = "last_state_expires/after_end_nothing"
                if calls_o and calls_x and calls_o[0][1] == calls_x[0][1]:
                    o, x = calls_o[0], calls_x[0]
                    if o[4] is not None and o[4] != x[4]:
                        cl = "initial_call"
                    elif o[3] is not None and o[3] != x[3]:
                        cl = "state_tm" if clause != "hands_over_at_expiry" else "hands_over_at_expiry"
                if sum(1 for p in ops[:k] if p["op"] == "enable") >= 2 and cl in ("first_runs", "initial_call", "state_tm"):
                    cl += "/period_independent"
                viol.append({"op_index": k, "clause": cl, "status": list(b.status),
                             "expected": exp, "observed": evs})
            for e in evs:
                if e[0] == "call" and e[3] is not None and e[3] < 0:
                    viol.append({"op_index": k, "clause": "state_tm_nonneg", "status": list(b.status),
                                 "expected": exp, "observed": evs})
        b.advance(op, evs, exp, st_pre)
        if viol:
            break
    return viol


# ---------------------------------------------------------------------
# generators
# ---------------------------------------------------------------------
HIERARCHIES = [
    # (weight, bases of each class; bases first, the mode class last)
    (30, [[], [0]]),                    # Base <- Mode
    (14, [[], [0], [1]]),               # GrandBase <- Base <- Mode
    (8, [[], [], [0, 1]]),              # two independent bases (mixins): Mode(A, B)
    (8, [[], [0], [0], [1, 2]]),        # diamond: Mode(A, B), A(R), B(R)
    (4, [[], [0], [1], [2]]),           # depth 4
]
GHOSTS = ["s7", "s8"]


def gen_state_def(rng, nm, names):
    timed = rng.random() < 0.7
    r = rng.random()
    if r < 0.05:
        params = []
    elif r < 0.2:
        params = rng.sample(ALL_PARAMS, rng.choice([1, 2]))
    else:
        params = list(ALL_PARAMS)
        rng.shuffle(params)
    st = {"name": nm, "timed": timed, "params": params}
    if timed:
        st["dur"] = rng.choice([0, 1, 2, 4, 8, 16, 32, 32, 64, 64, 100, 128])
        r = rng.random()
        st["next"] = None if r < 0.25 else (UNKNOWN if r < 0.26 else rng.choice(names))
    return st


def gen_spec(rng, idx, hier=None):
    """A mode definition: the states the mode is meant to have (the effective
    view), then a class hierarchy that realises it -- states spread over the
    mode class and its bases, definitions hidden by a more derived one (other
    duration / successor / first flag / not a state at all)."""
    n = rng.choice([1, 2, 2, 3, 3, 3, 4, 5])
    names = ["s%d" % i for i in range(n)]
    first = rng.choice(names)
    states = [gen_state_def(rng, nm, names) for nm in names]
    spec = {"mode_name": MODE_NAMES[idx % len(MODE_NAMES)],
            "components": rng.choice([None, {}, {"drive": 1}])}
    if hier is None:
        hier = rng.random() < 0.5
    if not hier:
        shape = [[]]
    else:
        tot = sum(w for w, _ in HIERARCHIES)
        r = rng.random() * tot
        for w, sh in HIERARCHIES:
            r -= w
            if r < 0:
                break
        shape = sh
    classes = [{"bases": list(bs), "defs": []} for bs in shape]
    mro = skeleton_mro(classes)            # class indices, most derived first
    top = len(classes) - 1
    inherit_first = rng.random() < 0.35
    place = {}
    for st in states:
        nm = st["name"]
        if len(mro) == 1:
            pos = 0
        elif nm == first:
            pos = rng.randrange(1, len(mro)) if inherit_first else 0
        else:
            # most states of a hierarchical mode are inherited
            pos = rng.randrange(1, len(mro)) if rng.random() < 0.65 else 0
        place[nm] = pos
        classes[mro[pos]]["defs"].append(dict(st, kind="state", first=(nm == first)))
    if len(mro) > 1:
        # definitions hidden by a more derived one
        for st in states:
            nm = st["name"]
            later = list(range(place[nm] + 1, len(mro)))
            if later and rng.random() < 0.3:
                h = gen_state_def(rng, nm, names)
                hd = dict(h, kind="state", first=rng.random() < 0.3)
                if rng.random() < 0.15:
                    hd = {"name": nm, "kind": "other", "as": rng.choice(["method", "none", "const"])}
                classes[mro[rng.choice(later)]]["defs"].append(hd)
        # a state of a base class that a more derived class replaced by something that is not a state
        # (never referenced by anybody): it is not a state of the mode, its first flag does not count
        for g in GHOSTS:
            if rng.random() < 0.12:
                pos = rng.randrange(0, len(mro) - 1)
                classes[mro[pos]]["defs"].append({"name": g, "kind": "other",
                                                  "as": rng.choice(["method", "none", "const"])})
                gd = dict(gen_state_def(rng, g, names), kind="state", first=rng.random() < 0.5)
                classes[mro[rng.randrange(pos + 1, len(mro))]]["defs"].append(gd)
    if rng.random() < 0.06:
        classes[rng.randrange(len(classes))]["defs"].append({"name": "s9", "kind": "other", "as": "method"})
    # rarely: a definition the constructor has to refuse (no / two effective first states)
    r = rng.random()
    if r < 0.012:
        for c in classes:
            for d in c["defs"]:
                if d["name"] == first and d["kind"] == "state" and c is classes[mro[place[first]]]:
                    d["first"] = False
    elif r < 0.024 and n >= 2:
        other = rng.choice([x for x in names if x != first])
        for d in classes[mro[place[other]]]["defs"]:
            if d["name"] == other:
                d["first"] = True
    for c in classes:
        rng.shuffle(c["defs"])
    spec["classes"] = classes
    return normalize_spec(spec)


def gen_rules(rng, spec, book, focus):
    if rng.random() < 0.68:
        return []
    names = [s["name"] for s in spec["states"]]
    params = {s["name"]: s["params"] for s in spec["states"]}
    rules = []
    for _ in range(rng.choice([1, 1, 1, 2])):
        nm = focus if (focus is not None and rng.random() < 0.7) else rng.choice(names)
        conds = [("always",)] * 3
        if "initial_call" in params[nm]:
            conds += [("init",), ("notinit",)]
        if "state_tm" in params[nm]:
            conds += [("stmge", rng.choice([0, 1, 4, 16, 32, 64]))] * 2
        cond = rng.choice(conds)

        def target():
            return UNKNOWN if rng.random() < 0.01 else rng.choice(names)
        r = rng.random()
        if r < 0.72:
            acts = [("next", target())]
        elif r < 0.88:
            acts = [("done",)]
        else:
            acts = rng.choice([[("next", target()), ("next", target())],
                               [("done",), ("next", target())],
                               [("next", target()), ("done",)]])
        rules.append((nm, cond, [tuple(a) for a in acts]))
    return rules


def gen_case(rng, idx, max_periods=4, hier=None):
    """A mode definition and a history, generated alongside the reference
    bookkeeping so that clock readings land on, just before and just after
    expiry instants and scripts address the state that will be called."""
    spec = gen_spec(rng, idx, hier)
    spec["env"] = idx % 6          # which other mode objects exist around the one under test (run_impl)
    if len(spec["firsts"]) != 1:
        return {"spec": spec, "ops": []}       # the constructor must refuse; nothing to drive
    book = Book(spec)
    ops = []
    timed = [s for s in spec["states"] if s["timed"]]
    dash = {s["name"]: s["dur"] for s in timed}

    def push(op):
        exp, _, st_pre = book.expected(op)
        book.advance(op, exp, exp, st_pre)
        ops.append(op)

    if rng.random() < 0.02:
        push({"op": "iter", "tm": 0, "rules": []})
    nper = rng.choice([1, 1, 2, 2, 2, 3, 4][:max(1, 2 * max_periods - 1)])
    for p in range(nper):
        # dashboard edits before this period
        if p > 0 or rng.random() < 0.3:
            for s in timed:
                r = rng.random()
                if r < 0.3:
                    dash[s["name"]] = rng.choice([0, 1, 3, 8, 24, 40, 64, 96, 200, -4])
                elif r < 0.36:
                    dash[s["name"]] = None
                elif r < 0.42:
                    dash[s["name"]] = s["dur"]
        push({"op": "enable", "dash": dict(dash)})
        if rng.random() < 0.03:
            push({"op": "enable", "dash": dict(dash)})
        t = rng.choice([0, 0, 0, 0, 5, 50, 700])
        for i in range(rng.randint(2, 16)):
            focus = None
            st = book.status
            if i > 0 and st[0] == "ended" and rng.random() < 0.5:
                break
            if st[0] in ("entered", "running"):
                focus = st[1]
            if i > 0:
                r = rng.random()
                exp = None
                if st[0] == "running":
                    e = st[2] + book.duration(st[1])
                    if t <= e < t + 4000:
                        exp = e
                if exp is not None and r < 0.3:
                    t = exp + rng.choice([0, 0, 1, 1, -1 if exp > t else 0])
                elif r < 0.34 and st[0] == "running" and not book.decl[st[1]]["timed"] and rng.random() < 0.06:
                    t = st[2] + INF + rng.choice([0, 1])
                elif r < 0.37:
                    t = max(0, t - rng.choice([1, 3, 20]))
                else:
                    t += rng.choice([0, 1, 1, 2, 3, 5, 8, 16, 40, 200])
            # the state that will be called may be the successor
            if st[0] == "running":
                e = st[2] + book.duration(st[1])
                d = book.decl[st[1]]
                if t > e and d["timed"] and d.get("next") in book.decl and rng.random() < 0.6:
                    focus = d["next"]
            push({"op": "iter", "tm": t, "rules": gen_rules(rng, spec, book, focus)})
        r = rng.random()
        if r < 0.75:
            push({"op": "disable"})
            if rng.random() < 0.1:
                push({"op": "iter", "tm": t + 1, "rules": []})
    return {"spec": spec, "ops": ops}


def edge_cases():
    """Hand-written boundary histories, run first after the corpus."""
    full = list(ALL_PARAMS)

    def iters(tms, rules=()):
        return [{"op": "iter", "tm": t, "rules": list(rules)} for t in tms]
    chain = {"mode_name": "edge", "first": "s0", "components": None, "states": [
        {"name": "s0", "timed": True, "dur": 64, "next": "s1", "params": full},
        {"name": "s1", "timed": True, "dur": 32, "next": "s2", "params": full},
        {"name": "s2", "timed": True, "dur": 16, "next": None, "params": full}]}
    loop = {"mode_name": "edge", "first": "s0", "components": None, "states": [
        {"name": "s0", "timed": True, "dur": 8, "next": "s0", "params": full}]}
    d0 = {"s0": 64, "s1": 32, "s2": 16}
    out = []
    # exact expiry instants, one tick after, a pause over the whole chain
    out.append({"spec": chain, "ops": [{"op": "enable", "dash": d0}] + iters([0, 64, 65, 96, 97, 98, 112, 113, 114, 115])})
    out.append({"spec": chain, "ops": [{"op": "enable", "dash": d0}] + iters([0, 500, 501, 502, 503])})
    # second period starting late, after an edit, and a third one without iterations in between
    out.append({"spec": chain, "ops": [{"op": "enable", "dash": d0}] + iters([0, 10]) + [{"op": "disable"},
               {"op": "enable", "dash": {"s0": 8, "s1": 32, "s2": 16}}] + iters([300, 305, 309, 340, 342]) +
               [{"op": "enable", "dash": d0}, {"op": "enable", "dash": {"s0": None, "s1": 1, "s2": 16}}] + iters([7, 71, 72, 74])})
    # self loop, tm far ahead: one call per iteration, clock never drifts
    out.append({"spec": loop, "ops": [{"op": "enable", "dash": {"s0": 8}}] + iters([0, 8, 9, 100, 101, 102])})
    # done() and re-entry of the running state from its own body
    out.append({"spec": chain, "ops": [{"op": "enable", "dash": d0}] +
               iters([0, 1], [("s0", ("notinit",), [("next", "s0")])]) + iters([2, 3]) +
               iters([4], [("s0", ("always",), [("done",)])]) + iters([5, 6, 1000]) +
               [{"op": "enable", "dash": d0}] + iters([0, 1])})
    # ---- inherited states ----
    def sdef(name, dur, nxt, first=False, timed=True):
        d = {"name": name, "kind": "state", "timed": timed, "params": list(full), "first": first}
        if timed:
            d.update(dur=dur, next=nxt)
        return d
    tail = [sdef("s1", 32, "s2"), sdef("s2", 48, None)]
    # a shared "settle -> shoot" tail in a base mode, the first state in the mode class; durations edited
    inh = {"mode_name": "edge", "components": None, "classes": [
        {"bases": [], "defs": tail}, {"bases": [0], "defs": [sdef("s0", 64, "s1", True)]}]}
    out.append({"spec": inh, "ops": [{"op": "enable", "dash": {"s0": 64, "s1": 32, "s2": 48}}] +
                iters([0, 64, 65, 96, 97, 144, 145, 146]) + [{"op": "disable"},
                {"op": "enable", "dash": {"s0": 64, "s1": 80, "s2": 16}}] + iters([0, 16, 64, 80, 144, 145, 160, 161, 162])})
    # the same tail reached from an untimed first state by next_state()
    inh2 = {"mode_name": "edge", "components": None, "classes": [
        {"bases": [], "defs": tail}, {"bases": [0], "defs": [sdef("s0", None, None, True, timed=False)]}]}
    out.append({"spec": inh2, "ops": [{"op": "enable", "dash": {"s1": 32, "s2": 48}}] +
                iters([0, 16], [("s0", ("stmge", 16), [("next", "s1")])]) + iters([32, 48, 49, 64, 97, 98, 99])})
    # the first state itself is inherited (two levels up); the mode class only overrides a duration
    inh3 = {"mode_name": "edge", "components": None, "classes": [
        {"bases": [], "defs": [sdef("s0", 8, "s1", True)]},
        {"bases": [0], "defs": [sdef("s1", 200, None)]},
        {"bases": [1], "defs": [sdef("s1", 16, "s0")]}]}
    out.append({"spec": inh3, "ops": [{"op": "enable", "dash": {"s0": 8, "s1": 16}}] + iters([0, 8, 9, 24, 25, 26, 34])})
    # a base's first state replaced in the mode class: by a non-first state of the same name / by a plain method
    inh4 = {"mode_name": "edge", "components": None, "classes": [
        {"bases": [], "defs": [sdef("s1", 8, None, True), sdef("s7", 8, None, True)]},
        {"bases": [0], "defs": [sdef("s0", 4, "s1", True), sdef("s1", 8, None, False),
                                {"name": "s7", "kind": "other", "as": "method"}]}]}
    out.append({"spec": inh4, "ops": [{"op": "enable", "dash": {"s0": 4, "s1": 8}}] + iters([0, 4, 5, 12, 13, 14])})
    # two first states, one of them inherited; no first state at all (only a hidden one): refused
    out.append({"spec": {"mode_name": "edge", "components": None, "classes": [
        {"bases": [], "defs": [sdef("s1", 8, None, True)]}, {"bases": [0], "defs": [sdef("s0", 4, "s1", True)]}]}, "ops": []})
    out.append({"spec": {"mode_name": "edge", "components": None, "classes": [
        {"bases": [], "defs": [sdef("s0", 8, None, True)]}, {"bases": [0], "defs": [sdef("s0", 4, None, False)]}]}, "ops": []})
    # diamond: Mode(A, B), A(R), B(R); A's definition of s1 wins over B's and R's
    dia = {"mode_name": "edge", "components": None, "classes": [
        {"bases": [], "defs": [sdef("s1", 100, None), sdef("s2", 4, None)]},
        {"bases": [0], "defs": [sdef("s1", 8, "s2")]},
        {"bases": [0], "defs": [sdef("s1", 50, None), sdef("s0", 16, "s1", True)]},
        {"bases": [1, 2], "defs": []}]}
    out.append({"spec": dia, "ops": [{"op": "enable", "dash": {"s0": 16, "s1": 8, "s2": 4}}] + iters([0, 16, 17, 24, 25, 28, 29, 30])})
    for c in out:
        normalize_spec(c["spec"])
    return out


# ---------------------------------------------------------------------
# emitting Coq
# ---------------------------------------------------------------------
def coq_cond(c):
    return {"always": "CAlways", "init": "CInit", "notinit": "CNotInit"}.get(c[0]) or "(CStmGe %s)" % coq_Z(c[1])


def coq_act(a):
    return "ADone" if a[0] == "done" else "(ANext %s)" % coq_nat(sid(a[1]))


def coq_shape(spec):
    sts = []
    for s in spec["states"]:
        if s["timed"]:
            d = "(Timed %s %s)" % (coq_Z(s["dur"]), coq_opt(s["next"], lambda n: coq_nat(sid(n))))
        else:
            d = "Untimed"
        sts.append("(%s, %s)" % (coq_nat(sid(s["name"])), d))
    return "{| sh_states := %s; sh_first := %s; sh_inf := %s |}" % (
        coq_list(sts), coq_nat(sid(spec["first"])), coq_Z(INF))


def coq_op(op):
    if op["op"] == "disable":
        return "OnDisable"
    if op["op"] == "enable":
        return "(OnEnable (dash_tbl %s))" % coq_list(
            ["(%s, %s)" % (coq_nat(sid(k)), coq_Z(v)) for k, v in sorted(op["dash"].items()) if v is not None])
    rules = ["(%s, %s, %s)" % (coq_nat(sid(n)), coq_cond(c), coq_list([coq_act(a) for a in acts]))
             for (n, c, acts) in op["rules"]]
    return "(OnIteration %s (tbl_body %s))" % (coq_Z(op["tm"]), coq_list(rules))


def coq_obs(e):
    if e[0] == "err":
        return "(OErr %s)" % ("ErrNotEnabled" if e[1] == "ValueError" else "ErrAttr")
    return "(OCall %s %s %s %s)" % (coq_nat(sid(e[1])), coq_opt(e[2], coq_Z), coq_opt(e[3], coq_Z),
                                    coq_opt(e[4], coq_bool))


HEADER = ("From Coq Require Import ZArith List Bool.\nFrom RV Require Import Stateful.Model.\n"
          "Import ListNotations.\n")


def coq_sdecl(d):
    if d["timed"]:
        return "(Timed %s %s)" % (coq_Z(d["dur"]), coq_opt(d["next"], lambda n: coq_nat(sid(n))))
    return "Untimed"


def coq_mro(spec):
    """the class bodies in the order of type(self).__mro__ (Python's linearisation)"""
    bodies = []
    for ci in skeleton_mro(spec["classes"]):
        items = []
        for d in spec["classes"][ci]["defs"]:
            if d["kind"] == "other":
                items.append("(%s, AOther)" % coq_nat(sid(d["name"])))
            else:
                items.append("(%s, AState %s %s)" % (coq_nat(sid(d["name"])), coq_sdecl(d), coq_bool(d["first"])))
        bodies.append(coq_list(items))
    return coq_list(bodies)


def coq_case(c, ctor, events):
    if ctor is not None:
        obs = "None"
    else:
        flat = [e for evs in events for e in evs if e[0] in ("call", "err")]
        obs = "(Some %s)" % coq_list([coq_obs(e) for e in flat])
    return "(%s, %s,\n  %s,\n  %s)" % (coq_Z(INF), coq_mro(c["spec"]), coq_list([coq_op(o) for o in c["ops"]]), obs)


def cases_file(items):
    return (HEADER + "Definition cases : list ccase := %s.\n" % coq_list([coq_case(c, ct, ev) for c, ct, ev in items]) +
            "Eval vm_compute in (cbad 0%nat cases).\n")


# ---------------------------------------------------------------------
# (de)serialisation of cases
# ---------------------------------------------------------------------
def norm_case(c):
    """tuples after a JSON round trip"""
    for op in c["ops"]:
        if op["op"] == "iter":
            op["rules"] = [(r[0], tuple(r[1]), [tuple(a) for a in r[2]]) for r in op["rules"]]
    normalize_spec(c["spec"])
    return c


def load_corpus():
    d = os.path.join(CORPUS, "C15")
    out = []
    if os.path.isdir(d):
        for f in sorted(os.listdir(d)):
            if f.endswith(".json"):
                obj = json.load(open(os.path.join(d, f)))
                out.append((f, norm_case({"spec": obj["spec"], "ops": obj["ops"]})))
    return out


# ---------------------------------------------------------------------
# shrinking
# ---------------------------------------------------------------------
def fails(mod, c, strong_only=False):
    """(violations, events) if the property fails on this case.  strong_only: a definition that the
    constructor should have refused does not count (the shrinker must not turn a violated clause
    into that)."""
    try:
        normalize_spec(c["spec"])
        ctor, ev, _ = run_impl(mod, c["spec"], c["ops"], 900000)
    except Exception:
        return None
    v = oracle(c["spec"], c["ops"], ev, ctor)
    if v and strong_only and v[0]["clause"].startswith("constructor_accepts"):
        return None
    return (v, ev) if v else None


def _copy(c):
    return norm_case(json.loads(json.dumps(c)))


def shrink(mod, c):
    """smaller history/definition on which the oracle still reports a violation"""
    c = _copy(c)
    r = fails(mod, c)
    if not r:
        return c, None
    strong = not r[0][0]["clause"].startswith("constructor_accepts")
    # cut after the violating operation
    c["ops"] = c["ops"][:r[0][0]["op_index"] + 1]
    t = _copy(c)
    for k in t["spec"]["classes"]:
        for d in k["defs"]:
            if d["kind"] == "state":
                d["params"] = list(ALL_PARAMS)
    if fails(mod, t, strong):
        c = t
    if not fails(mod, c, strong):
        return c, fails(mod, c, strong)

    def attempt(t):
        nonlocal c
        try:
            normalize_spec(t["spec"])
        except Exception:
            return False
        if fails(mod, t, strong):
            c = t
            return True
        return False

    changed = True
    while changed:
        changed = False
        # the whole definition in ONE class (then inheritance plays no role)
        if len(c["spec"]["classes"]) > 1:
            t = _copy(c)
            t["spec"]["classes"] = None
            if attempt(t):
                changed = True
        # drop single operations
        i = 0
        while i < len(c["ops"]):
            t = dict(c, ops=c["ops"][:i] + c["ops"][i + 1:])
            if any(o["op"] == "enable" for o in t["ops"]) and fails(mod, t, strong):
                c = t
                changed = True
            else:
                i += 1
        # drop rules
        for o in c["ops"]:
            if o["op"] == "iter" and o["rules"]:
                keep = o["rules"]
                o["rules"] = []
                if fails(mod, c, strong):
                    changed = True
                else:
                    o["rules"] = keep
        # drop single definitions: hidden ones, non-states, states nobody needs
        ci = 0
        while ci < len(c["spec"]["classes"]):
            di = 0
            while di < len(c["spec"]["classes"][ci]["defs"]):
                t = _copy(c)
                gone = t["spec"]["classes"][ci]["defs"].pop(di)
                still = {d["name"] for k in t["spec"]["classes"] for d in k["defs"]}
                if gone["name"] not in still:
                    for o in t["ops"]:
                        if o["op"] == "enable":
                            o["dash"].pop(gone["name"], None)
                if attempt(t):
                    changed = True
                else:
                    di += 1
            ci += 1
        # drop classes that define nothing (their subclasses inherit from their bases instead)
        ci = 0
        while ci < len(c["spec"]["classes"]) - 1:
            k = c["spec"]["classes"][ci]
            if k["defs"]:
                ci += 1
                continue
            t = _copy(c)
            ks = t["spec"]["classes"]
            for j, kk in enumerate(ks):
                nb = []
                for x in kk["bases"]:
                    for y in (ks[ci]["bases"] if x == ci else [x]):
                        if y not in nb:
                            nb.append(y)
                kk["bases"] = [y - 1 if y > ci else y for y in nb]
            ks.pop(ci)
            if attempt(t):
                changed = True
            else:
                ci += 1
        # move inherited definitions into the mode class, one at a time
        top = len(c["spec"]["classes"]) - 1
        for ci in range(top):
            for di in range(len(c["spec"]["classes"][ci]["defs"]) - 1, -1, -1):
                t = _copy(c)
                d = t["spec"]["classes"][ci]["defs"].pop(di)
                if any(x["name"] == d["name"] for x in t["spec"]["classes"][top]["defs"]):
                    continue
                t["spec"]["classes"][top]["defs"].append(d)
                if attempt(t):
                    changed = True
        # untangle: successors that do not matter
        for ci in range(len(c["spec"]["classes"])):
            for di, d in enumerate(c["spec"]["classes"][ci]["defs"]):
                if d["kind"] == "state" and d["timed"] and d["next"] is not None:
                    t = _copy(c)
                    t["spec"]["classes"][ci]["defs"][di]["next"] = None
                    if attempt(t):
                        changed = True
    return c, fails(mod, c, strong)


def describe_classes(spec):
    def one(d):
        if d["kind"] == "other":
            return "%s=<%s, not a state>" % (d["name"], d.get("as", "method"))
        body = ("%gs%s" % (d["dur"] / T, "->" + d["next"] if d["next"] else "")) if d["timed"] else "untimed"
        return "%s(%s%s)" % (d["name"], body, ",first" if d["first"] else "")
    ks = spec["classes"]
    if len(ks) == 1:
        return "states " + ", ".join(one(d) for d in ks[0]["defs"])
    top = len(ks) - 1
    parts = []
    for i, k in enumerate(ks):
        nm = "Mode" if i == top else "Base%d" % i
        bs = ",".join("Base%d" % j for j in k["bases"]) or "StatefulAutonomous"
        parts.append("class %s(%s){%s}" % (nm, bs, ", ".join(one(d) for d in k["defs"])))
    return "; ".join(parts) + "; inherited by Mode: %s" % (",".join(inherited_names(spec)) or "-")


def describe(c, v, ev):
    v0 = v[0]
    hist = []
    for o in c["ops"]:
        if o["op"] == "enable":
            hist.append("on_enable[%s]" % ",".join("%s=%s" % (k, "absent" if x is None else "%rs" % (x / T)) for k, x in sorted(o["dash"].items())))
        elif o["op"] == "iter":
            r = ""
            if o["rules"]:
                r = "{" + ";".join("%s:%s" % (n, "+".join("done" if a[0] == "done" else "next(%s)" % a[1] for a in acts)) for (n, _, acts) in o["rules"]) + "}"
            hist.append("on_iteration(%r)%s" % (o["tm"] / T, r))
        else:
            hist.append("on_disable")
    where = "when the mode object is constructed" if v0["op_index"] < 0 else "at operation %d" % v0["op_index"]
    envk = c["spec"].get("env", 0)
    around = ((" [its base modes instantiated before it]" if envk % 2 == 0 and len(c["spec"]["classes"]) > 1 else "")
              + (" [a mode derived from it (MODE_NAME %s_sib, its own dashboard values) and its base modes instantiated after it]"
                 % c["spec"]["mode_name"] if envk % 3 == 1 else ""))
    return ("clause %s fails %s: %s%s first=%s; history %s; expected %s, implementation did %s"
            % (v0["clause"], where, describe_classes(c["spec"]), around, c["spec"]["first"] if c["spec"]["first"] else c["spec"]["firsts"],
               " ".join(hist), v0["expected"], v0["observed"]))


# ---------------------------------------------------------------------
# the check
# ---------------------------------------------------------------------
def check_constructor(mod, ctx):
    """model assumption: exactly one first state (sh_first)"""
    def f(self):
        pass

    def mk(firsts):
        ns = {"MODE_NAME": "ctor"}
        for i, fi in enumerate(firsts):
            g = _mk_fn("s%d" % i, [])
            ns["s%d" % i] = mod.timed_state(g, duration=1.0, first=fi)
        return type("Ctor", (mod.StatefulAutonomous,), ns)
    res = []
    for firsts in ([False, False], [True, True]):
        try:
            mk(firsts)()
            res.append(False)
        except ValueError:
            res.append(True)
        except Exception:
            res.append(False)
    ctx.obligation("assumption:constructor rejects zero or two first states", all(res), repr(res))


def check_sd_var(mod, ctx):
    """registered variables are (re-)read from the dashboard at every on_enable"""
    def initialize(self):
        self.register_sd_var("gain", 0.5)
        self.register_sd_var("label", "x", add_prefix=False)
    g = _mk_fn("s0", [])
    cls = type("Vars", (mod.StatefulAutonomous,), {"MODE_NAME": "vars", "initialize": initialize,
                                                  "s0": mod.state(g, first=True)})
    ok = True
    detail = ""
    try:
        m = cls()
        t = sd_table()
        m.on_enable()
        a = (m.gain, m.label)
        t.putNumber("vars\\gain", 0.75)
        t.putString("label", "y")
        b0 = (m.gain, m.label)
        m.on_enable()
        b = (m.gain, m.label)
        ok = a == (0.5, "x") and b0 == (0.5, "x") and b == (0.75, "y")
        detail = repr((a, b0, b))
    except Exception as e:  # noqa
        ok, detail = False, repr(e)
    ctx.obligation("sdvar:registered variables read at on_enable", ok, detail)


def nontrivial(c, events):
    called = set()
    moves = 0
    for op, evs in zip(c["ops"], events):
        for e in evs:
            if e[0] == "call":
                called.add(e[1])
                if e[4] is True and e[3] not in (None, 0):
                    moves += 1            # entered by an expiry (clock started earlier)
            elif e[0] in ("next", "done"):
                moves += 1
    return len(called) >= 2 and moves >= 1


def run(ctx):
    ctx.assumptions.append(
        "C15: state functions are modelled by their next_state()/done() calls (scripted per iteration); float "
        "arithmetic idealised (dyadic tm and durations, exact in the harness); ntcore getNumber/putNumber as a "
        "key-value map; an untimed state named x with an attribute x_duration is misuse and not modelled")
    ctx.prove()
    # on_iteration / next_state / done, translated from the current source and proved equal to the model (Stateful/SrcIterProofs.v)
    from . import c15_translate
    c15_translate.obligation(ctx)
    mod = impl_mod()
    check_constructor(mod, ctx)
    check_sd_var(mod, ctx)
    n_gen = 40000 if ctx.tier == "thorough" else 2000
    per_file = 500 if ctx.tier == "thorough" else 125

    cases = []
    for fn, c in load_corpus():
        c["origin"] = "corpus/" + fn
        cases.append(c)
    for c in edge_cases():
        c["origin"] = "edge"
        cases.append(c)
    for i in range(n_gen):
        c = gen_case(ctx.rng, i)
        c["origin"] = "gen"
        cases.append(c)
    for i, c in enumerate(cases):
        c["spec"].setdefault("env", i % 6)     # part of the case, so that the search, the shrinker and a replay re-create it

    results = []
    ctors = []
    harness_problems = []
    distinct = set()
    t0 = time.time()
    for i, c in enumerate(cases):
        try:
            ctor, ev, prob = run_impl(mod, c["spec"], c["ops"], i)
        except Exception as e:  # the harness itself failed (class creation)
            ctor, ev, prob = type(e).__name__, [[] for _ in c["ops"]], ["run_impl: %r" % (e,)]
        if prob:
            harness_problems.append((i, prob[:2]))
        results.append(ev)
        ctors.append(ctor)
        ctx.count("states=%d" % len(c["spec"]["states"]))
        ctx.count("classes=%d" % len(c["spec"]["classes"]))
        ctx.count("inherited_states=%d" % len(inherited_names(c["spec"])))
        ctx.count("constructor=%s" % ("ok" if ctor is None else "raises"))
        if c["spec"]["first"] in inherited_names(c["spec"]):
            ctx.count("first_state_inherited")
        called_inh = set(inherited_names(c["spec"])) & {e[1] for evs in ev for e in evs if e[0] == "call"}
        if called_inh:
            ctx.count("histories_calling_an_inherited_state")
        ctx.count("periods=%d" % sum(1 for o in c["ops"] if o["op"] == "enable"))
        for o, evs in zip(c["ops"], ev):
            ctx.count("op=%s" % o["op"])
            if o["op"] == "iter":
                kinds = [e[0] for e in evs]
                k = ("err" if "err" in kinds else "nothing" if not evs
                     else "call+transition" if ("next" in kinds or "done" in kinds) else "call")
                if k.startswith("call") and evs[0][4] is True and evs[0][3] not in (None, 0):
                    k += "(hand-over)"
                ctx.count("iter:%s" % k)
        if nontrivial(c, ev):
            distinct.add(json.dumps([c["spec"]["classes"], c["ops"]], sort_keys=True, default=str))
    ctx.coverage["impl_seconds"] = round(time.time() - t0, 1)
    # the clauses of the property, stated directly over the implementation's events
    oracle_bad = [i for i, c in enumerate(cases) if oracle(c["spec"], c["ops"], results[i], ctors[i])]
    ctx.obligation("oracle:property clauses hold on every implementation trace", not oracle_bad,
                   "cases %r" % oracle_bad[:10])
    ctx.obligation("harness:dashboard writable, arguments dyadic", not harness_problems, repr(harness_problems[:3]))

    items = []
    for k, sh in enumerate(shards(list(zip(cases, ctors, results)), per_file)):
        items.append(("cases_%d" % k, cases_file(sh)))
    res = ctx.coq_files_parallel(items)
    bad_total = []
    for k, (name, _) in enumerate(items):
        rc, out = res[name]
        lists = parse_eval_lists(out) if rc == 0 else []
        ok = rc == 0 and len(lists) == 1 and lists[0] == []
        ctx.obligation("corr:%s (model trace == implementation events)" % name, ok, out[-1500:])
        if rc == 0 and lists and lists[0]:
            bad_total += [k * per_file + i for i in lists[0]]
        elif rc != 0:
            bad_total += list(range(k * per_file, min(len(cases), (k + 1) * per_file)))
    samples = []
    for i in (0, len(cases) // 2, len(cases) - 1):
        samples.append({"origin": cases[i]["origin"], "spec": cases[i]["spec"], "ops": cases[i]["ops"],
                        "constructor_raised": ctors[i], "events": results[i]})
    ctx.coverage.update({
        "evaluations": len(cases),
        "traces_validated_against_impl": len(cases),
        "distinct_nontrivial": len(distinct),
        "rule": "corpus + hand-written boundary histories + generated modes (1-5 states, timed/untimed, chains, loops, "
                "branches, unknown successors 1%; half of them as a class hierarchy -- 2-4 classes, linear, two bases, "
                "diamond -- with the states spread over the mode class and its bases, inherited first states, definitions "
                "hidden by a more derived state / non-state of the same name, 2% definitions the constructor must refuse), "
                "1-4 periods on one instance, dashboard edits/removals between "
                "periods, tm sequences in ticks of 1/64 s generated alongside the reference bookkeeping (30% of steps "
                "land on expiry-1/expiry/expiry+1, pauses of 200 ticks, repeated and 3% decreasing readings, untimed "
                "overflow), per-iteration scripts of next_state/done; non-trivial = at least two different states "
                "called and at least one hand-over or scripted transition; distinct = different definition+history",
        "samples": samples,
        "exhaustive": False,
        "disagreeing_cases": bad_total[:20],
    })

    def search():
        found = []
        first = bad_total + oracle_bad
        fs = set(first)
        order = first + [i for i in range(len(cases)) if i not in fs]
        weak = None      # a definition the constructor should have refused: reported only if nothing else fails
        for i in order:
            v = oracle(cases[i]["spec"], cases[i]["ops"], results[i], ctors[i])
            if v and v[0]["clause"].startswith("constructor_accepts"):
                weak = cases[i] if weak is None else weak
            elif v:
                found.append(cases[i])
                break
        if not found:
            r = random.Random(ctx.seed + 1)
            t1 = time.time()
            for i in range(10 * n_gen):
                if time.time() - t1 > (240 if ctx.tier == "thorough" else 60):
                    break
                c = gen_case(r, i)
                if fails(mod, c):
                    found.append(c)
                    break
        if not found and weak is not None:
            found.append(weak)
        out = []
        for c in found:
            small, r2 = shrink(mod, c)
            if not r2:
                small, r2 = c, fails(mod, c)
            if not r2:
                continue
            v, ev = r2
            out.append({"kind": "input", "what": describe(small, v, ev),
                        "fingerprint": "C15:" + v[0]["clause"].split("/")[0],
                        "clause": v[0]["clause"], "spec": small["spec"], "ops": small["ops"],
                        "implementation_events": ev, "violation": v[0]})
        return out

    return ctx.finish(search=search)


def replay(ctx, obj):
    mod = impl_mod()
    if obj.get("kind") == "input" or ("spec" in obj and "ops" in obj):
        c = norm_case({"spec": obj["spec"], "ops": obj["ops"]})
        print("mode definition: %s" % describe_classes(c["spec"]))
        ctor, ev, prob = run_impl(mod, c["spec"], c["ops"], 0)
        print("constructor -> %s" % ("a mode object" if ctor is None else "raises %s" % ctor))
        for o, e in zip(c["ops"], ev):
            if o["op"] == "iter":
                print("on_iteration(tm=%r s = %d ticks) rules=%r -> %r" % (o["tm"] / T, o["tm"], o["rules"], e))
            elif o["op"] == "enable":
                print("on_enable() dashboard=%r -> %r" % (o["dash"], e))
            else:
                print("on_disable() -> %r" % (e,))
        v = oracle(c["spec"], c["ops"], ev, ctor)
        if v:
            print(describe(c, v, ev))
            print("VIOLATION property=C15 replay=(replayed)")
            return 1
        print("property clauses hold on this history")
        return 0
    print("replay names broken obligations only: %s" % [b["name"] for b in obj.get("broken_obligations", [])])
    return run(ctx)
