"""C09: magicbot/magic_tunable.py -- tunable.__get__, tunable.__set__, the prefix computation and the per-attribute body of the
loop of setup_tunables, and the two type tables _topic_types / _array_topic_types, translated from the current source
(fail-closed: every statement / expression outside the shapes below raises Shape, the `regen:` obligation is then broken) into
Gallina definitions, and proved equal to Tunable.Model (tunable_get, gstep on PyWrite, key_prefix, setup_loop, scalar_topic,
array_topic) in Tunable/SrcTunableProofs.v.

Reading of the source (trusted):
  __get__(self, instance, owner=None)      -> instance : option pyobj (None = access through the class), self = the attribute `attr`
  __set__(self, instance, value)           -> instance : pyobj, value : value
  X is not None / X is None                -> match on the option
  INST._tunables[self]                     -> the entry the instance's map holds for this tunable (SrcTunable.with_entry; a missing
                                              map / key is AttributeError / KeyError = the `err` result)
  ENTRY.get()                              -> SrcTunable.entry_get: the topic's value, the entry's default when it has none
  ENTRY.set(V)                             -> SrcTunable.entry_set .. SNow  (no timestamp argument, or the literal 0: "now");
                                              ANY other timestamp argument is not read at all (Shape)
  return self                              -> GSelf
  setup_tunables: cls = component.__class__ ; the if/else that builds `prefix` from f-strings -> a string function of the
      optional prefix and cname; NetworkTableInstance.getDefault(); T = {} (the map being built); the `for n in dir(cls)` loop;
      component._tunables = T as the LAST statement.  Anything else in the function body is not read (Shape).
  one iteration of the loop = a function of the name n, of what getattr(cls, n) finds (m : option (decl * ntype): None = not a
      tunable; Some (d, ty): the tunable object d with the topic type ty its _topic_type slot stands for) and of the
      accumulator (NT contents, the map built so far):
  n.startswith("_")                        -> starts_with "_" n ;  `continue` -> the accumulator unchanged
  not isinstance(P, tunable)               -> m is None
  P._ntsubtable / _ntdefault / _ntwritedefault -> d_subtable d / d_default d / d_wd d ; truthiness of the subtable: Some s with s <> ""
  f"{a}/{b}/{c}"                           -> a ++ "/" ++ b ++ "/" ++ c   (plain concatenation of the pieces)
  P._topic_type(NT.getTopic(key))          -> the typed topic (key, ty)
  isinstance(topic, ntcore.RawTopic)       -> is_raw ty ; topic.getEntry("raw", D) and topic.getEntry(D) -> the entry (key, ty, entry_value ty D)
  E.set(D) / E.setDefault(D)               -> nt_set / nt_set_default of the entry's key with entry_value ty D (D must be the default)
  T[P] = E                                 -> (n, entry) :: map
  _topic_types = {bool: ntcore.BooleanTopic, ..} / _array_topic_types -> a function base -> option ntype (python class -> BBool ..,
      ntcore.<X>Topic -> N<X>; every other base: None)"""
import ast
import os

from .pytr import Shape, txt

PATH = "magicbot/magic_tunable.py"


def _module(repo):
    return ast.parse(open(os.path.join(repo, PATH)).read())


def _strip_doc(body):
    if body and isinstance(body[0], ast.Expr) and isinstance(body[0].value, ast.Constant) and isinstance(body[0].value.value, str):
        return body[1:]
    return body


def _method(tree, name):
    cs = [n for n in tree.body if isinstance(n, ast.ClassDef) and n.name == "tunable"]
    if len(cs) != 1:
        raise Shape("class tunable not found")
    fs = [n for n in cs[0].body if isinstance(n, ast.FunctionDef) and n.name == name and not n.decorator_list]
    if len(fs) != 1:
        raise Shape("tunable.%s: %d undecorated definitions" % (name, len(fs)))
    return fs[0]


def _params(f, n):
    a = f.args
    if a.vararg or a.kwarg or a.kwonlyargs or a.posonlyargs:
        raise Shape("%s: parameter list" % f.name)
    names = [x.arg for x in a.args]
    if len(names) < n:
        raise Shape("%s: parameters %r" % (f.name, names))
    return names


def _entry_of(n, inst, me):
    """INST._tunables[self] -> True"""
    return (isinstance(n, ast.Subscript) and isinstance(n.value, ast.Attribute) and n.value.attr == "_tunables"
            and isinstance(n.value.value, ast.Name) and n.value.value.id == inst
            and isinstance(n.slice, ast.Name) and n.slice.id == me)


def _is_none_test(n, name):
    """(X is not None) -> True, (X is None) -> False, else None"""
    if isinstance(n, ast.Compare) and len(n.ops) == 1 and isinstance(n.left, ast.Name) and n.left.id == name \
            and isinstance(n.comparators[0], ast.Constant) and n.comparators[0].value is None:
        if isinstance(n.ops[0], ast.IsNot):
            return True
        if isinstance(n.ops[0], ast.Is):
            return False
    return None


# ---------------------------------------------------------------- __get__ / __set__
def tr_get(tree, name):
    f = _method(tree, "__get__")
    me, inst = _params(f, 2)[:2]

    def ret(stmts):
        if len(stmts) != 1 or not isinstance(stmts[0], ast.Return) or stmts[0].value is None:
            raise Shape("__get__: a single `return` expected, got %s" % "; ".join(txt(s) for s in stmts)[:100])
        v = stmts[0].value
        if isinstance(v, ast.Name) and v.id == me:
            return None
        if isinstance(v, ast.Call) and not v.args and not v.keywords and isinstance(v.func, ast.Attribute) and v.func.attr == "get" \
                and _entry_of(v.func.value, inst, me):
            return "GResult (with_entry w inst attr (fun e => EvVal (entry_get w e)) EvErr)"
        raise Shape("__get__: return value not recognised: %s" % txt(v)[:100])

    body = _strip_doc(f.body)
    if len(body) != 2 or not isinstance(body[0], ast.If) or body[0].orelse:
        raise Shape("__get__: `if <instance test>: return ..` followed by `return ..` expected")
    pol = _is_none_test(body[0].test, inst)
    if pol is None:
        raise Shape("__get__: the test is not `%s is [not] None`: %s" % (inst, txt(body[0].test)))
    a, b = ret(body[0].body), ret(body[1:])
    some, none = (a, b) if pol else (b, a)

    def br(t, bound):
        if t is None:
            return "GSelf"
        if not bound:
            raise Shape("__get__: the entry of the instance is used where the instance is None")
        return t
    return ("Definition %s (w : world) (instance : option pyobj) (attr : string) : getres :=\n"
            "  match instance with\n  | Some inst => %s\n  | None => %s\n  end." % (name, br(some, True), br(none, False)))


def tr_set(tree, name):
    f = _method(tree, "__set__")
    me, inst, val = _params(f, 3)[:3]
    body = _strip_doc(f.body)
    if len(body) != 1 or not isinstance(body[0], ast.Expr) or not isinstance(body[0].value, ast.Call):
        raise Shape("__set__: a single call statement expected, got %s" % "; ".join(txt(s) for s in body)[:120])
    c = body[0].value
    if not (isinstance(c.func, ast.Attribute) and c.func.attr == "set" and _entry_of(c.func.value, inst, me)) or c.keywords:
        raise Shape("__set__: not `%s._tunables[%s].set(..)`: %s" % (inst, me, txt(c)[:100]))
    if not (1 <= len(c.args) <= 2) or not (isinstance(c.args[0], ast.Name) and c.args[0].id == val):
        raise Shape("__set__: the value argument of set(): %s" % txt(c)[:100])
    if len(c.args) == 2 and not (isinstance(c.args[1], ast.Constant) and c.args[1].value == 0 and c.args[1].value is not False):
        raise Shape("__set__: a timestamp argument other than the literal 0 is not read: %s" % txt(c.args[1])[:80])
    return ("Definition %s (g : gworld) (inst : pyobj) (attr : string) (v : value) : gworld * gevent * bool :=\n"
            "  with_entry (x_w (g_x g)) inst attr (fun e => entry_set g e v SNow) (g, GEv (XEv EvErr), true)." % name)


# ---------------------------------------------------------------- setup_tunables
def _fstring(n, strs):
    """f"{a}/{b}" -> a ++ "/" ++ b ; strs: python expression text -> Coq string term"""
    if not isinstance(n, ast.JoinedStr):
        raise Shape("an f-string expected: %s" % txt(n)[:80])
    parts = []
    for v in n.values:
        if isinstance(v, ast.Constant) and isinstance(v.value, str):
            if any(ord(ch) < 32 or ord(ch) > 126 or ch == '"' for ch in v.value):
                raise Shape("f-string literal %r" % v.value)
            parts.append('"%s"' % v.value)
        elif isinstance(v, ast.FormattedValue) and v.conversion == -1 and v.format_spec is None and txt(v.value) in strs:
            parts.append(strs[txt(v.value)])
        else:
            raise Shape("f-string piece not recognised: %s" % txt(v)[:60])
    if not parts:
        return '""'
    return " ++ ".join(parts)


class Iter:
    """one iteration of `for n in dir(cls)`: symbolic execution with continuations; state = (nt term, map term)"""

    def __init__(self, nvar, cls, nttable, tmap, prefix):
        self.nvar, self.cls, self.nttable, self.tmap, self.prefix = nvar, cls, nttable, tmap, prefix

    def run(self, stmts, env, nt, b):
        """env: python local -> symbolic value"""
        if not stmts:
            return "(%s, %s)" % (nt, b)
        s, rest = stmts[0], stmts[1:]
        if isinstance(s, ast.Continue):
            return "(%s, %s)" % (nt, b)
        if isinstance(s, ast.If):
            return self.cond(s.test, env,
                             lambda e: self.run(list(s.body) + rest, e, nt, b),
                             lambda e: self.run(list(s.orelse) + rest, e, nt, b))
        if isinstance(s, ast.Assign) and len(s.targets) == 1:
            t = s.targets[0]
            if isinstance(t, ast.Name):
                e = dict(env)
                e[t.id] = self.expr(s.value, env)
                return self.run(rest, e, nt, b)
            if isinstance(t, ast.Subscript) and isinstance(t.value, ast.Name) and t.value.id == self.tmap \
                    and isinstance(t.slice, ast.Name) and env.get(t.slice.id, ("?",))[0] == "prop":
                v = self.expr(s.value, env)
                if v[0] != "entry":
                    raise Shape("%s: not an entry" % txt(s)[:80])
                return self.run(rest, env, nt, "((%s, (%s, ty, %s)) :: %s)" % (self.nvar_term, v[1], v[2], b))
            raise Shape("assignment target: %s" % txt(s)[:80])
        if isinstance(s, ast.Expr) and isinstance(s.value, ast.Call) and isinstance(s.value.func, ast.Attribute) \
                and isinstance(s.value.func.value, ast.Name) and env.get(s.value.func.value.id, ("?",))[0] == "entry":
            c = s.value
            ent = env[c.func.value.id]
            if c.keywords or len(c.args) != 1 or self.expr(c.args[0], env) != ("default",):
                raise Shape("%s: the argument must be the tunable's default (and nothing else)" % txt(s)[:80])
            if c.func.attr == "set":
                return self.run(rest, env, "(nt_set %s %s ty %s)" % (nt, ent[1], ent[2]), b)
            if c.func.attr == "setDefault":
                return self.run(rest, env, "(nt_set_default %s %s ty %s)" % (nt, ent[1], ent[2]), b)
        raise Shape("statement of the loop body not recognised: %s" % txt(s)[:100])

    nvar_term = "n"

    def expr(self, n, env):
        t = txt(n)
        if isinstance(n, ast.Name) and n.id in env:
            return env[n.id]
        if isinstance(n, ast.Call) and txt(n.func) == "getattr" and len(n.args) == 2 and not n.keywords \
                and txt(n.args[0]) == self.cls and txt(n.args[1]) == self.nvar:
            return ("member",)
        if isinstance(n, ast.Attribute) and isinstance(n.value, ast.Name) and env.get(n.value.id, ("?",))[0] == "prop":
            if n.attr == "_ntdefault":
                return ("default",)
            if n.attr == "_ntsubtable":
                return ("subtable",)
            if n.attr == "_ntwritedefault":
                return ("wd",)
        if isinstance(n, ast.JoinedStr):
            strs = {self.prefix: "pfx", self.nvar: "n"}
            for k, v in env.items():
                if v[0] == "str":
                    strs[k] = v[1]
                if v[0] == "prop" and env.get("#sub") is not None:
                    strs["%s._ntsubtable" % k] = env["#sub"][1]
            return ("str", _fstring(n, strs))
        if isinstance(n, ast.Call) and isinstance(n.func, ast.Attribute) and n.func.attr == "_topic_type" \
                and isinstance(n.func.value, ast.Name) and env.get(n.func.value.id, ("?",))[0] == "prop" and len(n.args) == 1 and not n.keywords:
            a = n.args[0]
            if isinstance(a, ast.Call) and txt(a.func) == "%s.getTopic" % self.nttable and len(a.args) == 1 and not a.keywords:
                k = self.expr(a.args[0], env)
                if k[0] == "str":
                    return ("topic", "(%s)" % k[1])
        if isinstance(n, ast.Call) and isinstance(n.func, ast.Attribute) and n.func.attr == "getEntry" and not n.keywords \
                and isinstance(n.func.value, ast.Name) and env.get(n.func.value.id, ("?",))[0] == "topic":
            args = list(n.args)
            if len(args) == 2 and isinstance(args[0], ast.Constant) and args[0].value == "raw":
                if not env.get("#raw"):
                    raise Shape('getEntry("raw", ..) on a topic that is not known to be a RawTopic')
                args = args[1:]
            if len(args) == 1 and self.expr(args[0], env) == ("default",):
                return ("entry", env[n.func.value.id][1], "(entry_value ty (d_default d))")
        raise Shape("expression of the loop body not recognised: %s" % t[:100])

    def cond(self, n, env, kt, kf):
        if isinstance(n, ast.UnaryOp) and isinstance(n.op, ast.Not):
            return self.cond(n.operand, env, kf, kt)
        t = txt(n)
        if isinstance(n, ast.Call) and isinstance(n.func, ast.Attribute) and n.func.attr == "startswith" and txt(n.func.value) == self.nvar \
                and len(n.args) == 1 and isinstance(n.args[0], ast.Constant) and n.args[0].value == "_":
            return '(if starts_with "_" n then %s else %s)' % (kt(env), kf(env))
        if isinstance(n, ast.Call) and txt(n.func) == "isinstance" and len(n.args) == 2 and isinstance(n.args[0], ast.Name) and not n.keywords:
            v = env.get(n.args[0].id, ("?",))
            if v[0] == "member" and txt(n.args[1]) == "tunable":
                e = dict(env)
                e[n.args[0].id] = ("prop",)
                return "(match m with Some (d, ty) => %s | None => %s end)" % (kt(e), kf(env))
            if v[0] == "topic" and txt(n.args[1]) == "ntcore.RawTopic":
                e1, e2 = dict(env), dict(env)
                e1["#raw"] = True
                return "(if is_raw ty then %s else %s)" % (kt(e1), kf(e2))
        v = self.expr(n, env) if isinstance(n, (ast.Attribute, ast.Name)) else None
        if v == ("subtable",):
            e = dict(env)
            e["#sub"] = ("str", "s")
            return '(match d_subtable d with Some s => if String.eqb s "" then %s else %s | None => %s end)' % (kf(env), kt(e), kf(env))
        if v == ("wd",):
            return "(if d_wd d then %s else %s)" % (kt(env), kf(env))
        raise Shape("condition of the loop body not recognised: %s" % t[:100])


def tr_setup(tree, pname, sname):
    fs = [n for n in tree.body if isinstance(n, ast.FunctionDef) and n.name == "setup_tunables" and not n.decorator_list]
    if len(fs) != 1:
        raise Shape("setup_tunables not found")
    f = fs[0]
    comp, cname, prefix = _params(f, 3)[:3]
    body = _strip_doc(f.body)
    if len(body) != 6:
        raise Shape("setup_tunables: 6 statements expected (cls, prefix, NT instance, map, loop, store), found %d" % len(body))
    s_cls, s_pfx, s_nt, s_map, s_for, s_store = body
    if not (isinstance(s_cls, ast.Assign) and isinstance(s_cls.targets[0], ast.Name) and txt(s_cls.value) in
            ("%s.__class__" % comp, "type(%s)" % comp)):
        raise Shape("setup_tunables: `cls = component.__class__` expected: %s" % txt(s_cls)[:80])
    cls = s_cls.targets[0].id
    # prefix
    if not (isinstance(s_pfx, ast.If) and len(s_pfx.body) == 1 and len(s_pfx.orelse) == 1):
        raise Shape("setup_tunables: the if/else that builds the prefix")
    pol = _is_none_test(s_pfx.test, prefix)
    if pol is None:
        raise Shape("setup_tunables: prefix test %s" % txt(s_pfx.test))

    def passign(s, bound):
        if not (isinstance(s, ast.Assign) and len(s.targets) == 1 and isinstance(s.targets[0], ast.Name) and s.targets[0].id == prefix):
            raise Shape("setup_tunables: prefix assignment %s" % txt(s)[:80])
        strs = {cname: "cname"}
        if bound:
            strs[prefix] = "p"
        return _fstring(s.value, strs)
    some = passign((s_pfx.body if pol else s_pfx.orelse)[0], True)
    none = passign((s_pfx.orelse if pol else s_pfx.body)[0], False)
    pdef = ("Definition %s (prefix : option string) (cname : string) : string :=\n"
            "  match prefix with\n  | Some p => %s\n  | None => %s\n  end." % (pname, some, none))
    if not (isinstance(s_nt, ast.Assign) and isinstance(s_nt.targets[0], ast.Name) and txt(s_nt.value) == "NetworkTableInstance.getDefault()"):
        raise Shape("setup_tunables: NT instance: %s" % txt(s_nt)[:80])
    nttable = s_nt.targets[0].id
    if isinstance(s_map, ast.AnnAssign) and isinstance(s_map.target, ast.Name) and s_map.value is not None and txt(s_map.value) == "{}":
        tmap = s_map.target.id
    elif isinstance(s_map, ast.Assign) and isinstance(s_map.targets[0], ast.Name) and txt(s_map.value) == "{}":
        tmap = s_map.targets[0].id
    else:
        raise Shape("setup_tunables: the map must start empty: %s" % txt(s_map)[:80])
    if not (isinstance(s_for, ast.For) and isinstance(s_for.target, ast.Name) and txt(s_for.iter) == "dir(%s)" % cls and not s_for.orelse):
        raise Shape("setup_tunables: `for n in dir(cls)` expected: %s" % txt(s_for)[:60])
    if txt(s_store) != "%s._tunables = %s" % (comp, tmap):
        raise Shape("setup_tunables: last statement must store the map: %s" % txt(s_store)[:80])
    it = Iter(s_for.target.id, cls, nttable, tmap, prefix)
    term = it.run(list(s_for.body), {}, "nt", "b")
    sdef = ("Definition %s (pfx n : string) (m : option (decl * ntype)) (acc : ntmap * binding) : ntmap * binding :=\n"
            "  let '(nt, b) := acc in\n  %s." % (sname, term))
    return pdef, sdef


# ---------------------------------------------------------------- the type tables
PYBASE = {"bool": "BBool", "int": "BInt", "float": "BFloat", "str": "BStr", "bytes": "BBytes"}
NTTOPIC = {"ntcore.BooleanTopic": "NBoolean", "ntcore.IntegerTopic": "NInteger", "ntcore.DoubleTopic": "NDouble",
           "ntcore.StringTopic": "NString", "ntcore.RawTopic": "NRaw", "ntcore.BooleanArrayTopic": "NBooleanArr",
           "ntcore.IntegerArrayTopic": "NIntegerArr", "ntcore.DoubleArrayTopic": "NDoubleArr", "ntcore.StringArrayTopic": "NStringArr"}


def tr_table(tree, var, name):
    ss = [n for n in tree.body if isinstance(n, ast.Assign) and len(n.targets) == 1 and txt(n.targets[0]) == var]
    if len(ss) != 1 or not isinstance(ss[0].value, ast.Dict):
        raise Shape("%s = {..} not found (once)" % var)
    rows, seen = [], set()
    for k, v in zip(ss[0].value.keys, ss[0].value.values):
        if k is None or txt(k) not in PYBASE or txt(v) not in NTTOPIC or txt(k) in seen:
            raise Shape("%s: entry %s: %s" % (var, "**" if k is None else txt(k), txt(v)))
        seen.add(txt(k))
        rows.append("  | %s => Some %s" % (PYBASE[txt(k)], NTTOPIC[txt(v)]))
    return "Definition %s (b : base) : option ntype :=\n  match b with\n%s\n  | _ => None\n  end." % (name, "\n".join(rows))


# ---------------------------------------------------------------- files
def definitions(repo, prefix):
    tree = _module(repo)
    pdef, sdef = tr_setup(tree, prefix + "_prefix", prefix + "_setup_step")
    return ["(* tunable.__get__ *)\n" + tr_get(tree, prefix + "_get"),
            "(* tunable.__set__ *)\n" + tr_set(tree, prefix + "_set"),
            "(* setup_tunables: the prefix *)\n" + pdef,
            "(* setup_tunables: one iteration of the loop over dir(cls) *)\n" + sdef,
            "(* _topic_types *)\n" + tr_table(tree, "_topic_types", prefix + "_topic_types"),
            "(* _array_topic_types *)\n" + tr_table(tree, "_array_topic_types", prefix + "_array_topic_types")]


PRELUDE = r'''(* magic_tunable.py as the translator harness/c09_translate.py reads it.  The part above the line is written by hand: the
   primitives the source forms are read as (see the translator's docstring); the ref_ definitions below it are GENERATED
   (python -m harness.c09_translate --ref > this file) from /repo and compared with the source on every run
   (work/C09/Gen_tunable.v).  No proofs in this file. *)
From Coq Require Import String Ascii List Bool ZArith NArith.
From RV Require Import Tunable.Model.
Import ListNotations.
Open Scope string_scope.

(* INST._tunables[self]: the entry the instance's own map holds for the tunable; no map (instance not set up) or no such
   key is AttributeError / KeyError: [err] *)
Definition with_entry {A : Type} (w : world) (inst : pyobj) (attr : string) (k : entry -> A) (err : A) : A :=
  match inst_get (w_inst w) (fst inst) with
  | None => err
  | Some b => match bind_get b attr with
              | None => err
              | Some e => k e
              end
  end.
(* ENTRY.get(): the topic's value, the default handed to getEntry when it has none *)
Definition entry_get (w : world) (e : entry) : value :=
  match nt_get (w_nt w) (fst (fst e)) with
  | Some (_, v) => v
  | None => snd e
  end.
(* ENTRY.set(v [, time]): publish through the entry, stamped as the selector says (no argument / 0: the NT clock) *)
Definition entry_set (g : gworld) (e : entry) (v : value) (s : stampsel) : gworld * gevent * bool :=
  let key := fst (fst e) in
  let ty := snd (fst e) in
  let '(g', ok) := gwrite g key ty (entry_value ty v) (sel_time (g_now g) (stamp_get (g_stamps g) key) s) in
  (g', GEv (XEv EvWrote), ok).
(* isinstance(topic, ntcore.RawTopic) *)
Definition is_raw (t : ntype) : bool := match t with NRaw => true | _ => false end.

(* ------------------------------------------------------------------ generated ---------------------------------- *)
'''


def reference(repo):
    return PRELUDE + "\n\n".join(definitions(repo, "ref")) + "\n"


GEN_HEADER = ("From Coq Require Import String Ascii List Bool ZArith NArith.\n"
              "From RV Require Import Tunable.Model Tunable.SrcTunable Tunable.SrcTunableProofs.\n"
              "Import ListNotations.\nOpen Scope string_scope.\n\n")

GEN_PROOFS = r'''
(* the source as it is now reads exactly as the committed reference *)
Lemma regen_get : forall w instance attr, gen_get w instance attr = ref_get w instance attr.
Proof. reflexivity. Qed.
Lemma regen_set : forall g inst attr v, gen_set g inst attr v = ref_set g inst attr v.
Proof. reflexivity. Qed.
Lemma regen_prefix : forall prefix cname, gen_prefix prefix cname = ref_prefix prefix cname.
Proof. reflexivity. Qed.
Lemma regen_setup_step : forall pfx n m acc, gen_setup_step pfx n m acc = ref_setup_step pfx n m acc.
Proof. reflexivity. Qed.
Lemma regen_topic_types : forall b, gen_topic_types b = ref_topic_types b.
Proof. intros b; destruct b; reflexivity. Qed.
Lemma regen_array_topic_types : forall b, gen_array_topic_types b = ref_array_topic_types b.
Proof. intros b; destruct b; reflexivity. Qed.

(* so magic_tunable.py's functions, as the source has them now, ARE the model's *)
Theorem src_get_is_model : forall w instance attr, gen_get w instance attr = tunable_get w instance attr.
Proof. intros. rewrite regen_get. apply ref_get_spec. Qed.
Theorem src_set_is_model : forall g i t a v, gen_set g (i, t) a v = gstep g (GX (XOp (PyWrite i a v))).
Proof. intros. rewrite regen_set. apply ref_set_spec. Qed.
Theorem src_prefix_is_model : forall prefix cname, gen_prefix prefix cname = key_prefix prefix cname.
Proof. intros. rewrite regen_prefix. apply ref_prefix_spec. Qed.
Theorem src_setup_loop_is_model : forall pfx ds nt b,
  setup_loop pfx ds nt b = fold_left (fun acc dt => gen_setup_step pfx (d_attr (fst dt)) (Some dt) acc) ds (nt, b).
Proof.
  intros. rewrite ref_setup_loop_spec. apply fold_left_ext_step. intros. symmetry. apply regen_setup_step.
Qed.
Theorem src_topic_types_is_model : forall b, gen_topic_types b = match b with BStruct _ => None | _ => scalar_topic b end.
Proof. intros. rewrite regen_topic_types. apply ref_topic_types_spec. Qed.
Theorem src_array_topic_types_is_model : forall b, gen_array_topic_types b = match b with BStruct _ => None | _ => array_topic b end.
Proof. intros. rewrite regen_array_topic_types. apply ref_array_topic_types_spec. Qed.
Print Assumptions src_get_is_model.
Print Assumptions src_set_is_model.
Print Assumptions src_prefix_is_model.
Print Assumptions src_setup_loop_is_model.
Print Assumptions src_topic_types_is_model.
Print Assumptions src_array_topic_types_is_model.
'''


def coq(repo):
    return GEN_HEADER + "\n\n".join(definitions(repo, "gen")) + "\n" + GEN_PROOFS


def obligation(ctx):
    from .common import REPO
    name = "regen:magic_tunable.py (tunable.__get__ / __set__, setup_tunables, _topic_types, _array_topic_types have the shapes the translator reads)"
    try:
        text = coq(REPO)
    except Shape as e:
        ctx.obligation(name, False, str(e))
        return False
    except (SyntaxError, OSError, KeyError, IndexError, AttributeError, TypeError) as e:
        ctx.obligation(name, False, repr(e))
        return False
    ctx.obligation(name, True, "")
    rc, out = ctx.coq_file("Gen_tunable", text)
    ok = rc == 0 and out.count("Closed under the global context") == 6
    ctx.obligation("regen:Gen_tunable (__get__, __set__, the prefix and the loop body of setup_tunables, the two type tables translated from the "
                   "source == Tunable.Model.tunable_get / gstep PyWrite / key_prefix / setup_loop / scalar_topic / array_topic; "
                   "Tunable/SrcTunableProofs.v)", ok, out[-1500:])
    return ok


if __name__ == "__main__":
    import sys
    a = sys.argv[1:]
    if a and a[0] == "--ref":
        sys.stdout.write(reference(a[1] if len(a) > 1 else "/repo"))
    else:
        sys.stdout.write(coq(a[0] if a else "/repo"))
