"""Shared by C01 C02 C03 C04 C13: generator of machines/scripts/histories, driver of the
real magicbot.StateMachine / AutonomousStateMachine under an injected dyadic clock,
emission of SM.Corr cases, and the property oracles over implementation traces."""
import itertools
import json
import os
import sys

from .common import coq_Z, coq_bool, coq_list, coq_nat, coq_opt, parse_eval_lists, shards

TPS = 64                      # ticks per second (dyadic: all float clock arithmetic is exact)
INF = 0xFFFFFFFF * TPS
PARAMS = ("tm", "state_tm", "initial_call")
PARAM_ORDERS = [p for r in range(4) for p in itertools.permutations(PARAMS, r)]   # 16
_uid = [0]


# ----------------------------------------------------------------------------------
# generation
def gen_case(r, auto=None, profile=None):
    n = r.choice([1, 2, 2, 3, 3, 3, 4, 5])
    ids = list(range(n))
    first = r.randrange(n)
    default = None
    if n >= 2 and r.random() < 0.35:
        default = r.choice([i for i in ids if i != first])
    states = {}
    for i in ids:
        if i == default:
            states[i] = dict(kind="default", must=True, timed=False, dur=None, next=None)
            continue
        timed = r.random() < 0.55
        must = r.random() < 0.3
        dur = r.choice([0, 1, 2, 2, 4, 4, 8, 8, 32, -2]) if timed else None
        nxt = None
        if timed and r.random() < 0.65:
            cand = [j for j in ids if j != default] if r.random() < 0.95 else ids
            nxt = r.choice(cand)
        states[i] = dict(kind="timed" if timed else "state", must=must, timed=timed, dur=dur, next=nxt)
    for i in ids:
        states[i]["params"] = list(r.choice(PARAM_ORDERS))
    if auto is None:
        auto = r.random() < 0.25
    inherit = n >= 2 and r.random() < 0.3
    split = r.randrange(1, n) if inherit else n
    # scripts: actions of the k-th invocation
    K = 70
    nonflt = [j for j in ids if j != default]

    def target():
        return r.choice(ids) if r.random() < 0.04 else r.choice(nonflt)

    def one_action():
        x = r.random()
        if x < 0.55:
            return ["next", target()]
        if x < 0.78:
            return ["done"]
        return ["now", target(), r.choice([0, 0, 1, 2, 5])]      # delta; absolute time filled when run
    busy = r.choice([0.25, 0.4, 0.4, 0.6])
    scripts = []
    for k in range(K):
        x = r.random()
        if x > busy:
            scripts.append([])
        elif x > busy * 0.15:
            scripts.append([one_action()])
        else:
            scripts.append([one_action() for _ in range(r.choice([2, 2, 3]))])
    # history
    hist = []
    t = r.choice([0, 3, 64, 1000])
    steps = [0, 1, 1, 2, 2, 3, 5, 8, 8, 40, 400]
    L = r.randrange(10, 41)
    timed_ids = [i for i in ids if states[i]["timed"]]
    prof = profile or r.choice(["continuous", "continuous", "gapped", "chaotic", "lazy"])
    if auto and r.random() < 0.8:
        on = False
        while len(hist) < L:
            x = r.random()
            if not hist or (not on and x < 0.7):
                hist.append(["aenable"])
                on = True
            elif x < 0.85:
                t += r.choice(steps)
                hist.append(["aiter", t])
            elif x < 0.9:
                hist.append(["adisable"])
                on = False
            elif x < 0.95 and timed_ids:
                hist.append(["setdur", r.choice(timed_ids), r.choice([0, 1, 2, 4, 8, 16])])
            else:
                hist.append(["aenable"])
                on = True
    else:
        while len(hist) < L:
            x = r.random()
            p_eng = {"continuous": 0.97, "gapped": 0.6, "chaotic": 0.5, "lazy": 0.25}[prof]
            if x < 0.06 and timed_ids:
                hist.append(["setdur", r.choice(timed_ids), r.choice([0, 1, 2, 4, 8, 16])])
                continue
            if prof == "chaotic" and x < 0.16:
                hist.append(r.choice([["done"], ["ondisable"]]))
                continue
            if x < 0.09:
                hist.append(r.choice([["done"], ["ondisable"]]))
                continue
            if r.random() < p_eng:
                y = r.random()
                init = r.choice(nonflt) if y < 0.12 else None
                force = 0.12 <= y < 0.2 or (init is not None and r.random() < 0.3)
                hist.append(["engage", init, force])
                if r.random() < 0.05:
                    hist.append(["engage", None, False])
            t += r.choice(steps)
            hist.append(["execute", t])
    return dict(n=n, first=first, default=default, states={str(k): v for k, v in states.items()},
                auto=auto, split=split, scripts=scripts, hist=hist)


# ----------------------------------------------------------------------------------
# implementation driver
class Clock:
    def __init__(self):
        self.t = 0

    def __call__(self):
        return self.t / TPS


def sname(i):
    return "s%d" % i


def build_class(case, sm_mod, log, clock, scripts_abs):
    from magicbot.state_machine import AutonomousStateMachine, StateMachine, default_state, state, timed_state
    n = case["n"]
    base = AutonomousStateMachine if case["auto"] else StateMachine

    def make_fn(i):
        st = case["states"][str(i)]
        ps = st["params"]
        src = "def %s(self%s):\n    self._sm_call(%d, dict(%s))\n" % (
            sname(i), "".join(", " + p for p in ps), i, ", ".join("%s=%s" % (p, p) for p in ps))
        ns = {}
        exec(src, ns)
        f = ns[sname(i)]
        if st["kind"] == "default":
            return default_state(f)
        isfirst = (i == case["first"])
        if st["timed"]:
            nxt = None if st["next"] is None else sname(st["next"])
            return timed_state(duration=st["dur"] / TPS, next_state=nxt, first=isfirst, must_finish=st["must"])(f)
        return state(first=isfirst, must_finish=st["must"])(f)

    def _sm_call(self, i, kw):
        k = self._k
        self._k += 1
        rec = ["call", i, None, None, None, bool(self.is_executing)]
        if "tm" in kw:
            rec[2] = kw["tm"]
        if "state_tm" in kw:
            rec[3] = kw["state_tm"]
        if "initial_call" in kw:
            rec[4] = kw["initial_call"]
        log.append(rec)
        acts = case["scripts"][k] if k < len(case["scripts"]) else []
        out = []
        for a in acts:
            if a[0] == "next":
                out.append(["next", a[1]])
                self.next_state(sname(a[1]))
            elif a[0] == "done":
                out.append(["done"])
                self.done()
            else:
                clock.t += a[2]
                out.append(["now", a[1], clock.t])
                self.next_state_now(sname(a[1]))
        scripts_abs[k] = out

    def next_state(self, name):
        nm = name if isinstance(name, str) else name.name
        log.append(["enter", int(nm[1:])])
        super(cls_holder[0], self).next_state(name)

    def done(self):
        log.append(["done"])
        super(cls_holder[0], self).done()

    cls_holder = [None]
    ns_base = {}
    ns_sub = {}
    for i in range(n):
        (ns_base if i < case["split"] else ns_sub)[sname(i)] = make_fn(i)
    _uid[0] += 1
    if case["split"] < n:
        B = type("GenBase%d" % _uid[0], (base,), ns_base)
        ns_sub.update(dict(_sm_call=_sm_call, next_state=next_state, done=done))
        C = type("Gen%d" % _uid[0], (B,), ns_sub)
    else:
        ns_base.update(dict(_sm_call=_sm_call, next_state=next_state, done=done))
        C = type("Gen%d" % _uid[0], (base,), ns_base)
    cls_holder[0] = C
    return C


_pubs = []


def run_impl(case, tag="x"):
    """Returns (obs, scripts_abs): obs = per op [events, is_executing, current_state id or None]."""
    import ntcore
    import magicbot.state_machine as sm_mod
    from magicbot.magic_tunable import setup_tunables
    clock = Clock()
    sm_mod.getTime = clock
    log = []
    scripts_abs = {}
    C = build_class(case, sm_mod, log, clock, scripts_abs)
    m = C()
    m._k = 0
    import logging
    m.logger = logging.getLogger("verif.sm")
    m.logger.setLevel(logging.CRITICAL + 1)
    _uid[0] += 1
    cname = "sm%s_%d" % (tag, _uid[0])
    setup_tunables(m, cname, "components")
    nt = ntcore.NetworkTableInstance.getDefault()
    obs = []
    for op in case["hist"]:
        del log[:]
        err = None
        try:
            if op[0] == "engage":
                kw = {}
                if op[1] is not None:
                    kw["initial_state"] = sname(op[1])
                if op[2]:
                    kw["force"] = True
                m.engage(**kw)
            elif op[0] == "done":
                m.done()
            elif op[0] == "ondisable":
                m.on_disable()
            elif op[0] == "execute":
                clock.t = op[1]
                m.execute()
            elif op[0] == "setdur":
                key = "/components/%s/state/%s_duration" % (cname, sname(op[1]))
                pub = nt.getDoubleTopic(key).publish()
                pub.set(op[2] / TPS)
                _pubs.append(pub)
                if len(_pubs) > 4000:
                    del _pubs[:2000]
            elif op[0] == "aenable":
                m.on_enable()
            elif op[0] == "aiter":
                clock.t = op[1]
                m.on_iteration(op[1] / TPS)
            elif op[0] == "adisable":
                m.on_disable()
        except Exception as e:      # noqa
            err = type(e).__name__
        evs = []
        for rec in log:
            if rec[0] == "call":
                evs.append(["call", rec[1], _ticks(rec[2]), _ticks(rec[3]), rec[4], rec[5]])
            else:
                evs.append(list(rec))
        if err is not None:
            evs.append(["err", err])
        cs = m.current_state
        cur = None if cs == "" else int(cs[1:])
        obs.append([evs, bool(m.is_executing), cur])
        if err is not None:
            break
    sa = [scripts_abs.get(k, _absent(case["scripts"][k])) for k in range(len(case["scripts"]))]
    return obs, sa


def _absent(acts):
    out = []
    for a in acts:
        out.append(["now", a[1], 0] if a[0] == "now" else list(a))
    return out


def _ticks(x):
    if x is None:
        return None
    v = x * TPS
    iv = int(round(v))
    if iv != v:
        return ("frac", repr(x))
    return iv


# ----------------------------------------------------------------------------------
# emission
def coq_shape(case):
    sts = []
    for i in range(case["n"]):
        st = case["states"][str(i)]
        sts.append("(%s, {| d_must := %s; d_timed := %s; d_next := %s |})" % (
            coq_nat(i), coq_bool(st["must"]), coq_bool(st["timed"]), coq_opt(st["next"], coq_nat)))
    return "{| sh_states := %s; sh_first := %s; sh_default := %s; sh_inf := %s; sh_auto := %s |}" % (
        coq_list(sts), coq_nat(case["first"]), coq_opt(case["default"], coq_nat), coq_Z(INF), coq_bool(case["auto"]))


def coq_action(a):
    if a[0] == "next":
        return "ANext %s" % coq_nat(a[1])
    if a[0] == "done":
        return "ADone"
    return "ANextNow %s %s" % (coq_nat(a[1]), coq_Z(a[2]))


def coq_op(op):
    k = op[0]
    if k == "engage":
        return "Engage %s %s" % (coq_opt(op[1], coq_nat), coq_bool(op[2]))
    if k == "done":
        return "Done"
    if k == "ondisable":
        return "OnDisable"
    if k == "execute":
        return "Execute %s" % coq_Z(op[1])
    if k == "setdur":
        return "SetDuration %s %s" % (coq_nat(op[1]), coq_Z(op[2]))
    if k == "aenable":
        return "AOnEnable"
    if k == "aiter":
        return "AOnIteration %s" % coq_Z(op[1])
    if k == "adisable":
        return "AOnDisable"
    raise ValueError(op)


def coq_oev(e):
    if e[0] == "call":
        def oz(x):
            if isinstance(x, tuple):
                return "(Some (-999999999)%Z)"      # non-dyadic value: can never match
            return coq_opt(x, coq_Z)
        return "OCall %s %s %s %s %s" % (coq_nat(e[1]), oz(e[2]), oz(e[3]), coq_opt(e[4], coq_bool), coq_bool(e[5]))
    if e[0] == "enter":
        return "OEnter %s" % coq_nat(e[1])
    if e[0] == "done":
        return "ODone"
    return "OErr"


def coq_case(case, obs, scripts_abs):
    durs = ["(%s, %s)" % (coq_nat(i), coq_Z(case["states"][str(i)]["dur"])) for i in range(case["n"])
            if case["states"][str(i)]["timed"]]
    # trim trailing empty scripts
    sa = list(scripts_abs)
    while sa and not sa[-1]:
        sa.pop()
    return ("{| c_shape := %s;\n   c_durs := %s;\n   c_scripts := %s;\n   c_hist := %s;\n   c_obs := %s |}" % (
        coq_shape(case), coq_list(durs),
        coq_list([coq_list([coq_action(a) for a in acts]) for acts in sa]),
        coq_list([coq_op(o) for o in case["hist"][:len(obs)]]),
        coq_list(["(%s, %s, %s)" % (coq_list([coq_oev(e) for e in evs]), coq_bool(ex), coq_opt(cur, coq_nat))
                  for evs, ex, cur in obs])))


HEADER = ("From Coq Require Import ZArith List Bool.\nFrom RV Require Import SM.Model SM.Corr.\n"
          "Import ListNotations.\nOpen Scope Z_scope.\n")


def correspondence(ctx, cases_with_obs, label="sm", shard=200):
    """cases_with_obs: list of (case, obs, scripts_abs). Returns list of bad indices (global)."""
    items = []
    for k, sh in enumerate(shards(cases_with_obs, shard)):
        body = ";\n".join(coq_case(c, o, s) for c, o, s in sh)
        txt = HEADER + "Definition cases : list case := [\n%s\n].\nEval vm_compute in (bad_indices cases).\n" % body
        items.append(("cases_%s_%d" % (label, k), txt))
    res = ctx.coq_files_parallel(items)
    bad = []
    for k, (name, _) in enumerate(items):
        rc, out = res[name]
        lists = parse_eval_lists(out) if rc == 0 else []
        ok = rc == 0 and len(lists) == 1 and lists[0] == []
        ctx.obligation("corr:%s (SM model trace == implementation trace, %d cases)" % (name, min(shard, len(cases_with_obs) - k * shard)),
                       ok, out[-1500:])
        if rc == 0 and len(lists) == 1:
            bad += [k * shard + i for i in lists[0]]
        elif rc != 0:
            bad += list(range(k * shard, min((k + 1) * shard, len(cases_with_obs))))
    return bad


# ----------------------------------------------------------------------------------
# property oracles over IMPLEMENTATION traces (used only by the search)
def flat_calls(evs):
    return [e for e in evs if e[0] == "call"]


def oracle(case, obs, scripts_abs, which):
    """Returns a list of violation strings of property `which` on this implementation trace,
    restricted to histories inside the usage contract K (see DESIGN 6.1)."""
    out = []
    default = case["default"]
    st = case["states"]

    def must(i):
        return st[str(i)]["must"]

    def regular(i):
        return i != default and not must(i)
    # reference bookkeeping
    requested = False          # engage() since the previous execute
    running = False            # regular machine activity (engaged)
    idle = True                # stopped: nothing but the default may run until engage()
    entered = {}               # state -> True when entered and not yet called
    off_contract = False
    prev_exec = False
    lastcall = {}              # state -> (tm, stm) of the previous consecutive call of the same entry
    auto_latch = False
    for opi, (op, (evs, is_exec, cur)) in enumerate(zip(case["hist"], obs)):
        kind = op[0]
        if any(e[0] == "err" for e in evs):
            out.append("op %d %r raised %s" % (opi, op, [e for e in evs if e[0] == "err"]))
            break
        is_iter = kind in ("execute", "aiter")
        if kind == "aenable":
            auto_latch = True
        if kind == "engage":
            requested = True
        if kind == "aiter" and auto_latch:
            requested = True
        calls = flat_calls(evs)
        ndone = sum(1 for e in evs if e[0] == "done")
        # --- detect off-contract use: actions while not executing, transitions into the default state
        k_eng = prev_exec
        for e in evs:
            if e[0] == "enter" and default is not None and e[1] == default:
                off_contract = True
        if off_contract:
            break
        # entries
        for e in evs:
            if e[0] == "enter":
                entered[e[1]] = True
                lastcall.pop(e[1], None)
        if is_iter:
            # C01: regular states only when requested
            if not requested:
                for c in calls:
                    if regular(c[1]):
                        out.append("C01: op %d %r: regular state s%d called without engage() since the previous iteration" % (opi, op, c[1]))
            # C03 / C02: non-negative times, initial_call
            for c in calls:
                s, tm, stm, init, eng = c[1], c[2], c[3], c[4], c[5]
                if stm is not None and not isinstance(stm, tuple) and stm < 0:
                    out.append("C02/C03: op %d: state_tm of s%d is negative (%s ticks)" % (opi, s, stm))
                if tm is not None and not isinstance(tm, tuple) and tm < 0 and (eng or s != default):
                    out.append("C03: op %d: tm of s%d is negative (%s ticks)" % (opi, s, tm))
                if init is not None and s != default:
                    exp_init = bool(entered.get(s, False))
                    if init != exp_init:
                        out.append("C03: op %d: initial_call of s%d is %s but %s" % (
                            opi, s, init, "the state was entered since its last call" if exp_init else "it is a consecutive call"))
                entered[s] = False
            # C04: status after the iteration
            nondefault_calls = [c for c in calls if c[1] != default]
            if not is_exec:
                if cur is not None:
                    out.append("C04: op %d: is_executing is False but current_state is s%d" % (opi, cur))
            if prev_exec and not is_exec and ndone == 0:
                out.append("C04: op %d %r: machine stopped without done() being invoked" % (opi, op))
            requested = False
        else:
            if kind in ("done", "ondisable", "adisable"):
                if is_exec or cur is not None:
                    out.append("C04: op %d %r: after done()/on_disable() is_executing=%s current_state=%r" % (opi, op, is_exec, cur))
                if kind == "adisable":
                    auto_latch = False
        if kind == "aiter":
            if not is_exec:
                auto_latch = False
        prev_exec = is_exec
    return [v for v in out if which is None or v.startswith(tuple(which)) or v.startswith("op ")]
