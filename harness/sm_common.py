"""Shared by C01 C02 C03 C04 C13: generator of machines/scripts/histories, driver of the
real magicbot.StateMachine / AutonomousStateMachine under an injected dyadic clock,
emission of SM.Corr cases, and the property oracles over implementation traces."""
import itertools
import json
import os
import sys

from . import common
from .common import coq_Z, coq_bool, coq_list, coq_nat, coq_opt, parse_eval_lists, shards

TPS = 64                      # ticks per second (dyadic: all float clock arithmetic is exact)
INF = 0xFFFFFFFF * TPS
PARAMS = ("tm", "state_tm", "initial_call")
PARAM_ORDERS = [p for r in range(4) for p in itertools.permutations(PARAMS, r)]   # 16
_uid = [0]


# ----------------------------------------------------------------------------------
# generation
def gen_case(r, auto=None, profile=None):
    n = r.choice([1, 2, 2, 3, 3, 3, 4, 5])
    ids = list(range(n))
    first = r.randrange(n)
    default = None
    if n >= 2 and r.random() < 0.35:
        default = r.choice([i for i in ids if i != first])
    states = {}
    for i in ids:
        if i == default:
            states[i] = dict(kind="default", must=True, timed=False, dur=None, next=None)
            continue
        timed = r.random() < 0.55
        must = r.random() < 0.3
        dur = r.choice([0, 1, 2, 2, 4, 4, 8, 8, 32, -2]) if timed else None
        nxt = None
        if timed and r.random() < 0.65:
            cand = [j for j in ids if j != default] if r.random() < 0.95 else ids
            nxt = r.choice(cand)
        states[i] = dict(kind="timed" if timed else "state", must=must, timed=timed, dur=dur, next=nxt)
    for i in ids:
        states[i]["params"] = list(r.choice(PARAM_ORDERS))
    if auto is None:
        auto = r.random() < 0.25
    inherit = n >= 2 and r.random() < 0.3
    split = r.randrange(1, n) if inherit else n
    # scripts: actions of the k-th invocation
    K = 70
    nonflt = [j for j in ids if j != default]

    def target():
        return r.choice(ids) if r.random() < 0.04 else r.choice(nonflt)

    def one_action():
        x = r.random()
        if x < 0.55:
            return ["next", target()]
        if x < 0.78:
            return ["done"]
        return ["now", target(), r.choice([0, 0, 1, 2, 5])]      # delta; absolute time filled when run
    busy = r.choice([0.25, 0.4, 0.4, 0.6])
    scripts = []
    for k in range(K):
        x = r.random()
        if x > busy:
            scripts.append([])
        elif x > busy * 0.15:
            scripts.append([one_action()])
        else:
            scripts.append([one_action() for _ in range(r.choice([2, 2, 3]))])
    # history
    hist = []
    t = r.choice([0, 3, 64, 1000])
    steps = [0, 1, 1, 2, 2, 3, 5, 8, 8, 40, 400]
    L = r.randrange(10, 41)
    timed_ids = [i for i in ids if states[i]["timed"]]
    prof = profile or r.choice(["continuous", "continuous", "gapped", "chaotic", "lazy"])
    if auto and r.random() < 0.8:
        on = False
        while len(hist) < L:
            x = r.random()
            if not hist or (not on and x < 0.7):
                hist.append(["aenable"])
                on = True
            elif x < 0.85:
                t += r.choice(steps)
                hist.append(["aiter", t])
            elif x < 0.9:
                hist.append(["adisable"])
                on = False
            elif x < 0.95 and timed_ids:
                hist.append(["setdur", r.choice(timed_ids), r.choice([0, 1, 2, 4, 8, 16, -2])])
            else:
                hist.append(["aenable"])
                on = True
    else:
        while len(hist) < L:
            x = r.random()
            p_eng = {"continuous": 0.97, "gapped": 0.6, "chaotic": 0.5, "lazy": 0.25}[prof]
            if x < 0.06 and timed_ids:
                hist.append(["setdur", r.choice(timed_ids), r.choice([0, 1, 2, 4, 8, 16, -2])])
                continue
            if prof == "chaotic" and x < 0.16:
                hist.append(r.choice([["done"], ["ondisable"]]))
                continue
            if x < 0.09:
                hist.append(r.choice([["done"], ["ondisable"]]))
                continue
            if r.random() < p_eng:
                y = r.random()
                init = r.choice(nonflt) if y < 0.12 else None
                force = 0.12 <= y < 0.2 or (init is not None and r.random() < 0.3)
                hist.append(["engage", init, force])
                z = r.random()
                if z < 0.05:
                    hist.append(["engage", None, False])
                elif z < 0.13:
                    # the machine is stopped (or a duration edited) after engage() but before the iteration
                    hist.append(r.choice([["done"], ["ondisable"]]))
                    if r.random() < 0.3:
                        hist.append(["engage", None, False])
                elif z < 0.16 and timed_ids:
                    hist.append(["setdur", r.choice(timed_ids), r.choice([0, 1, 2, 4, 8, 16, -2])])
            t += r.choice(steps)
            hist.append(["execute", t])
    return dict(n=n, first=first, default=default, states={str(k): v for k, v in states.items()},
                auto=auto, split=split, scripts=scripts, hist=hist)


# ----------------------------------------------------------------------------------
# implementation driver
class Clock:
    def __init__(self):
        self.t = 0

    def __call__(self):
        return self.t / TPS


def sname(i):
    return "s%d" % i


def build_class(case, sm_mod, log, clock, scripts_abs):
    from magicbot.state_machine import AutonomousStateMachine, StateMachine, default_state, state, timed_state
    n = case["n"]
    base = AutonomousStateMachine if case["auto"] else StateMachine

    def make_fn(i, decoy=None):
        st = case["states"][str(i)]
        if decoy is not None:
            st = dict(st, **decoy)
            st["kind"] = "timed" if st["timed"] else "state"
        ps = st["params"]
        sig = ["self"] + list(ps)
        slash = st.get("slash")
        if slash is not None and 1 <= slash <= len(sig):
            sig.insert(slash, "/")          # positional-only parameters: def s(self, tm, /, state_tm)
        src = "def %s(%s):\n    return self._sm_call(%d, dict(%s))\n" % (
            sname(i), ", ".join(sig), i, ", ".join("%s=%s" % (p, p) for p in ps))
        ns = {}
        exec(src, ns)
        f = ns[sname(i)]
        if st["kind"] == "default":
            return default_state(f)
        isfirst = (i == case["first"])
        if st["timed"]:
            nxt = None if st["next"] is None else sname(st["next"])
            return timed_state(duration=st["dur"] / TPS, next_state=nxt, first=isfirst, must_finish=st["must"])(f)
        return state(first=isfirst, must_finish=st["must"])(f)

    def _sm_call(self, i, kw):
        k = self._k
        self._k += 1
        rec = ["call", i, None, None, None, bool(self.is_executing), k, clock.t]
        if "tm" in kw:
            rec[2] = kw["tm"]
        if "state_tm" in kw:
            rec[3] = kw["state_tm"]
        if "initial_call" in kw:
            rec[4] = kw["initial_call"]
        if len(self._log) > 20000:
            # a single call of the library that runs state functions without end (histories have a few dozen operations)
            raise common.Hang("more than 20000 state-function calls in one operation")
        self._log.append(rec)
        acts = case["scripts"][k] if (k < len(case["scripts"]) and not self._quiet) else []
        out = []
        self._depth += 1
        for a in acts:
            if a[0] == "next":
                out.append(["next", a[1]])
                self.next_state(getattr(type(self), sname(a[1])) if case.get("objrefs") else sname(a[1]))
            elif a[0] == "done":
                out.append(["done"])
                self.done()
            else:
                clock.t += a[2]
                out.append(["now", a[1], clock.t])
                self._log.append(["now"])
                self.next_state_now(getattr(type(self), sname(a[1])) if case.get("objrefs") else sname(a[1]))
        self._depth -= 1
        if not self._quiet:
            scripts_abs[k] = out
        # what a state function returns is nobody's business: some return the name of a state, or a state object
        if (k + i) % 4 == 0:
            return sname(k % n) if k % 8 < 4 else getattr(type(self), sname(k % n))

    def next_state(self, name):
        nm = name if isinstance(name, str) else name.name
        self._log.append(["enter", int(nm[1:]), bool(self.is_executing), self._depth])
        super(cls_holder[0], self).next_state(name)

    def done(self):
        self._log.append(["done", bool(self.is_executing), self._depth])
        super(cls_holder[0], self).done()

    cls_holder = [None]
    ns_base = {}
    ns_sub = {}
    decoys = case.get("decoys") or {}
    for i in range(n):
        if str(i) in decoys:
            ns_base[sname(i)] = make_fn(i, decoys[str(i)])      # the base class's declaration: overridden below
            ns_sub[sname(i)] = make_fn(i)
        else:
            (ns_base if i < case["split"] else ns_sub)[sname(i)] = make_fn(i)
    _uid[0] += 1
    if ns_sub and case.get("diamond"):
        Root = type("GenRoot%d" % _uid[0], (base,), ns_base)
        B = type("GenBase%d" % _uid[0], (Root,), ns_sub)
        Other = type("GenOther%d" % _uid[0], (Root,), {})
        C = type("Gen%d" % _uid[0], (B, Other), dict(_sm_call=_sm_call, next_state=next_state, done=done))
    elif ns_sub:
        B = type("GenBase%d" % _uid[0], (base,), ns_base)
        ns_sub.update(dict(_sm_call=_sm_call, next_state=next_state, done=done))
        C = type("Gen%d" % _uid[0], (B,), ns_sub)
    else:
        ns_base.update(dict(_sm_call=_sm_call, next_state=next_state, done=done))
        C = type("Gen%d" % _uid[0], (base,), ns_base)
    cls_holder[0] = C
    return C


_pubs = []
_rivals = []


def n_states(case):
    return len(case["states"])


def rival_class(case, sm_mod):
    ns = {}
    for k_, st in case["states"].items():
        i = int(k_)

        def f(self):
            pass
        f.__name__ = sname(i)
        if st["kind"] == "default":
            ns[sname(i)] = sm_mod.default_state(f)
        else:
            ns[sname(i)] = sm_mod.state(f, first=(i == case["first"]), must_finish=not st["must"])
    _uid[0] += 1
    return type("Rival%d" % _uid[0], (sm_mod.StateMachine,), ns)


def run_impl(case, tag="x"):
    """Returns (obs, scripts_abs): obs = per op [events, is_executing, current_state id or None]."""
    import ntcore
    import magicbot.state_machine as sm_mod
    from magicbot.magic_tunable import setup_tunables
    clock = Clock()
    sm_mod.getTime = clock
    log = []
    scripts_abs = {}
    C = build_class(case, sm_mod, log, clock, scripts_abs)
    import logging
    lg = logging.getLogger("verif.sm")
    lg.setLevel(logging.CRITICAL + 1)
    nt = ntcore.NetworkTableInstance.getDefault()

    def fresh(cls, quiet, lg_list, name):
        o = cls()
        o._k = 0
        o._depth = 0
        o._quiet = quiet
        o._log = lg_list
        o.logger = lg
        setup_tunables(o, name, "components")
        return o
    _uid[0] += 1
    cname = "sm%s_%d" % (tag, _uid[0])
    for k, v in sorted((case.get("predur") or {}).items()):
        # a value that is on the topic before the component is bound (dashboard, earlier run)
        pub = nt.getDoubleTopic("/components/%s/state/%s_duration" % (cname, sname(int(k)))).publish()
        pub.set(v / TPS)
        _pubs.append(pub)
    # the base class of a split machine is a StateMachine class of its own: when it can be instantiated (it has a first
    # state), somebody may well have done so before the subclass is used (a robot with `feeder: Feeder` and
    # `gentle: GentleFeeder(Feeder)`) -- nothing of the base instance may reach the machine under test
    B = C.__mro__[1]
    if B.__name__.startswith("GenBase") and (case.get("split", 0) + len(case["hist"])) % 2 == 0:
        try:
            B()
        except Exception:      # noqa: a base without a first state is not instantiable, that is fine
            pass
    twin = case.get("twin")
    m2 = None
    if twin:
        T = type("Twin%d" % _uid[0], (C,), {}) if twin.get("subclass") else C
        m2 = fresh(T, True, [], cname + "_twin")
    m = fresh(C, False, log, cname)
    if (len(case["hist"]) + n_states(case)) % 3 == 0:
        # another, unrelated machine class of the same robot happens to use the same state names with other declarations
        # (Intake.hold is a plain state, Climber.hold is must_finish); it is built after the machine under test
        try:
            _rivals.append(rival_class(case, sm_mod)())
            del _rivals[:-8]
        except Exception:      # noqa
            pass
    if twin and not twin.get("subclass") and len(twin["ops"]) % 2:
        m2 = fresh(C, True, [], cname + "_twin2")      # ... or created after the machine under test
    auto_t0 = [0]
    obs = []
    for opi_, op in enumerate(case["hist"]):
        if m2 is not None and opi_ < len(twin["ops"]):
            keep = clock.t
            for top in twin["ops"][opi_]:
                try:
                    with common.time_limit(5):
                        if top[0] == "engage":
                            m2.engage()
                        elif top[0] == "done":
                            m2.done()
                        else:
                            clock.t = top[1]
                            m2.on_iteration(top[1] / TPS) if case["auto"] else m2.execute()
                except Exception:       # noqa
                    pass
                del m2._log[:]
            clock.t = keep
        del log[:]
        err = None
        try:
          with common.time_limit(5):
              if op[0] == "engage":
                  kw = {}
                  if op[1] is not None:
                      # a state may be named or given as the state object itself
                      kw["initial_state"] = getattr(type(m), sname(op[1])) if case.get("objrefs") else sname(op[1])
                  if op[2]:
                      kw["force"] = True
                  m.engage(**kw)
              elif op[0] == "done":
                  m.done()
              elif op[0] == "ondisable":
                  m.on_disable()
              elif op[0] == "setk":
                  m._k = op[1]
              elif op[0] == "execute":
                  clock.t = op[1]
                  m.execute()
              elif op[0] == "setdur":
                  key = "/components/%s/state/%s_duration" % (cname, sname(op[1]))
                  pub = nt.getDoubleTopic(key).publish()
                  pub.set(op[2] / TPS)
                  _pubs.append(pub)
                  if len(_pubs) > 4000:
                      del _pubs[:2000]
              elif op[0] == "aenable":
                  auto_t0[0] = clock.t
                  m.on_enable()
              elif op[0] == "aiter":
                  clock.t = op[1]
                  # the selector passes the time of ITS timer, started when the autonomous period began: another origin than
                  # the clock the machine reads (the machine's timing is its own clock's business)
                  m.on_iteration((op[1] - auto_t0[0]) / TPS)
              elif op[0] == "adisable":
                  m.on_disable()
        except Exception as e:      # noqa
            err = type(e).__name__
        evs = []
        for rec in log:
            if rec[0] == "call":
                evs.append(["call", rec[1], _ticks(rec[2]), _ticks(rec[3]), rec[4], rec[5], rec[6], rec[7]])
            else:
                evs.append(list(rec))
        if err is not None:
            evs.append(["err", err])
        cs = m.current_state
        cur = None if cs == "" else int(cs[1:])
        obs.append([evs, bool(m.is_executing), cur])
        if err is not None:
            break
    sa = [scripts_abs.get(k, _absent(case["scripts"][k])) for k in range(len(case["scripts"]))]
    return obs, sa


def _absent(acts):
    out = []
    for a in acts:
        out.append(["now", a[1], 0] if a[0] == "now" else list(a))
    return out


def _ticks(x):
    if x is None:
        return None
    v = x * TPS
    iv = int(round(v))
    if iv != v:
        return ("frac", repr(x))
    return iv


# ----------------------------------------------------------------------------------
# emission
def coq_shape(case):
    sts = []
    for i in range(case["n"]):
        st = case["states"][str(i)]
        sts.append("(%s, {| d_must := %s; d_timed := %s; d_next := %s |})" % (
            coq_nat(i), coq_bool(st["must"]), coq_bool(st["timed"]), coq_opt(st["next"], coq_nat)))
    return "{| sh_states := %s; sh_first := %s; sh_default := %s; sh_inf := %s; sh_auto := %s |}" % (
        coq_list(sts), coq_nat(case["first"]), coq_opt(case["default"], coq_nat), coq_Z(INF), coq_bool(case["auto"]))


def coq_action(a):
    if a[0] == "next":
        return "ANext %s" % coq_nat(a[1])
    if a[0] == "done":
        return "ADone"
    return "ANextNow %s %s" % (coq_nat(a[1]), coq_Z(a[2]))


def coq_op(op):
    k = op[0]
    if k == "engage":
        return "Engage %s %s" % (coq_opt(op[1], coq_nat), coq_bool(op[2]))
    if k == "done":
        return "Done"
    if k == "ondisable":
        return "OnDisable"
    if k == "execute":
        return "Execute %s" % coq_Z(op[1])
    if k == "setdur":
        return "SetDuration %s %s" % (coq_nat(op[1]), coq_Z(op[2]))
    if k == "aenable":
        return "AOnEnable"
    if k == "aiter":
        return "AOnIteration %s" % coq_Z(op[1])
    if k == "adisable":
        return "AOnDisable"
    raise ValueError(op)


def coq_oev(e):
    if e[0] == "call":
        def oz(x):
            if isinstance(x, tuple):
                return "(Some (-999999999)%Z)"      # non-dyadic value: can never match
            return coq_opt(x, coq_Z)
        return "OCall %s %s %s %s %s" % (coq_nat(e[1]), oz(e[2]), oz(e[3]), coq_opt(e[4], coq_bool), coq_bool(e[5]))
    if e[0] == "enter":
        return "OEnter %s" % coq_nat(e[1])
    if e[0] == "done":
        return "ODone"
    return "OErr"


def coq_case(case, obs, scripts_abs):
    pre = case.get("predur") or {}
    durs = ["(%s, %s)" % (coq_nat(i), coq_Z(pre.get(str(i), case["states"][str(i)]["dur"]))) for i in range(case["n"])
            if case["states"][str(i)]["timed"]]
    # trim trailing empty scripts
    sa = list(scripts_abs)
    while sa and not sa[-1]:
        sa.pop()
    return ("{| c_shape := %s;\n   c_durs := %s;\n   c_scripts := %s;\n   c_hist := %s;\n   c_obs := %s |}" % (
        coq_shape(case), coq_list(durs),
        coq_list([coq_list([coq_action(a) for a in acts]) for acts in sa]),
        coq_list([coq_op(o) for o in case["hist"][:len(obs)]]),
        coq_list(["(%s, %s, %s)" % (coq_list([coq_oev(e) for e in evs if e[0] != "now"]), coq_bool(ex), coq_opt(cur, coq_nat))
                  for evs, ex, cur in obs])))


HEADER = ("From Coq Require Import ZArith List Bool.\nFrom RV Require Import SM.Model SM.Corr.\n"
          "Import ListNotations.\nOpen Scope Z_scope.\n")


def correspondence(ctx, cases_with_obs, label="sm", shard=200):
    """cases_with_obs: list of (case, obs, scripts_abs). Returns list of bad indices (global)."""
    items = []
    for k, sh in enumerate(shards(cases_with_obs, shard)):
        body = ";\n".join(coq_case(c, o, s) for c, o, s in sh)
        txt = HEADER + "Definition cases : list case := [\n%s\n].\nEval vm_compute in (bad_indices cases).\n" % body
        items.append(("cases_%s_%d" % (label, k), txt))
    res = ctx.coq_files_parallel(items)
    bad = []
    for k, (name, _) in enumerate(items):
        rc, out = res[name]
        lists = parse_eval_lists(out) if rc == 0 else []
        ok = rc == 0 and len(lists) == 1 and lists[0] == []
        ctx.obligation("corr:%s (SM model trace == implementation trace, %d cases)" % (name, min(shard, len(cases_with_obs) - k * shard)),
                       ok, out[-1500:])
        if rc == 0 and len(lists) == 1:
            bad += [k * shard + i for i in lists[0]]
        elif rc != 0:
            bad += list(range(k * shard, min((k + 1) * shard, len(cases_with_obs))))
    return bad


# ----------------------------------------------------------------------------------
# property oracles over IMPLEMENTATION traces (used only by the search and the replay;
# they state the properties directly, they are not the deciding method)
def oracle(case, obs):
    """Returns a list of (property id, message) for clauses of C01-C04/C13 that fail on this
    implementation trace, evaluated only while the history stays inside the usage contract K."""
    out = []
    default = case["default"]
    first = case["first"]
    st = case["states"]
    auto = case["auto"]

    def must(i):
        return st[str(i)]["must"]

    def regular(i):
        return i != default and not must(i)

    requested = False        # engage() since the previous iteration
    cancelled_req = False    # a request was withdrawn by done()/on_disable() and engage() has not been called since
    prev_exec = False        # is_executing after the previous operation
    pending = {}             # state -> entered and not yet called
    last = {}                # state -> (tm, stm, eng) of the previous call of the same entry
    has_state = False        # the machine has a (non-default) state to run
    fresh = None             # state that must be called next with initial_call, tm == 0 (after engage on a stopped machine)
    latch = False            # AutonomousStateMachine latch (lifecycle ops only)
    lifecycle = auto and case["hist"] and case["hist"][0][0] == "aenable"
    stopped_since = True     # stopped and not re-engaged
    entered_last = None      # the state most recently entered by next_state() and not yet called
    offc = False             # the history has left the usage contract K
    default_linked = case["default"] is not None and any(v_["next"] == case["default"] for v_ in case["states"].values())
    mstopped = True          # done() ran and no regular / must_finish state has run since (the oracle's own view)
    dflt_fresh = True        # the default state, when it runs next, is newly entered (something else was entered / done() ran since)
    maxclk = -1
    run_tm = None            # tm of the previous state-function call of the current run (None after done())
    nonneg_durs = (all((v["dur"] or 0) >= 0 for v in st.values()) and all(op[2] >= 0 for op in case["hist"] if op[0] == "setdur")
                   and all(v >= 0 for v in (case.get("predur") or {}).values()))
    for opi, (op, (evs, is_exec, cur)) in enumerate(zip(case["hist"], obs)):
        kind = op[0]
        errs = [e for e in evs if e[0] == "err"]
        if errs and kind == "aiter" and not any(o_[0] == "aenable" for o_ in case["hist"][:opi]):
            # AutonomousStateMachine.on_iteration() before the first on_enable(): the latch attribute does not exist yet and the
            # unchanged library raises AttributeError (the selector always calls on_enable() first; outside every property)
            break
        if errs:
            out.append(("C01", "op %d %r: exception %s escaped" % (opi, op, errs[0][1])))
            # no generated history asks for anything illegal (every name is a state, every argument well-formed): an operation
            # that raises did not do what any of the clauses says it does
            out.append(("C02", "op %d %r: exception %s escaped instead of the iteration running the state the timing rules select" % (opi, op, errs[0][1])))
            out.append(("C04", "op %d %r: exception %s escaped: the operation did not complete (a stop must leave is_executing False "
                        "and current_state empty, an iteration must leave current_state naming the next state)" % (opi, op, errs[0][1])))
            if kind in ("aenable", "aiter", "adisable"):
                out.append(("C13", "op %d %r: exception %s escaped from the autonomous lifecycle call" % (opi, op, errs[0][1])))
            if errs[0][1] == "TypeError":
                out.append(("C03", "op %d %r: TypeError escaped: a state function could not be called with the parameters it declares" % (opi, op)))
            break
        # ---- usage contract: stop judging once the history leaves it
        off = False
        if kind in ("execute", "aiter"):
            if op[1] < maxclk:
                off = True       # the (injected) clock went backwards
            maxclk = max(maxclk, op[1])
        for e in evs:
            if e[0] == "call":
                if e[7] < maxclk:
                    off = True
                maxclk = max(maxclk, e[7])
            if e[0] == "enter" and default is not None and e[1] == default and (e[-1] > 0 or kind == "engage" or default_linked):
                # an explicit transition into the default state: by a state function, by engage(initial_state=..), or -- in a
                # machine where some timed state NAMES the default state as its next_state -- by that link (the default state then
                # runs as the current state of an executing machine, which the properties do not talk about).  A transition the
                # library makes on its own in a machine without such a link is judged like everything else.
                off = True
            if e[0] in ("enter", "done") and e[-1] > 0 and not e[-2]:
                off = True       # in-state action while the machine is not executing
        if off:
            offc = True      # from here on only the clauses that need no usage contract are judged
        is_iter = kind == "execute" or (kind == "aiter" and latch)
        if kind == "aenable":
            latch = True
        if kind == "engage" and not has_state and not errs and not any(e[0] == "enter" for e in evs):
            msg = ("op %d %r: engage() on a machine that has no current state did not select a state (no next_state()): the request is "
                   "lost and no state function can run in the coming iteration" % (opi, op))
            out.append(("C01", msg))
            out.append(("C04", msg))
        if kind == "engage" or (kind == "aiter" and latch):
            if (not prev_exec or mstopped) and not requested:
                fresh = ("any", op[1] if kind == "engage" and op[1] is not None else first)
            requested = True
            cancelled_req = False
            stopped_since = False
        calls = [e for e in evs if e[0] == "call"]
        ndone = sum(1 for e in evs if e[0] == "done")
        nnow = sum(1 for e in evs if e[0] == "now")
        had_state = has_state
        if kind == "aiter" and not latch:
            if evs:
                out.append(("C13", "op %d %r: latch is off but on_iteration produced %r" % (opi, op, evs[:3])))
            if is_exec:
                out.append(("C13", "op %d %r: is_executing is True after on_iteration with the latch off" % (opi, op)))
        # walk the events in order
        seen_done = False
        ent0 = entered_last if is_iter else None
        first_ev = True
        for e in evs:
            if e[0] in ("enter", "call", "done"):
                if (first_ev and e[0] == "enter" and e[3] == 0 and ent0 is not None and not offc
                        and (requested or must(ent0))):
                    out.append(("C02", "op %d %r: s%d had been entered and never ran, yet the iteration moved on to s%d "
                                       "(a state that has just been entered is always run once before it can expire)" % (opi, op, ent0, e[1])))
                first_ev = False
            if e[0] == "enter":
                pending[e[1]] = True
                last.pop(e[1], None)
                has_state = True
                entered_last = e[1]
                dflt_fresh = True
            elif e[0] == "done":
                run_tm = None
                has_state = False
                seen_done = True
                entered_last = None
                mstopped = True
                dflt_fresh = True
            elif e[0] == "call":
                s, tm, stm, init, eng = e[1], e[2], e[3], e[4], e[5]
                if (not offc and entered_last is not None and s != default and s != entered_last
                        and (requested or must(entered_last)) and is_iter):
                    out.append(("C02", "op %d %r: s%d was entered and never ran: s%d ran instead (a state that has just been "
                                       "entered is always run once before it can expire)" % (opi, op, entered_last, s)))
                if s == default:
                    if init is not None and isinstance(init, bool) and init != dflt_fresh:
                        out.append(("C03", "op %d %r: initial_call of the default state s%d is %r, but %s" % (
                            opi, op, s, init, "another state was selected or done() ran since its last call: it is entered anew by the "
                            "fall-back" if dflt_fresh else "nothing else was selected and done() did not run since its last call")))
                    dflt_fresh = False
                if s != default:
                    entered_last = None
                    mstopped = False
                if not offc and lifecycle and seen_done and s != default:
                    out.append(("C13", "op %d %r: s%d ran after done() in the same on_iteration (the machine cycled)" % (opi, op, s)))
                if is_iter and not requested and regular(s) and not (cancelled_req and offc):
                    # (cancelled_req and offc: a request withdrawn by done() and, later, an in-state action on the stopped machine
                    # -- outside the usage contract --: the library still honours the stale request there)
                    out.append(("C01", "op %d %r: regular state s%d ran without engage() since the previous iteration" % (opi, op, s)))
                    out.append(("C04", "op %d %r: engage() stopped being called outside a must_finish state, yet regular state s%d ran "
                                       "instead of the machine stopping through done()" % (opi, op, s)))
                if not offc and stopped_since and s != default:
                    out.append(("C04", "op %d %r: s%d ran although the machine was stopped and engage() was not called" % (opi, op, s)))
                if not offc and stm is not None and not isinstance(stm, tuple) and stm < 0:
                    out.append(("C02", "op %d %r: state_tm of s%d is negative (%d ticks)" % (opi, op, s, stm)))
                if not offc and tm is not None and not isinstance(tm, tuple) and tm < 0 and eng:
                    out.append(("C03", "op %d %r: tm of s%d is negative (%d ticks)" % (opi, op, s, tm)))
                if not offc and nonneg_durs and eng and isinstance(tm, int) and isinstance(stm, int) and stm > tm:
                    out.append(("C03", "op %d %r: s%d got state_tm (%d) > tm (%d): parameters mixed up" % (opi, op, s, stm, tm)))
                if not offc and eng and isinstance(tm, int):
                    # tm is the time since the machine last started: within one run (no done() in between) it cannot go backwards
                    if run_tm is not None and tm < run_tm:
                        out.append(("C03", "op %d %r: tm of s%d went backwards within one run of the machine (%d -> %d ticks, no done() "
                                           "in between): tm is the time since the machine last started" % (opi, op, s, run_tm, tm)))
                    run_tm = tm
                if init is not None and not isinstance(init, bool):
                    out.append(("C03", "op %d %r: initial_call of s%d is not a bool: %r" % (opi, op, s, init)))
                if init is not None and s != default:
                    exp = bool(pending.get(s, False))
                    if bool(init) != exp:
                        out.append(("C03", "op %d %r: initial_call of s%d is %r but %s" % (
                            opi, op, s, init, "the state was entered since its last call" if exp else "this is a consecutive call")))
                if not offc and s in last and not pending.get(s, False) and init is not True and s != default:
                    ptm, pstm, peng = last[s]
                    if isinstance(stm, int) and isinstance(pstm, int) and stm < pstm:
                        out.append(("C03", "op %d %r: state_tm of s%d decreased over consecutive calls (%d -> %d)" % (opi, op, s, pstm, stm)))
                if not offc and fresh is not None and s != default:
                    if s != fresh[1]:
                        out.append(("C04", "op %d %r: after engage() on a stopped machine s%d ran first, expected s%d" % (opi, op, s, fresh[1])))
                    else:
                        if init is False:
                            out.append(("C04", "op %d %r: restart of s%d with initial_call False" % (opi, op, s)))
                        if isinstance(tm, int) and tm != 0:
                            out.append(("C04", "op %d %r: restart of s%d with tm = %d ticks, expected 0" % (opi, op, s, tm)))
                            out.append(("C03", "op %d %r: first iteration after engage() on a stopped machine: s%d got tm = %d ticks, "
                                               "but tm is the time since the machine last started, 0 here" % (opi, op, s, tm)))
                    fresh = None
                pending[s] = False
                last[s] = (tm, stm, eng)
        if is_iter:
            user_done = any(a[0] == "done" for c in calls if c[6] < len(case["scripts"]) for a in case["scripts"][c[6]])
            if not offc and requested and had_state and not auto and not user_done:
                if len(calls) != 1 + nnow:
                    out.append(("C01", "op %d %r: requested iteration ran %d state functions with %d next_state_now()" % (opi, op, len(calls), nnow)))
                    if ndone > 0:
                        out.append(("C04", "op %d %r: done() was invoked during an iteration for which engage() had been called, no state "
                                           "function called done(), and a state function that should have run did not (%d ran with %d "
                                           "next_state_now()): none of the stop causes applies" % (opi, op, len(calls), nnow)))
            if not offc and all(c[1] == default for c in calls) and is_exec:
                msg = "op %d %r: no regular or must_finish state ran in this iteration, but the machine is still executing" % (opi, op)
                out.append(("C01", msg))
                out.append(("C04", msg + " (it did not stop: is_executing should be False, done() invoked)"))
            if not offc and is_exec and cur is None:
                out.append(("C04", "op %d %r: is_executing is True but current_state is ''" % (opi, op)))
            requested = False
        if not offc and not is_exec and cur is not None and kind in ("execute", "aiter"):
            out.append(("C04", "op %d %r: is_executing is False but current_state is s%d" % (opi, op, cur)))
        if prev_exec and not is_exec and ndone == 0:
            out.append(("C04", "op %d %r: the machine stopped without done() being invoked" % (opi, op)))
        if kind in ("done", "ondisable", "adisable"):
            run_tm = None
            dflt_fresh = True        # the machine is stopped through done(): the default state is entered anew afterwards
            if (is_exec or cur is not None) and not offc:
                out.append(("C04", "op %d %r: after done()/on_disable() is_executing=%s current_state=%r" % (opi, op, is_exec, cur)))
            has_state = False
            fresh = None
            cancelled_req = cancelled_req or requested
            requested = False        # "... until engage() is called AGAIN": a request made before the done() does not count
            if kind == "adisable":
                latch = False
        if kind == "aiter" and latch and not is_exec:
            latch = False
        if not offc and lifecycle and kind == "aiter" and seen_done and is_exec:
            out.append(("C13", "op %d %r: done() was invoked but the machine is executing after on_iteration" % (opi, op)))
        if not is_exec and not requested:
            stopped_since = True
        if not is_exec:
            last.clear() if False else None
        prev_exec = is_exec
    if not offc:
        out += oracle_chain(case, obs)
    out += oracle_auto(case, obs)
    out += oracle_asif(case, obs)
    return out


def oracle_asif(case, obs):
    """C13 as it is stated: while the autonomous machine runs, each on_iteration() does what engage(); execute() does on
    the same machine definition.  The reference is the implementation itself: a machine with the same states and
    the same in-state scripts -- another object of the same class -- driven by engage(); execute() at the same clock readings (done() where the autonomous
    machine is enabled again: the next engage() starts over).  Compared: the state functions called and their arguments,
    in every iteration after which the autonomous machine is still running or in which done() was invoked (the iteration
    in which the last timed state expires is where the two differ by definition: the engaged machine starts over)."""
    if not (case["auto"] and case["hist"] and case["hist"][0][0] == "aenable"):
        return []
    if any(op[0] not in ("aenable", "aiter", "adisable", "setdur") for op in case["hist"]):
        return []
    dis = True
    for op in case["hist"]:
        if op[0] == "aenable":
            if not dis:
                return []         # on_enable() twice with no on_disable() between: not how the framework drives a mode
            dis = False
        elif op[0] == "adisable":
            dis = True
    cb = json.loads(json.dumps(case))      # (the same class: done() of an AutonomousStateMachine also withdraws the engage request)
    cb.pop("twin", None)
    hb, at = [], {}
    latch = False
    for i, (op, (evs, is_exec, cur)) in enumerate(zip(case["hist"], obs)):
        if op[0] == "aenable":
            hb.append(["done"])
            latch = True
        elif op[0] == "adisable":
            hb.append(["ondisable"])
            latch = False
        elif op[0] == "setdur":
            hb.append(list(op))
        elif latch:
            # the in-state scripts are indexed by the number of state-function calls made so far: the reference takes up
            # the count of the autonomous machine at every iteration (it also ran in iterations that are not compared)
            ks = [e[6] for e in evs if e[0] == "call"]
            if ks:
                hb.append(["setk", ks[0]])
            hb.append(["engage", None, False])
            at[i] = len(hb)
            hb.append(["execute", op[1]])
            latch = bool(is_exec)
    cb["hist"] = hb
    try:
        obs_b, _ = run_impl(cb, tag="asif")
    except Exception:      # noqa: the reference could not be built
        return []
    latch = False
    for i, (op, (evs, is_exec, cur)) in enumerate(zip(case["hist"], obs)):
        if any(e[0] == "err" for e in evs):
            break
        if op[0] == "aenable":
            latch = True
        elif op[0] == "adisable":
            latch = False
        elif op[0] == "aiter" and latch:
            if i not in at or at[i] >= len(obs_b) or any(e[0] == "err" for e in obs_b[at[i]][0]):
                break
            if not is_exec:
                latch = False
            if any(e[0] == "done" and e[2] == 0 for e in evs):
                continue          # a done() logged at depth 0 is the library's own, made when the last timed state expired
            if not is_exec and not any(e[0] == "done" for e in evs):
                continue
            ca = [[e[1], e[2], e[3], e[4]] for e in evs if e[0] == "call"]
            cr = [[e[1], e[2], e[3], e[4]] for e in obs_b[at[i]][0] if e[0] == "call"]
            if ca != cr:
                return [("C13", "op %d %r: the autonomous machine called %r (state, tm, state_tm, initial_call); the same machine "
                                "definition driven by engage(); execute() at the same clock readings called %r" % (i, op, ca, cr))]
    return []


def oracle_auto(case, obs):
    """C13 clauses that hold for every user code (no usage contract): an AutonomousStateMachine driven
    through its lifecycle runs nothing while its latch is off, and once done() was invoked in an
    on_iteration it is stopped after it."""
    out = []
    if not (case["auto"] and case["hist"] and case["hist"][0][0] == "aenable"):
        return out
    if any(op[0] not in ("aenable", "aiter", "adisable", "setdur") for op in case["hist"]):
        return out
    latch = False
    fresh = False        # on_disable() ... on_enable(): the next on_iteration must start at the first state, tm = 0
    disabled = False
    t0 = None            # clock reading of the first iteration of a period begun by on_disable(); on_enable()
    for opi, (op, (evs, is_exec, cur)) in enumerate(zip(case["hist"], obs)):
        if any(e[0] == "err" for e in evs):
            break
        kind = op[0]
        if kind in ("aenable", "adisable"):
            t0 = None
        elif kind == "aiter" and latch:
            if fresh:
                t0 = op[1]
            if t0 is not None:
                # "starts again ... with tm at zero": from there tm is the time since that first iteration, for as long as
                # the machine runs on (a done() ends what this clause talks about)
                if any(e[0] == "done" for e in evs):
                    t0 = None
                else:
                    for e in evs:
                        if e[0] == "call" and e[1] != case["default"] and isinstance(e[2], int) and e[2] != e[7] - t0:
                            out.append(("C13", "op %d %r: s%d is called with tm=%d ticks, %d ticks after the first on_iteration() of "
                                               "this autonomous period (on_disable(); on_enable() start again with tm at zero)"
                                               % (opi, op, e[1], e[2], e[7] - t0)))
                            t0 = None
                            break
        if kind == "aenable":
            latch = True
            fresh = disabled
            disabled = False
        elif kind == "aiter" and latch and fresh:
            calls = [e for e in evs if e[0] == "call" and e[1] != case["default"]]
            if calls:
                c = calls[0]
                if c[1] != case["first"] or c[4] is False or (isinstance(c[2], int) and c[2] != 0):
                    out.append(("C13", "op %d %r: first on_iteration after on_disable(); on_enable() called s%d with tm=%r initial_call=%r, "
                                       "expected the first state s%d with tm 0 and initial_call True" % (opi, op, c[1], c[2], c[4], case["first"])))
            fresh = False
        if kind == "aiter" and latch and not is_exec and opi > 0:
            # "... until done() is called or the last timed state expires": the machine has stopped in this iteration -- which
            # of the two was it?  No done() in the scripts of the state functions that ran, and none of the states that were
            # current during the iteration is a timed state without a successor: neither.
            calls_ = [e for e in evs if e[0] == "call"]
            involved = {e[1] for e in evs if e[0] in ("call", "enter")}
            if obs[opi - 1][2] is not None:
                involved.add(obs[opi - 1][2])
            scripted_done = any(a[0] == "done" for e in calls_ if e[6] < len(case["scripts"]) for a in case["scripts"][e[6]])
            could_expire = any(case["states"][str(s_)]["timed"] and case["states"][str(s_)]["next"] is None for s_ in involved)
            if (calls_ and not scripted_done and not could_expire and case["default"] not in involved
                    and not any(e[0] == "err" for e in evs)):
                out.append(("C13", "op %d %r: the autonomous machine stopped (is_executing False) in an iteration in which no state function "
                                   "called done() and no timed state without a successor was current (states involved: %s): it must run on "
                                   "as if engage() preceded every iteration" % (opi, op, sorted(involved))))
        if kind == "adisable":
            disabled = True
        if kind == "aenable":
            pass
        elif kind == "adisable":
            latch = False
            if is_exec:
                out.append(("C13", "op %d: is_executing is True after on_disable()" % opi))
        elif kind == "aiter":
            if not latch:
                if evs:
                    out.append(("C13", "op %d %r: the machine had stopped (no on_enable() since) but on_iteration ran %r" % (opi, op, evs[:3])))
                if is_exec:
                    out.append(("C13", "op %d %r: is_executing is True although the machine had stopped" % (opi, op)))
            else:
                if any(e[0] == "done" for e in evs) and is_exec:
                    out.append(("C13", "op %d %r: done() was invoked during on_iteration but the machine is still executing" % (opi, op)))
                if not is_exec:
                    latch = False
    return out


def oracle_chain(case, obs):
    """C02 on quiet, continuously engaged, plain machines: an independent reference of the
    property (entries on the expiry grid, one hand-over per iteration)."""
    if case["default"] is not None:
        return []
    if any(acts for acts in case["scripts"]):
        return []
    h = case["hist"]
    auto = bool(case["auto"])
    if auto:
        if not h or h[0][0] != "aenable" or any(op[0] not in ("aiter", "setdur") for op in h[1:]) or case["default"] is not None:
            return []
    start = 0
    if not auto:
        # a prelude that ends with done() -- an earlier run, possibly begun with engage(initial_state=..) -- leaves a stopped
        # machine: the chain clause speaks about what follows the last done()
        dones = [i for i, op in enumerate(h) if op[0] == "done"]
        start = dones[-1] + 1 if dones else 0
        if (not h[start:] or any(op[0] not in ("engage", "execute", "setdur") for op in h[start:])
                or any(op[0] not in ("engage", "execute", "setdur", "done") for op in h[:start])
                or any(e[0] == "err" for o_ in obs[:start] for e in o_[0])):
            return []
    st = case["states"]
    dur = {int(k): v["dur"] for k, v in st.items()}
    dur.update({int(k): v for k, v in (case.get("predur") or {}).items()})
    out = []
    cur = None
    origin = 0
    ran = False
    entry = exp = 0
    requested = False
    engaged = False
    stopped = False
    for opi, (op, (evs, is_exec, c)) in enumerate(zip(h, obs)):
        if op[0] == "setdur":
            dur[op[1]] = op[2]
            continue
        if opi < start:
            continue
        if op[0] == "aenable":
            continue
        if op[0] == "aiter":
            if stopped:
                if [e for e in evs if e[0] == "call"] or is_exec:
                    out.append(("C13", "op %d %r: the last timed state has expired (the autonomous machine has run to completion), yet "
                                       "on_iteration ran %r / is_executing=%s" % (opi, op, [e for e in evs if e[0] == "call"][:2], is_exec)))
                    return out
                continue
            requested = True
            if cur is None:
                cur = case["first"]
                ran = False
        if op[0] == "engage":
            if op[1] is not None or op[2]:
                return out
            requested = True
            if cur is None:
                cur = case["first"]
                ran = False
            continue
        now = op[1]
        if not requested:
            return out               # a gap: the chain clause is about continuous engagement
        if not engaged:
            origin = now
            engaged = True
        tm = now - origin
        nss = tm
        wrapped = False
        if ran and st[str(cur)]["timed"] and exp < tm:
            nxt = st[str(cur)]["next"]
            nss = exp
            if nxt is None and auto:
                # the autonomous machine runs to completion once: nothing runs from here on
                stopped = True
                if [e for e in evs if e[0] == "call"] or is_exec:
                    out.append(("C13", "op %d %r: the last timed state s%d (entered at machine time %d, expiry %d) has expired at tm %d: no state "
                                       "function may run and is_executing must be False, but %r ran / is_executing=%s" % (
                                           opi, op, cur, entry, exp, tm, [e for e in evs if e[0] == "call"][:2], is_exec)))
                    return out
                continue
            if nxt is None:
                wrapped = True
                origin += exp
                tm -= exp
                nss = 0
                cur = case["first"]
            else:
                cur = nxt
            ran = False
        init = not ran
        if init:
            entry = nss
            d = dur[cur] if st[str(cur)]["timed"] else INF
            exp = nss + d
            ran = True
        want = (cur, tm, tm - entry, init)
        calls = [e for e in evs if e[0] == "call"]
        if len(calls) != 1:
            out.append(("C02", "op %d %r: %d state functions ran in a quiet engaged iteration" % (opi, op, len(calls))))
            return out
        e = calls[0]
        got = (e[1], e[2], e[3], e[4])
        for w, g, nm in zip(want, got, ("state", "tm", "state_tm", "initial_call")):
            if g is not None and g != w:
                out.append(("C02", "op %d %r: quiet continuously engaged chain: %s is %r, the duration grid requires %r "
                                   "(state s%d entered at machine time %d, expiry %d)" % (opi, op, nm, g, w, cur, entry, exp)))
                if auto:
                    out.append(("C13", "op %d %r: autonomous machine driven by on_iteration(): %s is %r, running it as if engage() preceded every "
                                       "iteration requires %r (state s%d entered at machine time %d, expiry %d)" % (opi, op, nm, g, w, cur, entry, exp)))
                if wrapped:
                    msg = ("op %d %r: the last timed state expired while engage() is still called: the machine starts over at the first "
                           "state s%d at the expiry instant, so %s must be %r, it is %r" % (opi, op, cur, nm, w, g))
                    out.append(("C04", msg))
                    out.append(("C03", msg))
                return out
        requested = False
    return out


# ----------------------------------------------------------------------------------
PROFILE = {
    "C01": dict(auto=0.1, profiles=["gapped", "lazy", "chaotic", "continuous"]),
    "C02": dict(auto=0.1, profiles=["continuous", "continuous", "chain", "chain", "gapped"]),
    "C03": dict(auto=0.2, profiles=["continuous", "gapped", "chaotic", "chain"]),
    "C04": dict(auto=0.1, profiles=["chaotic", "lazy", "gapped", "continuous", "chain"]),
    "C13": dict(auto=1.0, profiles=["continuous", "continuous", "chain"]),
}


def gen_for(pid, r):
    pr = PROFILE[pid]
    auto = r.random() < pr["auto"]
    prof = r.choice(pr["profiles"])
    if prof == "chain":
        return decorate(gen_chain(r, auto=(pid == "C13")), r)
    return decorate(gen_case(r, auto=auto, profile=prof), r)


def decorate(case, r):
    """Surroundings that must not matter (or matter in the documented way):
    decoys   a base class declares some states too, as another kind (must_finish flipped, timed <-> plain, other duration /
             next_state); the subclass's declaration is the one that counts;
    predur   a <state>_duration value is already on the NetworkTables topic when the component is bound: it wins over the
             decorator argument (which is only the default);
    twin     a second machine of the same class (or of a subclass of it) is engaged and executed in between: each machine
             has its own bookkeeping."""
    n = case["n"]
    st = case["states"]
    for i in range(n):
        if r.random() < 0.2:
            st[str(i)]["slash"] = r.randrange(1, len(st[str(i)]["params"]) + 2)
    if r.random() < 0.3:
        case["objrefs"] = True
    if r.random() < 0.25:
        cand = [i for i in range(n) if st[str(i)]["kind"] != "default"]
        r.shuffle(cand)
        decoys = {}
        for i in cand[:r.choice([1, 1, 2])]:
            real = st[str(i)]
            d = dict(must=not real["must"])
            if real["timed"] and r.random() < 0.5:
                d.update(timed=False, dur=None, next=None)
            else:
                d.update(timed=True, dur=r.choice([0, 1, 2, 64]), next=r.choice([None, case["first"], i]))
            decoys[str(i)] = d
        case["decoys"] = decoys
        # the class that re-declares the states may be one branch of a diamond (class M(Redeclares, Other) with both
        # deriving from the class that holds the first declarations): the MRO puts Redeclares before the common base
        case["diamond"] = len(case["hist"]) % 3 == 0
    timed = [i for i in range(n) if st[str(i)]["timed"]]
    if timed and r.random() < 0.25:
        case["predur"] = {str(i): r.choice([0, 1, 3, 5, 16, 40]) for i in timed if r.random() < 0.6}
    if r.random() < 0.25:
        tw = []
        t = 0
        for op in case["hist"]:
            if op[0] in ("execute", "aiter"):
                t = op[1]
            ops = []
            x = r.random()
            if x < 0.45:
                ops.append(["engage"])
            if x < 0.6:
                ops.append(["execute", t + r.choice([0, 0, 1, 2])])
            elif x < 0.65:
                ops.append(["done"])
            tw.append(ops)
        case["twin"] = {"subclass": r.random() < 0.4, "ops": tw}
    return case


def gen_chain(r, auto=False):
    """Timed chains / cycles, quiet bodies, continuous engagement, arbitrary loop periods.
    auto: the same machine as an AutonomousStateMachine driven by on_enable(); on_iteration()* (no explicit engage)."""
    n = r.choice([1, 2, 2, 3, 3, 4])
    order = list(range(n))
    r.shuffle(order)
    states = {}
    for pos, i in enumerate(order):
        last = pos == n - 1
        nxt = None if (last and r.random() < 0.6) else (order[0] if last else order[pos + 1])
        states[i] = dict(kind="timed", must=r.random() < 0.2, timed=True,
                         dur=r.choice([0, 1, 2, 3, 4, 4, 8, 8, 16, 32]), next=nxt,
                         params=list(r.choice(PARAM_ORDERS)))
    if n >= 2 and r.random() < 0.25:      # an untimed state in the middle stops the chain there
        i = order[r.randrange(1, n)]
        states[i].update(kind="state", timed=False, dur=None, next=None)
    hist = []
    t = r.choice([0, 5, 64, 1000])
    stepset = r.choice([[1], [1, 2, 3], [0, 1, 2, 3, 5, 8], [5, 8, 13], [8, 40, 400], [1, 1, 1, 40]])
    timed_ids = [i for i in range(n) if states[i]["timed"]]
    if auto:
        hist.append(["aenable"])
    elif n >= 2 and r.random() < 0.3:
        # an earlier run begun somewhere else (engage(initial_state=X)) and ended by done(): the chain that follows starts at
        # the first state all the same, also when it starts over after its last state
        x = r.choice(order[1:])
        hist.append(["engage", x, r.random() < 0.3])
        for _ in range(r.randrange(1, 4)):
            t += r.choice(stepset)
            hist.append(["execute", t])
            hist.append(["engage", None, False])
        t += r.choice(stepset)
        hist.append(["execute", t])
        hist.append(["done"])
    for _ in range(r.randrange(10, 45)):
        if r.random() < 0.05 and timed_ids:
            hist.append(["setdur", r.choice(timed_ids), r.choice([0, 1, 2, 4, 8, 16, -2])])
        t += r.choice(stepset)
        if auto:
            hist.append(["aiter", t])
        else:
            hist.append(["engage", None, False])
            hist.append(["execute", t])
    return dict(n=n, first=order[0], default=None, states={str(k): v for k, v in states.items()},
                auto=auto, split=n, scripts=[[] for _ in range(4)], hist=hist)


def small_scope(pid, max_len):
    """Bounded-exhaustive companion of the random generator (thorough tier): EVERY history up to max_len operations over a small
    alphabet, on a handful of small machines, with quiet bodies and with one scripted in-state action."""
    import itertools

    def st(kind="state", must=False, dur=None, nxt=None):
        return dict(kind=kind, must=must, timed=dur is not None, dur=dur, next=nxt, params=["tm", "state_tm", "initial_call"])
    shapes = [
        (1, 0, None, {0: st()}),
        (2, 0, None, {0: st("timed", dur=2, nxt=1), 1: st()}),
        (2, 0, 1, {0: st(), 1: dict(kind="default", must=True, timed=False, dur=None, next=None, params=["tm", "state_tm", "initial_call"])}),
        (1, 0, None, {0: st("timed", dur=1)}),
        (2, 0, None, {0: st("timed", must=True, dur=2, nxt=1), 1: st()}),
        (3, 0, 2, {0: st("timed", dur=1, nxt=1), 1: st("timed", dur=2), 2: dict(kind="default", must=True, timed=False, dur=None,
                                                                           next=None, params=["tm", "state_tm", "initial_call"])}),
    ]
    auto = pid == "C13"
    alphabet = ["E", "X1", "X3", "D"] if not auto else ["AE", "A1", "A3", "AD"]
    script_sets = [[], [[], [["next", 0]]], [[["done"]]], [[], [["now", 0, 1]]]]
    for n, first, default, states in shapes:
        for scripts in script_sets:
            if any(a[0] in ("next", "now") and a[1] >= n for acts in scripts for a in acts):
                continue
            for L in range(1, max_len + 1):
                for word in itertools.product(alphabet, repeat=L):
                    if auto and word[0] != "AE":
                        continue        # the selector calls on_enable() first (on_iteration() before it raises AttributeError: no latch yet)
                    t = 0
                    hist = []
                    for w in word:
                        if w == "E":
                            hist.append(["engage", None, False])
                        elif w == "D":
                            hist.append(["done"])
                        elif w in ("X1", "X3"):
                            t += int(w[1])
                            hist.append(["execute", t])
                        elif w == "AE":
                            hist.append(["aenable"])
                        elif w == "AD":
                            hist.append(["adisable"])
                        else:
                            t += int(w[1])
                            hist.append(["aiter", t])
                    yield dict(n=n, first=first, default=default, states={str(k): dict(v) for k, v in states.items()}, auto=auto,
                               split=n, scripts=[list(a) for a in scripts] + [[] for _ in range(3)], hist=hist)


def nontrivial(obs):
    called = set()
    dones = 0
    for evs, _, _ in obs:
        for e in evs:
            if e[0] == "call":
                called.add(e[1])
            elif e[0] == "done":
                dones += 1
    return len(called) >= 2 and dones >= 1


def shrink(case, pid):
    """Shortest prefix (and fewest script actions) that still violates property pid."""
    def bad(c):
        try:
            o, _ = run_impl(c, tag="shr")
        except Exception:
            return False
        return any(p == pid for p, _ in oracle(c, o))
    best = case
    lo = 1
    for n in range(1, len(case["hist"]) + 1):
        c = dict(case, hist=case["hist"][:n])
        if bad(c):
            best = c
            break
    # drop script entries that are not needed
    for k in range(len(best["scripts"])):
        if best["scripts"][k]:
            c = dict(best, scripts=[([] if j == k else a) for j, a in enumerate(best["scripts"])])
            if bad(c):
                best = c
    # drop single operations
    i = 0
    while i < len(best["hist"]):
        c = dict(best, hist=best["hist"][:i] + best["hist"][i + 1:])
        if len(c["hist"]) >= 1 and bad(c):
            best = c
        else:
            i += 1
    return best


def violation_record(case, pid):
    obs, sa = run_impl(case, tag="viol")
    msgs = [m for p, m in oracle(case, obs) if p == pid]
    return {"kind": "input", "what": msgs[0] if msgs else "?", "fingerprint": "%s:%s" % (pid, (msgs[0].split(":", 1)[1].strip()[:40] if msgs else "?")),
            "case": case, "implementation_trace": obs, "all_messages": msgs[:6]}


def sm_check(ctx, pid):
    """The check of one property of the StateMachine family."""
    from . import common
    ctx.assumptions.append(
        "%s: StateMachine model SM.Model; clock arithmetic idealised over Z ticks (dyadic clocks, 1/64 s, in the correspondence); "
        "theorems hold inside the usage contract K of DESIGN.md 6.1 where stated (hypothesis `ok`); single-threaded use" % pid)
    ctx.prove()
    # the small methods around execute(), regenerated from the current source (fail-closed translator harness/pytr.py)
    from . import sm_translate
    sm_translate.obligation(ctx)
    # execute() itself, translated statement by statement and proved equal to SM.Model.exec_step (SM/SrcExecProofs.v)
    from . import exec_translate
    exec_translate.obligation(ctx)
    n = {"quick": 2000, "thorough": 48000}[ctx.tier]
    r = ctx.rng
    cases = []
    # corpus first
    cdir = os.path.join(common.CORPUS, pid)
    corpus_cases = []
    if os.path.isdir(cdir):
        for f in sorted(os.listdir(cdir)):
            if f.endswith(".json"):
                corpus_cases.append(json.load(open(os.path.join(cdir, f)))["case"])
    gen = corpus_cases + [gen_for(pid, r) for _ in range(n)]
    if ctx.tier == "thorough":
        ss = list(small_scope(pid, 6))
        ctx.coverage["small_scope_exhaustive"] = {
            "cases": len(ss), "what": "every history of length <= 6 over {engage, execute(+1 tick), execute(+3 ticks), done} (C13: on_enable, "
            "on_iteration(+1), on_iteration(+3), on_disable) on 6 small machines x 4 in-state scripts"}
        gen += ss
    impl_fail = []
    seen = set()
    ntriv = 0
    for i, c in enumerate(gen):
        try:
            obs, sa = run_impl(c, tag=pid)
        except Exception as e:      # the driver itself failed (class could not be built, ...)
            impl_fail.append((i, repr(e)))
            continue
        cases.append((c, obs, sa))
        for op in c["hist"]:
            ctx.count("op=" + op[0])
        ctx.count("auto" if c["auto"] else "plain")
        ctx.count("states=%d" % c["n"])
        if c["default"] is not None:
            ctx.count("has_default")
        key = json.dumps([c["states"], c["hist"], sa], sort_keys=True)
        if key not in seen:
            seen.add(key)
            if nontrivial(obs):
                ntriv += 1
    ctx.obligation("corr:every generated machine could be built and driven", not impl_fail, repr(impl_fail[:3]))
    bad = correspondence(ctx, cases, label=pid.lower())
    if bad and len(bad) <= 25:
        # a disagreement must show again when the implementation is driven once more on the same case (a glitch of the
        # harness itself on a loaded machine -- an operation that hit the time limit -- is not a disagreement)
        again = []
        for i in bad:
            c = cases[i][0]
            try:
                o2, sa2 = run_impl(c, tag=pid + "r")
                again.append((i, (c, o2, sa2)))
            except Exception:      # noqa
                again.append((i, cases[i]))
        n_before = len(ctx.obligations)
        bad2 = correspondence(ctx, [x for _, x in again], label=pid.lower() + "_again")
        still = [again[j][0] for j in bad2]
        if not still:
            # every one of them agrees on the second run: withdraw the broken shard obligations of the first pass
            del ctx.obligations[n_before:]
            ctx.obligations[:] = [(nm, True if (nm.startswith("corr:cases_%s_" % pid.lower()) and not ok_) else ok_, d_)
                                  for (nm, ok_, d_) in ctx.obligations]
            ctx.count("disagreements-withdrawn-on-a-second-run", len(bad))
            for i, x in again:
                cases[i] = x
            bad = []
        else:
            bad = still
    ctx.coverage.update({
        "evaluations": len(cases),
        "traces_validated_against_impl": len(cases),
        "distinct_nontrivial": ntriv,
        "rule": "generated machine shapes (1-5 states, timed/must_finish/default, next links, inheritance split, all 16 parameter "
                "orders) x scripted state functions (next_state/next_state_now/done per invocation) x histories of engage/done/"
                "on_disable/execute/duration writes (or the autonomous lifecycle) under an injected dyadic clock; profile mix for "
                "%s: %s; non-trivial = distinct case in which >= 2 distinct states ran and done() was invoked at least once" % (pid, PROFILE[pid]),
        "samples": [{"shape": c["states"], "first": c["first"], "default": c["default"], "auto": c["auto"],
                     "history": c["hist"][:12], "trace": o[:12]} for c, o, _ in cases[len(corpus_cases):len(corpus_cases) + 3]],
        "exhaustive": False,
    })

    def confirmed(c):
        """shrink and re-run: a candidate is kept only if the violation shows again on a fresh run"""
        rec = violation_record(shrink(c, pid), pid)
        if rec["what"] != "?":
            return rec
        rec = violation_record(c, pid)
        return rec if rec["what"] != "?" else None

    def search():
        found = []
        # 1. the disagreeing cases themselves
        for i in bad[:200]:
            c, o, _ = cases[i]
            if any(p == pid for p, _ in oracle(c, o)):
                rec = confirmed(c)
                if rec:
                    found.append(rec)
                    return found
        # 2. everything this run generated, then a larger batch
        for c, o, _ in cases:
            if any(p == pid for p, _ in oracle(c, o)):
                rec = confirmed(c)
                if rec:
                    found.append(rec)
                    return found
        import time
        t0 = time.time()
        extra = 0
        while extra < 10 * n and time.time() - t0 < (120 if ctx.tier == "quick" else 600):
            c = gen_for(pid, r)
            extra += 1
            try:
                o, _ = run_impl(c, tag=pid + "s")
            except Exception:
                continue
            if any(p == pid for p, _ in oracle(c, o)):
                rec = confirmed(c)
                if rec:
                    found.append(rec)
                    return found
        ctx.coverage["search_extra_cases"] = extra
        if bad:
            c, o, sa = cases[bad[0]]
            ctx.coverage["first_disagreeing_case"] = {"case": c, "implementation_trace": o}
        return found

    return ctx.finish(search=search)


def sm_replay(ctx, pid, obj):
    if obj.get("kind") != "input":
        print("replay names broken obligations only: %s" % [b.get("name") for b in obj.get("broken_obligations", [])])
        return sm_check(ctx, pid)
    case = obj["case"]
    obs, _ = run_impl(case, tag="rep")
    msgs = [m for p, m in oracle(case, obs) if p == pid]
    print("history:", case["hist"])
    for o in obs:
        print("  ", o)
    for m in msgs:
        print("violates %s: %s" % (pid, m))
    if msgs:
        print("VIOLATION property=%s replay=(replayed)" % pid)
        return 1
    print("no clause of %s fails on this history" % pid)
    return 0
