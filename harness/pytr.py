"""Mini translator: one small Python method (straight-line code over `self` fields, locals, if/elif/else,
return, calls of sibling methods) -> a Gallina function over the family's record type, by symbolic execution
with continuations.  Fail-closed: any construct outside the subset raises Shape.

A `Spec` says how the method's world is read:
  record      (constructor, [(python attribute, Coq projection, kind)]) in constructor order;
              kind 'z' | 'bool' | 'list' | 'opt' ('opt': an optional handle seen as a bool "is not None")
  params      [(coq name, coq type)]: the inputs the environment supplies
  externals   {python expression text: Coq term}: reads of the environment (clock, button, constants)
  effects     {python call-callee text: f(tr_args, env) -> None}: environment calls that change model fields
  ignore      callee prefixes of statements without effect on the model (logging)
  result      'state' | 'pair' (state * returned value)
Numbers are Z (the harness drives every clock in whole ticks / microseconds), float(x) is x.

`lemma()` states  forall self params, gen self params = model self params  and proves it by case analysis
(`destruct` of every `if`, then reflexivity / lia): the hand-written model function is the source's."""
import ast
import os


class Shape(Exception):
    pass


def txt(n):
    return ast.unparse(n)


class Env:
    def __init__(self, fields, locs=None):
        self.fields = dict(fields)
        self.locs = dict(locs or {})

    def copy(self):
        return Env(self.fields, self.locs)


class Spec:
    def __init__(self, repo, path, cls, method, record, params, externals=None, effects=None, ignore=(), result="pair",
                 self_name="self", model=None, gen=None, siblings=None, ignore_locals=(), none_value=None, unfold=None, ignore_attrs=()):
        self.repo, self.path, self.cls, self.method = repo, path, cls, method
        self.ctor, self.rec = record
        self.params = params
        self.externals = externals or {}
        self.effects = effects or {}
        self.ignore = tuple(ignore)
        self.result = result
        self.model = model
        self.gen = gen or "gen_" + method.strip("_")
        self.siblings = siblings or {}
        self.ignore_locals = set(ignore_locals)
        self.none_value = none_value
        self.ignore_attrs = set(ignore_attrs)
        self.is_init = method == "__init__"
        self.guards = ()
        self.attr_alias = {}
        self.unfold = unfold
        self.kinds = {py: kind for py, _, kind in self.rec}

    # ---------------------------------------------------------------- source
    def find(self, method):
        tree = ast.parse(open(os.path.join(self.repo, self.path)).read())
        body = tree.body
        for part in self.cls.split("."):
            nxt = [n for n in body if isinstance(n, ast.ClassDef) and n.name == part]
            if len(nxt) != 1:
                raise Shape("class %s not found in %s" % (self.cls, self.path))
            body = nxt[0].body
        fs = [n for n in body if isinstance(n, ast.FunctionDef) and n.name == method]
        if len(fs) != 1:
            # alias such as  __bool__ = get
            raise Shape("method %s.%s not found" % (self.cls, method))
        f = fs[0]
        if [d for d in f.decorator_list if txt(d) != "property"]:
            raise Shape("%s.%s is decorated" % (self.cls, method))
        return f

    # ---------------------------------------------------------------- expressions
    def expr(self, n, env):
        t = txt(n)
        if t in self.externals:
            v = self.externals[t]
            return v(env) if callable(v) else v
        if isinstance(n, ast.Constant):
            if n.value is True:
                return "true"
            if n.value is False:
                return "false"
            if isinstance(n.value, int):
                return "%d" % n.value if n.value >= 0 else "(%d)" % n.value
            if n.value is None:
                return "None"
            raise Shape("constant %r" % (n.value,))
        if isinstance(n, ast.Name):
            if n.id in env.locs:
                return env.locs[n.id]
            raise Shape("unknown name %s" % n.id)
        if isinstance(n, ast.Attribute) and isinstance(n.value, ast.Name) and n.value.id == "self":
            a = self.attr_alias.get(n.attr, n.attr)
            if a in env.fields:
                return env.fields[a]
            raise Shape("unknown attribute self.%s" % n.attr)
        if isinstance(n, ast.BinOp) and isinstance(n.op, (ast.Add, ast.Sub, ast.Mult)):
            op = {ast.Add: "+", ast.Sub: "-", ast.Mult: "*"}[type(n.op)]
            return "(%s %s %s)" % (self.expr(n.left, env), op, self.expr(n.right, env))
        if isinstance(n, ast.UnaryOp) and isinstance(n.op, ast.USub):
            return "(- %s)" % paren(self.expr(n.operand, env))
        if isinstance(n, ast.UnaryOp) and isinstance(n.op, ast.Not):
            return "(negb %s)" % paren(self.expr(n.operand, env))
        if isinstance(n, ast.BoolOp):
            op = " && " if isinstance(n.op, ast.And) else " || "
            return "(" + op.join(self.expr(v, env) for v in n.values) + ")"
        if isinstance(n, ast.Compare) and len(n.ops) == 1:
            a, b = n.left, n.comparators[0]
            if isinstance(n.ops[0], (ast.Is, ast.IsNot)) and isinstance(b, ast.Constant) and b.value is None:
                v = self.expr(a, env)          # an 'opt' value: bool "is not None"
                return "(negb %s)" % paren(v) if isinstance(n.ops[0], ast.Is) else v
            ops = {ast.Gt: ">?", ast.Lt: "<?", ast.GtE: ">=?", ast.LtE: "<=?", ast.Eq: "=?"}
            if type(n.ops[0]) in ops:
                return "(%s %s %s)" % (self.expr(a, env), ops[type(n.ops[0])], self.expr(b, env))
        if isinstance(n, ast.Call) and txt(n.func) == "float" and len(n.args) == 1:
            return self.expr(n.args[0], env)
        if isinstance(n, ast.IfExp):
            return "(if %s then %s else %s)" % (self.expr(n.test, env), self.expr(n.body, env), self.expr(n.orelse, env))
        if isinstance(n, ast.List) and not n.elts:
            return "[]"
        if isinstance(n, ast.Tuple):
            return "(" + ", ".join(self.expr(e, env) for e in n.elts) + ")"
        raise Shape("expression not recognised: %s" % t[:70])

    # ---------------------------------------------------------------- statements
    def emit(self, env, val):
        missing = [py for py, _, _ in self.rec if py not in env.fields]
        if missing:
            raise Shape("%s.%s leaves %s unset" % (self.cls, self.method, missing))
        st = "%s %s" % (self.ctor, " ".join(paren(env.fields[py]) for py, _, _ in self.rec))
        if self.result == "state":
            return "(%s)" % st
        if val is None:
            raise Shape("the method falls off its end / returns None but a value is expected")
        return "(%s, %s)" % (st, val)

    def run(self, stmts, env, on_fall, on_ret, depth=0):
        if depth > 40:
            raise Shape("method too long")
        if not stmts:
            return on_fall(env)
        s, rest = stmts[0], stmts[1:]

        def go(e):
            return self.run(rest, e, on_fall, on_ret, depth + 1)
        sp = self.special(s, env, go)
        if sp is not None:
            return sp
        if isinstance(s, ast.Expr) and isinstance(s.value, ast.Constant) and isinstance(s.value.value, str):
            return go(env)
        if isinstance(s, ast.Pass):
            return go(env)
        if isinstance(s, ast.Return):
            return on_ret(env, None if s.value is None else self.expr(s.value, env))
        if isinstance(s, (ast.Assign, ast.AnnAssign)):
            targets = s.targets if isinstance(s, ast.Assign) else [s.target]
            if len(targets) != 1 or s.value is None:
                raise Shape("assignment %s" % txt(s))
            tg = targets[0]
            e2 = env.copy()
            if isinstance(tg, ast.Name):
                if tg.id in self.ignore_locals:
                    return go(env)
                e2.locs[tg.id] = self.value(s.value, env, None)
                return go(e2)
            if isinstance(tg, ast.Attribute) and isinstance(tg.value, ast.Name) and tg.value.id == "self" \
                    and self.attr_alias.get(tg.attr, tg.attr) in self.kinds:
                a = self.attr_alias.get(tg.attr, tg.attr)
                e2.fields[a] = self.value(s.value, env, self.kinds[a])
                return go(e2)
            if isinstance(tg, ast.Attribute) and isinstance(tg.value, ast.Name) and tg.value.id == "self" and tg.attr in self.ignore_attrs:
                return go(env)
            raise Shape("assignment target %s" % txt(tg))
        if isinstance(s, ast.AugAssign) and isinstance(s.op, (ast.Add, ast.Sub)):
            tg = s.target
            if isinstance(tg, ast.Attribute) and isinstance(tg.value, ast.Name) and tg.value.id == "self" and tg.attr in env.fields:
                e2 = env.copy()
                e2.fields[tg.attr] = "(%s %s %s)" % (env.fields[tg.attr], "+" if isinstance(s.op, ast.Add) else "-", self.expr(s.value, env))
                return go(e2)
            raise Shape("augmented assignment %s" % txt(s))
        if (isinstance(s, ast.If) and len(s.body) == 1 and isinstance(s.body[0], ast.Raise) and not s.orelse
                and txt(s.test) in getattr(self, "guards", ())):
            # an argument check that raises: outside the translated function (the model's own guard is named in the spec)
            return go(env)
        if isinstance(s, ast.If):
            c = self.expr(s.test, env)
            a = self.run(list(s.body) + rest, env.copy(), on_fall, on_ret, depth + 1)
            b = self.run(list(s.orelse) + rest, env.copy(), on_fall, on_ret, depth + 1)
            return "(if %s then %s else %s)" % (c, a, b)
        if isinstance(s, ast.Expr) and isinstance(s.value, ast.Call):
            c = s.value
            f = txt(c.func)
            if f in self.effects:
                e2 = env.copy()
                self.effects[f](c, e2, self)
                return go(e2)
            if f.startswith("self.") and f[5:] in self.siblings:
                callee = [x for x in self.find(f[5:]).body]
                fn = self.find(f[5:])
                names = [a.arg for a in fn.args.args[1:]]
                if names:
                    # bind parameters positionally / by keyword / to their defaults
                    e2 = env.copy()
                    dflt = dict(zip(names[len(names) - len(fn.args.defaults):], fn.args.defaults))
                    given = dict(zip(names, c.args))
                    given.update({k.arg: k.value for k in c.keywords})
                    for nm in names:
                        if nm in given:
                            e2.locs[nm] = self.expr(given[nm], env)
                        elif nm in dflt:
                            e2.locs[nm] = self.expr(dflt[nm], env)
                        else:
                            raise Shape("argument %s of %s is missing" % (nm, f))
                    env = e2
                return self.run(callee, env, lambda e: go(e), lambda e, v: go(e), depth + 1)
            if f.startswith(self.ignore):
                return go(env)
            # list mutators on fields
            if isinstance(c.func, ast.Attribute) and txt(c.func.value).startswith("self.") and txt(c.func.value)[5:] in env.fields \
                    and self.kinds.get(txt(c.func.value)[5:]) == "list":
                fld = txt(c.func.value)[5:]
                e2 = env.copy()
                if c.func.attr == "clear" and not c.args:
                    e2.fields[fld] = "[]"
                    return go(e2)
                if c.func.attr == "append" and len(c.args) == 1:
                    e2.fields[fld] = "(%s ++ [%s])" % (env.fields[fld], self.expr(c.args[0], env))
                    return go(e2)
            raise Shape("call statement not recognised: %s" % txt(c)[:70])
        if isinstance(s, ast.For) and all(self.is_log_only(x) for x in s.body):
            return go(env)
        raise Shape("statement not recognised (line %d): %s" % (getattr(s, "lineno", 0), txt(s)[:70]))

    def special(self, s, env, go):
        """family-specific statement forms (overridden by subclasses); None = not handled here"""
        return None

    def state_term(self, env):
        return "(%s %s)" % (self.ctor, " ".join(paren(env.fields[py]) for py, _, _ in self.rec))

    def is_log_only(self, s):
        if isinstance(s, ast.Assign) and all(isinstance(t, ast.Name) and t.id in self.ignore_locals for t in s.targets):
            return True
        if isinstance(s, ast.Expr) and isinstance(s.value, ast.Call):
            f = txt(s.value.func)
            return f.startswith(self.ignore) or (isinstance(s.value.func, ast.Attribute) and txt(s.value.func.value) in self.ignore_locals)
        return False

    def value(self, v, env, kind):
        if kind == "opt":
            if isinstance(v, ast.Constant) and v.value is None:
                return "false"
            t = txt(v)
            if t in self.externals:
                return self.externals[t]
            if isinstance(v, ast.Name) or (isinstance(v, ast.Attribute) and txt(v.value) == "self"):
                return self.expr(v, env)
            return "true"          # any freshly obtained handle
        return self.expr(v, env)

    # ---------------------------------------------------------------- output
    def term(self):
        f = self.find(self.method)
        env = Env(dict(getattr(self, "pre_fields", {})) if self.is_init else {py: "%s self" % proj for py, proj, _ in self.rec})
        # parameters of the python method beyond self are bound through externals / params by name
        for a in f.args.args[1:]:
            if a.arg in self.externals:
                env.locs[a.arg] = self.externals[a.arg]
            else:
                raise Shape("parameter %s of %s has no meaning in the spec" % (a.arg, self.method))
        fall = (lambda e: self.emit(e, None)) if self.result == "state" else (lambda e: self.emit(e, self.fall_value(e)))
        return self.run(list(f.body), env, fall, lambda e, v: self.emit(e, v if v is not None else self.fall_value(e)))

    def fall_value(self, env):
        # a method that returns nothing: the observable result is a ghost flag set by an effect (e.g. "a warning was logged")
        return env.locs.get("__ghost", getattr(self, "none_value", None))

    def definition(self, rtype):
        ps = " ".join("(%s : %s)" % p for p in self.params)
        if self.is_init:
            return "Definition %s %s :=\n  %s." % (self.gen, ps, self.term())
        return "Definition %s (self : %s) %s :=\n  %s." % (self.gen, rtype, ps, self.term())

    def lemma(self, rtype):
        ps = " ".join(n for n, _ in self.params)
        if self.is_init:
            return ("Lemma src_%s : forall %s, %s %s = %s %s.\nProof. intros. reflexivity. Qed.\n" % (
                self.gen, " ".join("(%s : %s)" % p for p in self.params), self.gen, ps, self.model, ps))
        return ("Lemma src_%s : forall (self : %s) %s, %s self %s = %s self %s.\n"
                "Proof.\n  intros self %s; destruct self; repeat (match goal with x : bool |- _ => destruct x end); unfold %s; cbn;\n"
                "  repeat match goal with |- context [if ?b then _ else _] => destruct b eqn:? end;\n"
                "  try reflexivity; try (exfalso; lia); try (f_equal; f_equal; lia).\nQed.\n" % (
                    self.gen, rtype, " ".join("(%s : %s)" % p for p in self.params), self.gen, ps, self.model, ps,
                    ps, ", ".join([self.gen] + (self.unfold if self.unfold is not None else [self.model]))))


def paren(t):
    t = t.strip()
    if t.startswith("(") or " " not in t:
        return t
    return "(" + t + ")"


HEADER = ("From Coq Require Import ZArith List Bool Lia ZifyBool.\nImport ListNotations.\nOpen Scope Z_scope.\n"
          "Open Scope bool_scope.\n")
