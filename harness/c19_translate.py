"""C19: the methods of ButtonDebouncer, Toggle (+ _SteadyDebounce), PeriodicFilter and SimpleWatchdog, translated from
the current source by harness/pytr.py and proved equal to the hand-written Control/* model functions."""
from .pytr import Spec, Shape, HEADER

DEB = ("mkDeb", [("latest", "b_latest", "z"), ("debounce_period", "b_period", "z")])
STEADY = ("mkSteady", [("latest", "sd_latest", "z"), ("debounce_period", "sd_period", "z"), ("enabled", "sd_enabled", "bool")])
TOGGLE = ("mkToggle", [("released", "released", "bool"), ("toggle", "tgl", "bool"), ("state", "state", "bool")])
PF = ("mkPF", [("_period", "f_period", "z"), ("_loggingLoop", "f_loggingLoop", "bool"), ("_last_log", "f_last_log", "z"),
               ("_bypass_level", "f_bypass", "z")])
WD = ("mkWd", [("_startTime", "w_startTime", "z"), ("_timeout", "w_timeout", "z"), ("_expirationTime", "w_expirationTime", "z"),
               ("_lastTimeoutPrintTime", "w_lastTimeoutPrintTime", "z"), ("_lastEpochsPrintTime", "w_lastEpochsPrintTime", "z"),
               ("_epochs", "w_epochs", "list")])


def ghost_true(call, env, spec):
    env.locs["__ghost"] = "true"


def specs(repo):
    bd = "robotpy_ext/control/button_debouncer.py"
    tg = "robotpy_ext/control/toggle.py"
    pf = "robotpy_ext/misc/periodic_filter.py"
    wd = "robotpy_ext/misc/simple_watchdog.py"
    clock = {"self._get_time()": "now"}
    wlog = dict(ignore=("logger.",), ignore_locals=("prev", "epoch_logs", "time"))
    return [
        ("debouncer", Spec(repo, bd, "ButtonDebouncer", "__init__", DEB, [("p", "Z")], {"period": "p", "joystick": "0", "buttonnum": "0"},
                           result="state", ignore_attrs=("joystick", "buttonnum", "timer"), model="deb_new", gen="gen_deb_new")),
        ("steady", Spec(repo, tg, "Toggle._SteadyDebounce", "__init__", STEADY, [("p", "Z")],
                        {"period": "p", "joystick": "0", "button": "0"}, result="state", ignore_attrs=("joystick", "button"),
                        model="sd_new", gen="gen_sd_new")),
        ("pfilter", Spec(repo, pf, "PeriodicFilter", "__init__", PF, [("p", "Z"), ("bypass", "Z")],
                         {"period": "p", "bypass_level": "bypass"}, result="state", model="pf_new", gen="gen_pf_new")),
        ("watchdog", Spec(repo, wd, "SimpleWatchdog", "__init__", WD, [("t", "Z")],
                          {"round(timeout * 1000000.0)": "t", "timeout": "t"}, result="state", ignore_attrs=("_get_time",),
                          model="wd_new", gen="gen_wd_new")),
        ("debouncer", Spec(repo, bd, "ButtonDebouncer", "get", DEB, [("now", "Z"), ("pressed", "bool")],
                           {"self.timer.getFPGATimestamp()": "now", "self.joystick.getRawButton(self.buttonnum)": "pressed"},
                           model="deb_get", gen="gen_deb_get")),
        ("debouncer", Spec(repo, bd, "ButtonDebouncer", "set_debounce_period", DEB, [("p", "Z")], {"period": "p"}, result="state",
                           model="(fun d p => fst (deb_step d (BSetPeriod p)))", unfold=["deb_step"], gen="gen_deb_set_period")),
        ("steady", Spec(repo, tg, "Toggle._SteadyDebounce", "get", STEADY, [("now", "Z"), ("pressed", "bool")],
                        {"wpilib.Timer.getFPGATimestamp()": "now", "self.joystick.getRawButton(self.button)": "pressed"},
                        model="sd_get", gen="gen_sd_get")),
        ("toggle", Spec(repo, tg, "Toggle", "get", TOGGLE, [("cur", "bool")], {"self.joystickget()": "cur"},
                        model="(fun t cur => (tg_get t cur, tg_read (tg_get t cur) AGet))", unfold=["tg_get", "tg_read"],
                        gen="gen_tg_get")),
        ("toggle", Spec(repo, tg, "Toggle", "on", TOGGLE, [("cur", "bool")], {"self.joystickget()": "cur"}, siblings={"get": 1},
                        model="(fun t cur => (tg_get t cur, tg_read (tg_get t cur) AOn))", unfold=["tg_get", "tg_read"],
                        gen="gen_tg_on")),
        ("toggle", Spec(repo, tg, "Toggle", "off", TOGGLE, [("cur", "bool")], {"self.joystickget()": "cur"}, siblings={"get": 1},
                        model="(fun t cur => (tg_get t cur, tg_read (tg_get t cur) AOff))", unfold=["tg_get", "tg_read"],
                        gen="gen_tg_off")),
        ("pfilter", Spec(repo, pf, "PeriodicFilter", "filter", PF, [("now", "Z"), ("level", "Z")],
                         {"time.monotonic()": "now", "record.levelno": "level", "record": "level"}, siblings={"_refresh_logger": 1},
                         model="(fun f now level => pf_filter f (mkRec now level))", unfold=["pf_filter", "pf_refresh"],
                         gen="gen_pf_filter")),
        ("watchdog", Spec(repo, wd, "SimpleWatchdog", "enable", WD, [("now", "Z")], clock, result="state", model="wd_enable",
                          gen="gen_wd_enable")),
        ("watchdog", Spec(repo, wd, "SimpleWatchdog", "reset", WD, [("now", "Z")], clock, result="state", siblings={"enable": 1},
                          model="wd_enable", gen="gen_wd_reset")),
        ("watchdog", Spec(repo, wd, "SimpleWatchdog", "disable", WD, [], {}, result="state", model="(fun w => w)", unfold=[],
                          gen="gen_wd_disable")),
        ("watchdog", Spec(repo, wd, "SimpleWatchdog", "setTimeout", WD, [("now", "Z"), ("t", "Z")],
                          dict(clock, **{"round(timeout * 1000000.0)": "t", "timeout": "t"}), result="state",
                          model="wd_setTimeout", gen="gen_wd_setTimeout")),
        ("watchdog", Spec(repo, wd, "SimpleWatchdog", "isExpired", WD, [("now", "Z")], clock,
                          model="(fun w now => (w, wd_isExpired w now))", unfold=["wd_isExpired"], gen="gen_wd_isExpired")),
        ("watchdog", Spec(repo, wd, "SimpleWatchdog", "addEpoch", WD, [("now", "Z"), ("name", "nat")],
                          dict(clock, epochName="name"), result="state", model="wd_addEpoch", gen="gen_wd_addEpoch")),
        ("watchdog", Spec(repo, wd, "SimpleWatchdog", "printIfExpired", WD, [("now", "Z")],
                          dict(clock, **{"self.kMinPrintPeriod": "kMinPrintPeriod"}), effects={"logger.warning": ghost_true},
                          none_value="false", model="wd_printIfExpired", gen="gen_wd_printIfExpired", **wlog)),
    ]


def coq(repo):
    L = [HEADER, "From RV Require Import Control.Machine Control.Debounce Control.Toggle Control.Filter Control.Watchdog.", ""]
    for rtype, sp in specs(repo):
        L.append(sp.definition(rtype))
        L.append(sp.lemma(rtype))
    return "\n".join(L)


def obligation(ctx):
    from .common import REPO
    name = "regen:ButtonDebouncer / Toggle / PeriodicFilter / SimpleWatchdog methods have the shape the translator recognises"
    try:
        text = coq(REPO)
    except Shape as e:
        ctx.obligation(name, False, str(e))
        return False
    except (SyntaxError, OSError, KeyError, IndexError, AttributeError) as e:
        ctx.obligation(name, False, repr(e))
        return False
    ctx.obligation(name, True, "")
    rc, out = ctx.coq_file("Gen_control", text)
    ctx.obligation("regen:Gen_control (18 methods and constructors translated from the source == Control/* model functions, for all states and inputs)",
                   rc == 0, out[-1500:])
    return rc == 0


if __name__ == "__main__":
    import sys
    print(coq(sys.argv[1] if len(sys.argv) > 1 else "/repo"))
