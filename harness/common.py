"""Shared machinery of the checks: Coq build/evaluation, obligations, evidence,
violation protocol, known findings.  Run with /venv/bin/python (the interpreter
that has /repo's dependencies); PYTHONPATH is forced to /repo by ./check."""
import fcntl
import hashlib
import json
import os
import random
import re
import shutil
import subprocess
import sys
import time

ROOT = os.path.dirname(os.path.dirname(os.path.abspath(__file__)))
REPO = os.environ.get("VERIF_REPO", "/repo")
COQ = os.path.join(ROOT, "coq")
THEORIES = os.path.join(COQ, "theories")
WORK = os.path.join(ROOT, "work" + os.environ.get("VERIF_WORKTAG", ""))      # VERIF_WORKTAG: a second check of the same property at the same time
EVID = os.path.join(ROOT, "evidence")
CORPUS = os.path.join(ROOT, "corpus")
LOGICAL = "RV"

FORBIDDEN = re.compile(
    r"\b(Admitted|admit|Axiom|Axioms|Parameter|Parameters|Conjecture|Conjectures|Admit Obligations)\b"
    r"|Unset Guard|bypass_check|type-in-type|impredicative-set|Unset Positivity|Unset Universe"
)

# axioms of the standard library (and of libraries shipped with it) that a
# property may depend on, per property; everything else must be closed.
# the kernel's primitive integers and floats (Print Assumptions lists the primitives a theorem computes with; they are not axioms of ours)
PRIMITIVES = {"PrimInt63.int", "PrimFloat.float", "PrimInt63.add", "PrimInt63.sub", "PrimInt63.mul", "PrimInt63.lsl", "PrimInt63.lsr",
              "PrimInt63.lor", "PrimInt63.land", "int", "float", "add", "sub", "mul", "lsl", "lsr", "lor", "land", "of_uint63", "PrimFloat.add", "PrimFloat.sub", "PrimFloat.mul",
              "PrimFloat.div", "PrimFloat.eqb", "PrimFloat.ltb", "PrimFloat.leb", "PrimFloat.of_uint63"}

ALLOWED_AXIOMS = {
    "C16": set(PRIMITIVES),
    "C17": {
        "ClassicalDedekindReals.sig_forall_dec",
        "ClassicalDedekindReals.sig_not_dec",
        "FunctionalExtensionality.functional_extensionality_dep",
        "Classical_Prop.classic",
    },
}

TRUSTED_BASE_COMMON = [
    "Coq 8.16.1 kernel incl. the vm_compute machine (no native_compute); full .vo build, no -vos",
    "hand-written Gallina model under /verif/coq/theories (modelled, not extracted from the Python source)",
    "correspondence harness /verif/harness (generators, scripted callbacks, canonicalisation, emission of cases_*.v)",
    "CPython 3.12, wpilib/HAL simulation, ntcore as exercised by the correspondence runs",
]


def sh(cmd, timeout=None, cwd=None, env=None):
    p = subprocess.run(cmd, shell=isinstance(cmd, str), cwd=cwd, env=env,
                       stdout=subprocess.PIPE, stderr=subprocess.STDOUT,
                       timeout=timeout, text=True)
    return p.returncode, p.stdout


class BuildLock:
    def __enter__(self):
        os.makedirs(WORK, exist_ok=True)
        self.f = open(os.path.join(ROOT, ".build.lock"), "w")
        fcntl.flock(self.f, fcntl.LOCK_EX)
        return self

    def __exit__(self, *a):
        fcntl.flock(self.f, fcntl.LOCK_UN)
        self.f.close()


def coq_make(jobs=16, timeout=1800):
    """Full .vo build of /verif/coq (incremental). Returns (ok, log)."""
    with BuildLock():
        if not os.path.exists(os.path.join(COQ, "Makefile")):
            rc, out = sh("coq_makefile -f _CoqProject -o Makefile", cwd=COQ, timeout=120)
            if rc != 0:
                return False, out
        rc, out = sh("timeout %d make -j%d 2>&1" % (timeout, jobs), cwd=COQ, timeout=timeout + 30)
        return rc == 0, out


def _scan_set(pid=None):
    """Files that count for the forbidden-token grep: everything listed in
    _CoqProject plus the property's own Properties file and the family
    directories it imports (so a family that is still being integrated is
    scanned by its own check, and nobody else's work in progress is)."""
    files = set()
    for line in open(os.path.join(COQ, "_CoqProject")):
        line = line.strip()
        if line.endswith(".v"):
            files.add(os.path.join(COQ, line))
    if pid:
        pf = os.path.join(THEORIES, "Properties", "%s.v" % pid)
        if os.path.exists(pf):
            files.add(pf)
            for fam in set(re.findall(r"\b(\w+)\.\w+", " ".join(re.findall(r"From RV Require (?:Import|Export)([^\n]*)", open(pf).read())))):
                d = os.path.join(THEORIES, fam)
                if os.path.isdir(d):
                    for f in os.listdir(d):
                        if f.endswith(".v"):
                            files.add(os.path.join(d, f))
    return sorted(files)


def forbidden_tokens(pid=None):
    """grep the development for anything that declares an axiom or disables a check."""
    hits = []
    for p in _scan_set(pid):
        if not os.path.exists(p):
            hits.append("%s: listed in _CoqProject but missing" % os.path.relpath(p, ROOT))
            continue
        txt = open(p).read()
        # strip comments (innermost first, repeatedly)
        prev = None
        while prev != txt:
            prev = txt
            txt = re.sub(r"\(\*(?:(?!\(\*|\*\)).)*\*\)", " ", txt, flags=re.S)
        for m in FORBIDDEN.finditer(txt):
            hits.append("%s: %s" % (os.path.relpath(p, ROOT), m.group(0)))
    return hits


def coqc(path, timeout=600, extra_q=(), out_vo=None, cwd=None):
    q = "-Q %s %s" % (THEORIES, LOGICAL)
    for d, l in extra_q:
        q += " -Q %s %s" % (d, l)
    o = (" -o %s" % out_vo) if out_vo else ""
    cmd = "timeout %d coqc %s%s %s 2>&1" % (timeout, q, o, path)
    rc, out = sh(cmd, timeout=timeout + 30, cwd=cwd)
    return rc, out


def parse_eval_lists(out):
    """All results of `Eval vm_compute in <list nat/Z expr>` printed by coqc, in order."""
    flat = re.sub(r"\s+", " ", out)
    res = []
    for m in re.finditer(r"= (\[[^\]]*\]|nil) : list", flat):
        body = m.group(1)
        if body == "nil" or body == "[]":
            res.append([])
        else:
            items = [x.strip() for x in body.strip("[]").split(";") if x.strip()]
            res.append([int(re.sub(r"%\w+", "", x).strip("() ")) for x in items])
    return res


class Ctx:
    def __init__(self, pid, tier, seed):
        self.pid = pid
        self.tier = tier
        self.seed = seed
        self.t0 = time.time()
        self.rng = random.Random(seed * 1000003 + int(hashlib.sha1(pid.encode()).hexdigest()[:6], 16))
        self.work = os.path.join(WORK, pid)
        shutil.rmtree(self.work, ignore_errors=True)
        os.makedirs(self.work, exist_ok=True)
        self.obligations = []     # (name, ok, detail)
        self.coverage = {}
        self.assumptions = []
        self.axioms_text = []
        self.known_printed = []
        self.dist = {}

    # ---- obligations ------------------------------------------------
    def obligation(self, name, ok, detail=""):
        self.obligations.append((name, bool(ok), detail))
        return ok

    def broken(self):
        return [(n, d) for (n, ok, d) in self.obligations if not ok]

    def count(self, key, k=1):
        self.dist[key] = self.dist.get(key, 0) + k

    # ---- proofs -----------------------------------------------------
    def prove(self, extra_files=()):
        """make the development, re-check Properties/<pid>.v and its axioms."""
        ok, log = coq_make()
        self.obligation("make:coq", ok, log[-2000:] if not ok else "")
        hits = forbidden_tokens(self.pid)
        self.obligation("grep:no-axiom-no-admit", not hits, "; ".join(hits))
        pf = os.path.join(THEORIES, "Properties", "%s.v" % self.pid)
        src = open(pf).read()
        thms = re.findall(r"^\s*(?:Theorem|Corollary)\s+(\w+)", src, re.M)
        asked = re.findall(r"^\s*Print Assumptions\s+(\w+)\s*\.", src, re.M)
        os.makedirs(os.path.join(self.work, "props"), exist_ok=True)
        rc, out = coqc(pf, out_vo=os.path.join(self.work, "props", "%s.vo" % self.pid))
        if rc != 0:
            for t in thms:
                self.obligation("theorem:%s" % t, False, out[-1500:])
            return False
        # every theorem must be asked about
        missing = [t for t in thms if t not in asked]
        self.obligation("assumptions-printed-for-every-theorem", not missing, ",".join(missing))
        blocks = re.split(r"(?=Closed under the global context|Axioms:)", out)
        blocks = [b for b in blocks if b.startswith("Closed") or b.startswith("Axioms:")]
        allowed = ALLOWED_AXIOMS.get(self.pid, set())
        good = len(blocks) == len(asked)
        for name, b in zip(asked, blocks):
            if b.startswith("Closed"):
                self.obligation("theorem:%s" % name, True)
                self.axioms_text.append("%s: Closed under the global context" % name)
            else:
                axs = re.findall(r"^([A-Za-z_][\w.']*)\s*:", b[len("Axioms:"):], re.M)
                bad = [a for a in axs if a not in allowed]
                self.obligation("theorem:%s" % name, not bad, "unexpected axioms: %s" % bad)
                self.axioms_text.append("%s: Axioms: %s" % (name, ", ".join(axs)))
        if not good:
            self.obligation("assumption-blocks-match", False,
                            "%d blocks for %d theorems" % (len(blocks), len(asked)))
        return not self.broken()

    # ---- evaluation inside Coq --------------------------------------
    def coq_file(self, name, text, timeout=900):
        """Write work/<pid>/<name>.v, compile it (logical path W), return (rc, out)."""
        p = os.path.join(self.work, name + ".v")
        with open(p, "w") as f:
            f.write(text)
        return coqc(p, timeout=timeout, extra_q=[(self.work, "W")])

    def coq_files_parallel(self, items, timeout=900, jobs=16):
        """items: list of (name, text). Compile in parallel; returns {name: (rc,out)}."""
        procs = {}
        res = {}
        pending = list(items)
        q = "-Q %s %s -Q %s W" % (THEORIES, LOGICAL, self.work)
        for name, text in items:
            with open(os.path.join(self.work, name + ".v"), "w") as f:
                f.write(text)
        running = []
        while pending or running:
            while pending and len(running) < jobs:
                name, _ = pending.pop(0)
                p = subprocess.Popen("timeout %d coqc %s %s 2>&1" % (timeout, q, os.path.join(self.work, name + ".v")),
                                     shell=True, stdout=subprocess.PIPE, stderr=subprocess.STDOUT, text=True)
                running.append((name, p))
            name, p = running.pop(0)
            out, _ = p.communicate()
            res[name] = (p.returncode, out)
        return res

    # ---- finishing --------------------------------------------------
    def evidence(self, violations, extra=None):
        obl = len(self.obligations)
        dis = sum(1 for (_, ok, _) in self.obligations if ok)
        cov = {
            "obligations": obl,
            "discharged": dis,
            "checker_cmd": "coq_makefile -f _CoqProject -o Makefile && make (coqc 8.16.1, full .vo); "
                           "coqc Properties/%s.v with Print Assumptions; coqc of the generated work/%s/*.v" % (self.pid, self.pid),
            "trusted_base": TRUSTED_BASE_COMMON + self.assumptions,
            "obligation_names": [n for (n, _, _) in self.obligations],
            "broken": [{"name": n, "detail": d[-600:]} for (n, ok, d) in self.obligations if not ok],
            "print_assumptions": self.axioms_text,
            "distribution": self.dist,
        }
        cov.update(self.coverage)
        if extra:
            cov.update(extra)
        ev = {
            "property_id": self.pid,
            "tier": self.tier,
            "seed": self.seed,
            "level": "proof",
            "coverage": cov,
            "assumptions": TRUSTED_BASE_COMMON + self.assumptions,
            "wall_s": round(time.time() - self.t0, 2),
            "violations": violations,
        }
        evid = EVID if os.path.realpath(REPO) == "/repo" else os.path.join(WORK, "evidence_other_repo")
        os.makedirs(evid, exist_ok=True)
        tmp = os.path.join(evid, "%s.json.tmp" % self.pid)
        with open(tmp, "w") as f:
            json.dump(ev, f, indent=1, default=str)
        os.replace(tmp, os.path.join(evid, "%s.json" % self.pid))

    def write_replay(self, obj):
        d = os.path.join(ROOT, "replays")
        os.makedirs(d, exist_ok=True)
        obj = dict(obj)
        obj.setdefault("property", self.pid)
        obj.setdefault("seed", self.seed)
        obj.setdefault("tier", self.tier)
        obj["rerun"] = "./check %s --replay <this file>" % self.pid
        h = hashlib.sha1(json.dumps(obj, sort_keys=True, default=str).encode()).hexdigest()[:10]
        p = os.path.join(d, "%s_%s.json" % (self.pid, h))
        with open(p, "w") as f:
            json.dump(obj, f, indent=1, default=str)
        return p

    def finish(self, search=None, oracle_violations=()):
        """Decide the run.

        oracle_violations: concrete failing inputs already found (list of dict with
        at least 'what' and 'fingerprint').  search: callable returning such a list,
        called only when an obligation broke and nothing concrete is known yet."""
        broken = self.broken()
        found = list(oracle_violations)
        if broken and not found and search is not None:
            try:
                found = list(search() or [])
            except Exception as e:  # the search must never hide the broken obligation
                import traceback
                found = []
                self.coverage["search_error"] = repr(e)
                sys.stderr.write("note: the counter-example search itself failed: %r\n%s\n" % (e, traceback.format_exc()[-1500:]))
        known = load_known()
        unlisted = []
        for v in found:
            k = match_known(known, self.pid, v)
            if k is not None:
                line = "KNOWN-FINDING: property=%s %s" % (self.pid, k["what"])
                if line not in self.known_printed:
                    print(line)
                    self.known_printed.append(line)
            else:
                unlisted.append(v)
        nviol = 0
        if unlisted:
            v = unlisted[0]
            v = dict(v)
            v["broken_obligations"] = [n for n, _ in broken]
            path = self.write_replay(v)
            print("VIOLATION property=%s replay=%s" % (self.pid, path))
            print("  what: %s" % v.get("what"))
            nviol = len(unlisted)
        elif broken:
            obj = {"kind": "obligation", "what": "proof obligation or correspondence no longer checks",
                   "broken_obligations": [{"name": n, "detail": d[-3000:]} for n, d in broken]}
            path = self.write_replay(obj)
            print("VIOLATION property=%s replay=%s no-failing-input-found" % (self.pid, path))
            for n, d in broken[:5]:
                print("  broken: %s" % n)
            nviol = 1
        self.evidence(nviol)
        if not getattr(self, "keep", False):
            shutil.rmtree(self.work, ignore_errors=True)
        return 1 if nviol else 0


def load_known():
    p = os.path.join(ROOT, "known_findings.json")
    if not os.path.exists(p):
        return []
    return json.load(open(p)).get("findings", [])


def match_known(known, pid, v):
    for k in known:
        if k.get("status") != "open":
            continue
        if k.get("property") == pid and k.get("fingerprint") and k["fingerprint"] == v.get("fingerprint"):
            return k
    return None


# ---- emitting Coq literals ------------------------------------------
def coq_list(items):
    return "[" + "; ".join(items) + "]"


def coq_bool(b):
    return "true" if b else "false"


def coq_Z(n):
    n = int(n)
    return "(%d)%%Z" % n if n < 0 else "%d%%Z" % n


def coq_N(n):
    n = int(n)
    assert n >= 0
    return "%d%%N" % n


def coq_nat(n):
    n = int(n)
    assert 0 <= n < 5000, "nat literal too large: %d" % n
    return "%d%%nat" % n


def coq_opt(x, f):
    return "None" if x is None else "(Some %s)" % f(x)


def coq_string(s):
    assert all(32 <= ord(c) < 127 for c in s), s
    return '"%s"%%string' % s.replace('"', '""')


def shards(lst, n):
    return [lst[i:i + n] for i in range(0, len(lst), n)]


class Hang(Exception):
    """the implementation did not return within the time limit (a non-terminating loop in the code under test)"""


class time_limit:
    """`with time_limit(5): impl_call()` -- raises Hang in the main thread when the call takes longer (SIGVTALRM; a no-op
    outside the main thread).  Generated cases are tiny: a call that needs seconds is a loop that does not terminate."""

    hangs = 0            # after a few hangs the limit shrinks: the cases are tiny, a healthy call takes well under a millisecond

    def __init__(self, seconds):
        self.seconds = seconds if time_limit.hangs < 3 else min(seconds, 0.25)
        self.armed = False

    def __enter__(self):
        import signal
        import threading
        if threading.current_thread() is threading.main_thread():
            def on_alarm(signum, frame):
                time_limit.hangs += 1
                raise Hang("no return within %s s of CPU time" % self.seconds)
            # CPU time of this process, not wall time: a loop that does not terminate burns CPU; a call that is merely not
            # scheduled on a loaded machine does not
            self.old = signal.signal(signal.SIGVTALRM, on_alarm)
            signal.setitimer(signal.ITIMER_VIRTUAL, self.seconds)
            self.armed = True
        return self

    def __exit__(self, *a):
        if self.armed:
            import signal
            signal.setitimer(signal.ITIMER_VIRTUAL, 0)
            signal.signal(signal.SIGVTALRM, self.old)
        return False
