"""C16: NotifierDelay's methods translated from the current source (harness/pytr.py) and proved equal to Delay.Model.
The HAL is part of the model's record: `alarm` (what updateNotifierAlarm programmed; None once stopNotifier ran) and
`released` (cleanNotifier calls); hal.waitForNotifierAlarm is Delay.Model.hal_wait."""
from .pytr import Spec, Shape, HEADER, paren

ND = ("mkND", [("delay_period", "period", "z"), ("_expiry_time", "expiry", "z"), ("_notifier", "live", "opt"),
               ("__alarm", "alarm", "z"), ("__released", "released", "z")])
PATH = "robotpy_ext/misc/precise_delay.py"


def eff_update(call, env, spec):
    env.fields["__alarm"] = "(Some %s)" % spec.expr(call.args[1], env)


def eff_stop(call, env, spec):
    env.fields["__alarm"] = "None"


def eff_clean(call, env, spec):
    env.fields["__released"] = "(S %s)" % paren(env.fields["__released"])


def eff_wait(call, env, spec):
    env.locs["__ghost"] = "(hal_wait %s now)" % paren(env.fields["__alarm"])


EFFECTS = {"hal.updateNotifierAlarm": eff_update, "hal.stopNotifier": eff_stop, "hal.cleanNotifier": eff_clean,
           "hal.waitForNotifierAlarm": eff_wait}


def specs(repo):
    sib = {"_update_alarm": 1, "free": 1}
    init = Spec(repo, PATH, "NotifierDelay", "__init__", ND, [("p", "Z"), ("t0", "Z")],
                {"round(delay_period * 1000000.0)": "p", "delay_period": "p", "wpilib.RobotController.getFPGATime()": "t0",
                 "hal.initializeNotifier()[0]": "true"},
                effects=EFFECTS, siblings=sib, result="state", model="create", gen="gen_create")
    init.guards = ("delay_period < 0.001",)
    # before __init__ runs the HAL holds nothing for this object
    init.pre_fields = {"__alarm": "None", "__released": "0%nat"}
    return [
        init,
        Spec(repo, PATH, "NotifierDelay", "wait", ND, [("now", "Z")], {}, effects=EFFECTS, siblings=sib, none_value="now",
             model="wait", gen="gen_wait"),
        Spec(repo, PATH, "NotifierDelay", "free", ND, [], {}, effects=EFFECTS, siblings=sib, result="state", model="free", gen="gen_free"),
        Spec(repo, PATH, "NotifierDelay", "__exit__", ND, [("exc", "bool")],
             {"exc_type": "exc", "exc_val": "exc", "exc_tb": "exc"}, effects=EFFECTS, siblings=sib, none_value="false",
             model="(fun d (exc : bool) => (free d, false))", unfold=["free"], gen="gen_exit"),
        Spec(repo, PATH, "NotifierDelay", "__del__", ND, [], {}, effects=EFFECTS, siblings=sib, result="state", model="free", gen="gen_del"),
        # __enter__: must be "returns self, state (object and HAL) unchanged".  The returned value is seen as the bool
        # "it is the object itself" (`self` -> true; falling off the end / None -> false; anything else is outside the
        # translator's subset and fails closed).  The clock is supplied so that a version that reads it translates and
        # is then REFUTED by the lemma instead of being rejected as an unknown shape.
        Spec(repo, PATH, "NotifierDelay", "__enter__", ND, [("now", "Z")],
             {"self": "true", "wpilib.RobotController.getFPGATime()": "now"}, effects=EFFECTS, siblings=sib, none_value="false",
             model="(fun d (now : Z) => enter d)", unfold=["enter"], gen="gen_enter"),
    ]


def coq(repo):
    L = [HEADER, "From RV Require Import Delay.Model.", ""]
    for sp in specs(repo):
        L.append(sp.definition("nd"))
        L.append(sp.lemma("nd"))
    return "\n".join(L)


def obligation(ctx):
    from .common import REPO
    name = "regen:NotifierDelay.__init__/wait/free/__enter__/__exit__/__del__ have the shape the translator recognises"
    try:
        text = coq(REPO)
    except Shape as e:
        ctx.obligation(name, False, str(e))
        return False
    except (SyntaxError, OSError, KeyError, IndexError, AttributeError) as e:
        ctx.obligation(name, False, repr(e))
        return False
    ctx.obligation(name, True, "")
    rc, out = ctx.coq_file("Gen_delay", text)
    ctx.obligation("regen:Gen_delay (NotifierDelay methods translated from the source == Delay.Model create/wait/free/enter/exit_, for all states and inputs)",
                   rc == 0, out[-1500:])
    return rc == 0


if __name__ == "__main__":
    import sys
    print(coq(sys.argv[1] if len(sys.argv) > 1 else "/repo"))
