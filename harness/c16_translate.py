"""C16: NotifierDelay's methods translated from the current source (harness/pytr.py) and proved equal to Delay.Model.
The HAL is part of the model's record: `alarm` (what updateNotifierAlarm programmed; None once stopNotifier ran) and
`released` (cleanNotifier calls); hal.waitForNotifierAlarm is Delay.Model.hal_wait.
wait() is also translated in two halves, split at its hal.waitForNotifierAlarm call (class WaitHalves), and proved equal to
Delay.Model.wait_begin / wait_end: what the second half does with the handle the first half had read, on an object that another
thread may have released meanwhile."""
import ast

from .pytr import Spec, Shape, Env, HEADER, paren, txt

ND = ("mkND", [("delay_period", "period", "z"), ("_expiry_time", "expiry", "z"), ("_notifier", "live", "opt"),
               ("__alarm", "alarm", "z"), ("__released", "released", "z")])
PATH = "robotpy_ext/misc/precise_delay.py"


def eff_update(call, env, spec):
    env.fields["__alarm"] = "(Some %s)" % spec.expr(call.args[1], env)


def eff_stop(call, env, spec):
    env.fields["__alarm"] = "None"


def eff_clean(call, env, spec):
    env.fields["__released"] = "(S %s)" % paren(env.fields["__released"])


def eff_wait(call, env, spec):
    env.locs["__ghost"] = "(hal_wait %s now)" % paren(env.fields["__alarm"])


EFFECTS = {"hal.updateNotifierAlarm": eff_update, "hal.stopNotifier": eff_stop, "hal.cleanNotifier": eff_clean,
           "hal.waitForNotifierAlarm": eff_wait}


class WaitHalves(Spec):
    """wait() split at its (one, top-level) hal.waitForNotifierAlarm call, for the two-thread model:
      gen_wait_begin self              : option bool   -- None: wait() returned before the HAL call; Some h: the call is
                                                          entered, h = the handle argument seen as "is not None"
      gen_wait_end self handle now     : nd * Z * bool -- the statements after the HAL call, run on the object as it is when
                                                          the call returns, with the first half's local variable (the handle
                                                          it had read) as a parameter; the bool: left by the TypeError of
                                                          hal.updateNotifierAlarm(None, ..)
    Fail-closed: a first half that writes the object or keeps any local other than the handle it read is rejected."""
    HAL_WAIT = "hal.waitForNotifierAlarm"
    HAL_UPDATE = "hal.updateNotifierAlarm"

    def __init__(self, repo):
        Spec.__init__(self, repo, PATH, "NotifierDelay", "wait", ND, [], {}, effects=EFFECTS,
                      siblings={"_update_alarm": 1, "free": 1})
        self.half = 0
        self.captured = None

    def fields0(self):
        return {py: "%s self" % proj for py, proj, _ in self.rec}

    def split(self):
        f = self.find("wait")
        if f.args.args[1:]:
            raise Shape("wait() takes parameters")
        body = list(f.body)
        at = [i for i, st in enumerate(body)
              if isinstance(st, ast.Expr) and isinstance(st.value, ast.Call) and txt(st.value.func) == self.HAL_WAIT]
        total = sum(1 for n in ast.walk(f) if isinstance(n, ast.Call) and txt(n.func) == self.HAL_WAIT)
        if len(at) != 1 or total != 1:
            raise Shape("wait() does not consist of statements, ONE top-level hal.waitForNotifierAlarm(..) call, statements")
        call = body[at[0]].value
        if len(call.args) != 1 or call.keywords:
            raise Shape("hal.waitForNotifierAlarm is not called with one positional argument")
        return body[:at[0]], call, body[at[0] + 1:]

    def special(self, s, env, go):
        if self.half == 2 and isinstance(s, ast.Expr) and isinstance(s.value, ast.Call) and txt(s.value.func) == self.HAL_UPDATE:
            c = s.value
            if len(c.args) != 2 or c.keywords:
                raise Shape("hal.updateNotifierAlarm is not called with two positional arguments")
            h = self.value(c.args[0], env, "opt")
            t = self.expr(c.args[1], env)
            e2 = env.copy()
            # Delay.Model.hal_update: nothing happens on a handle that has been cleaned
            e2.fields["__alarm"] = "(match %s with O => Some %s | S _ => None end)" % (paren(env.fields["__released"]), t)
            return "(if %s then %s else %s)" % (h, go(e2), self.emit3(env, "true"))
        return None

    def emit3(self, env, raised):
        return "(%s, %s, %s)" % (self.state_term(env), env.locs["__ghost"], raised)

    def begin_term(self):
        pre, call, _ = self.split()
        f0 = self.fields0()
        seen = []

        def at_call(env):
            if env.fields != f0:
                raise Shape("the first half of wait() writes the object")
            seen.append(dict(env.locs))
            return "(Some %s)" % paren(self.value(call.args[0], env, "opt"))

        def on_ret(env, v):
            if env.fields != f0:
                raise Shape("the first half of wait() writes the object")
            return "None"
        self.half = 1
        term = self.run(pre, Env(f0), at_call, on_ret)
        if not seen or any(x != seen[0] for x in seen):
            raise Shape("the local variables of wait() at its HAL call depend on the path taken")
        self.captured = seen[0]
        return term

    def end_term(self):
        _, _, post = self.split()
        self.begin_term()
        locs = {}
        for name, term in self.captured.items():
            if term != "live self":
                raise Shape("local variable %s of the first half of wait() is not the handle read from self._notifier" % name)
            locs[name] = "handle"
        env = Env(self.fields0(), locs)
        env.locs["__ghost"] = "(hal_wait %s now)" % paren(env.fields["__alarm"])    # hal.waitForNotifierAlarm(..) returns
        self.half = 2
        return self.run(post, env, lambda e: self.emit3(e, "false"), lambda e, v: self.emit3(e, "false"))

    def text(self):
        tac = ("Proof.\n  intros; destruct self; repeat (match goal with x : bool |- _ => destruct x end);\n"
               "  unfold %s; cbn;\n  repeat match goal with |- context [if ?b then _ else _] => destruct b eqn:? end;\n"
               "  repeat match goal with |- context [match ?n with O => _ | S _ => _ end] => destruct n end;\n"
               "  try reflexivity; try (exfalso; lia); try (repeat f_equal; lia).\nQed.\n")
        return "\n".join([
            "Definition gen_wait_begin (self : nd) : option bool :=\n  %s." % self.begin_term(),
            "Lemma src_gen_wait_begin : forall (self : nd), gen_wait_begin self = wait_begin self.",
            tac % "gen_wait_begin, wait_begin",
            "Definition gen_wait_end (self : nd) (handle : bool) (now : Z) : nd * Z * bool :=\n  %s." % self.end_term(),
            "Lemma src_gen_wait_end : forall (self : nd) (handle : bool) (now : Z), gen_wait_end self handle now = wait_end self handle now.",
            tac % "gen_wait_end, wait_end, hal_update, hal_wait"])


def specs(repo):
    sib = {"_update_alarm": 1, "free": 1}
    init = Spec(repo, PATH, "NotifierDelay", "__init__", ND, [("p", "Z"), ("t0", "Z")],
                {"round(delay_period * 1000000.0)": "p", "delay_period": "p", "wpilib.RobotController.getFPGATime()": "t0",
                 "hal.initializeNotifier()[0]": "true"},
                effects=EFFECTS, siblings=sib, result="state", model="create", gen="gen_create")
    init.guards = ("delay_period < 0.001",)
    # before __init__ runs the HAL holds nothing for this object
    init.pre_fields = {"__alarm": "None", "__released": "0%nat"}
    return [
        init,
        Spec(repo, PATH, "NotifierDelay", "wait", ND, [("now", "Z")], {}, effects=EFFECTS, siblings=sib, none_value="now",
             model="wait", gen="gen_wait"),
        Spec(repo, PATH, "NotifierDelay", "free", ND, [], {}, effects=EFFECTS, siblings=sib, result="state", model="free", gen="gen_free"),
        Spec(repo, PATH, "NotifierDelay", "__exit__", ND, [("exc", "bool")],
             {"exc_type": "exc", "exc_val": "exc", "exc_tb": "exc"}, effects=EFFECTS, siblings=sib, none_value="false",
             model="(fun d (exc : bool) => (free d, false))", unfold=["free"], gen="gen_exit"),
        Spec(repo, PATH, "NotifierDelay", "__del__", ND, [], {}, effects=EFFECTS, siblings=sib, result="state", model="free", gen="gen_del"),
        # __enter__: must be "returns self, state (object and HAL) unchanged".  The returned value is seen as the bool
        # "it is the object itself" (`self` -> true; falling off the end / None -> false; anything else is outside the
        # translator's subset and fails closed).  The clock is supplied so that a version that reads it translates and
        # is then REFUTED by the lemma instead of being rejected as an unknown shape.
        Spec(repo, PATH, "NotifierDelay", "__enter__", ND, [("now", "Z")],
             {"self": "true", "wpilib.RobotController.getFPGATime()": "now"}, effects=EFFECTS, siblings=sib, none_value="false",
             model="(fun d (now : Z) => enter d)", unfold=["enter"], gen="gen_enter"),
    ]


def coq(repo):
    L = [HEADER, "From RV Require Import Delay.Model.", ""]
    for sp in specs(repo):
        L.append(sp.definition("nd"))
        L.append(sp.lemma("nd"))
    # wait() in its two halves around the HAL call (the two-thread model: a release while a wait() is in progress)
    L.append(WaitHalves(repo).text())
    return "\n".join(L)


def obligation(ctx):
    from .common import REPO
    name = "regen:NotifierDelay.__init__/wait/free/__enter__/__exit__/__del__ have the shape the translator recognises"
    try:
        text = coq(REPO)
    except Shape as e:
        ctx.obligation(name, False, str(e))
        return False
    except (SyntaxError, OSError, KeyError, IndexError, AttributeError) as e:
        ctx.obligation(name, False, repr(e))
        return False
    ctx.obligation(name, True, "")
    rc, out = ctx.coq_file("Gen_delay", text)
    ctx.obligation("regen:Gen_delay (NotifierDelay methods translated from the source == Delay.Model create/wait/free/enter/exit_ and, wait() split at its HAL call, wait_begin/wait_end, for all states and inputs)",
                   rc == 0, out[-1500:])
    return rc == 0


if __name__ == "__main__":
    import sys
    print(coq(sys.argv[1] if len(sys.argv) > 1 else "/repo"))
