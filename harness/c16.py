"""C16: NotifierDelay keeps the loop on the fixed grid t0 + k*P.

Tie to the source (robotpy_ext/misc/precise_delay.py, run from $VERIF_REPO):

  * correspondence: the real NotifierDelay runs under the simulated HAL with
    simulated time paused.  A worker thread executes the generated operation
    list (body = the worker itself advances the FPGA clock by the generated
    duration; wait(); free(); leaving the with-block) and takes a snapshot after
    every operation: FPGA time, the alarm the HAL holds, number of
    cleanNotifier calls on the handle.  The with-block is entered either at the
    instant of construction (`with NotifierDelay(P) as d:`) or LATER
    (`d = NotifierDelay(P); <set-up work, maybe waits>; with d as e:`), and
    __enter__ is also called directly anywhere; after every __enter__ the same
    snapshot is taken (it must have changed nothing: the grid stays anchored at
    the construction instant) and whether it returned the object itself.  The
    operations of the block run on what `as` bound.  The with-block is left in every way
    Python has: running to its end, break, return, and an exception of several
    classes (Exception subclasses and BaseException-only ones) raised in the
    block; __exit__ is also called directly, with and without exception
    information.  For every __exit__ it is recorded whether the exception came
    out of the with-statement.  When a wait() is going to block (the
    HAL's alarm is in the future) the main thread -- and only then, and only
    after the HAL confirms that the worker is inside HAL_WaitForNotifierAlarm
    -- advances the clock EXACTLY to the alarm.  Nothing depends on wall-clock
    time; there is no tolerance anywhere.  The same operation lists are run by
    the model inside Coq (Delay.Model.case_ok) and compared there.
  * two threads: a wait() can also be run "in halves" (operations WB .. WE): a
    second, real thread (the loop thread) calls wait(); once the HAL confirms
    that it is blocked inside HAL_WaitForNotifierAlarm the driving thread goes
    on with the operations up to WE -- lets simulated time pass (always short
    of the alarm), enters the with-block, and above all RELEASES the object
    (free(), __exit__ directly, or really leaving the with-block) while the
    wait() is in progress, at a chosen simulated instant before the grid point --
    and at WE joins the loop thread (advancing the clock exactly to the alarm
    first when nobody released).  Recorded per such wait(): FPGA time of the
    call, FPGA time read by the loop thread itself right after wait() came back,
    whether it came back by an exception.  Compared in Coq with the two-thread
    model (Delay.Model.cpredict: WaitBegin / WaitEnd / Other).
  * period conversion, finite float part: the real constructor is called with
    the nearest double of n/10^6 for every whole microsecond n of the stated
    range and the period it programs into the HAL must be n.  That is a runtime
    sweep over a finite range (recorded under exhaustive_parts), not a theorem
    over floats; the model-level statement is C16_period_whole_us.
"""
import gc
import glob
import importlib
import json
import math
import os
import queue
import sys
import threading
import time
from fractions import Fraction

from .common import CORPUS, coq_Z, coq_list, parse_eval_lists, shards

NOALARM = 2 ** 64 - 1
HANG_S = 8.0                 # only ever waited out when the implementation hangs
SWEEP_LO, SWEEP_HI = 1000, 2000000


class WouldHang(BaseException):
    """waitForNotifierAlarm on an active notifier that has no alarm: never returns."""


class Abort(BaseException):
    """the main thread gave up on this worker"""


# How a with-block is left ("X" operations): ["X"] / ["X", "end"] the block runs to
# its end, "break", "return", "raise:<class>" an exception raised in the block.
# name -> (constructor of Delay.Model.exn, the Python class)
EXC = {
    "RuntimeError": ("RuntimeErr", RuntimeError),
    "ValueError": ("ValueErr", ValueError),
    "StopIteration": ("StopIter", StopIteration),
    "KeyboardInterrupt": ("KeyboardInt", KeyboardInterrupt),
    "SystemExit": ("SysExit", SystemExit),
    "GeneratorExit": ("GenExit", GeneratorExit),
}
HOWS = ["end", "break", "return"] + ["raise:%s" % k for k in EXC]


def how_of(o):
    return o[1] if len(o) > 1 else "end"


def make_exc(how):
    """the exception instance that leaves the block, None when it is left without one"""
    if how.startswith("raise:"):
        return EXC[how[6:]][1]("raised in the loop body")
    return None


def op_text(o):
    if o[0] == "B":
        return "body %d us" % o[1]
    if o[0] == "W":
        return "wait()"
    if o[0] == "F":
        return "free()"
    if o[0] == "E":
        return "__enter__ (entering the with-block)"
    if o[0] == "WB":
        return "wait() called by the loop thread (a second thread)"
    if o[0] == "WE":
        return "that wait() is back (the loop thread is joined)"
    h = how_of(o)
    if h.startswith("raise:"):
        return "leaving the with-block (__exit__) by a %s raised in the loop body" % h[6:]
    return "leaving the with-block (__exit__) by %s" % {"end": "running to its end"}.get(h, h)


class Sim:
    """The simulated HAL, timing paused; hal.* notifier entry points tapped."""

    TAPPED = ("waitForNotifierAlarm", "initializeNotifier", "cleanNotifier", "stopNotifier")

    def __init__(self):
        import hal
        import hal.simulation
        self.hal = hal
        self.hs = hal.simulation
        self.real = {}
        self.q = None
        self.enabled = False            # gates only the announcement of blocking waits
        self.inits = set()
        self.loop_ident = None          # the loop thread of a wait() run in halves (WB .. WE)
        self.loop_evt = threading.Event()   # set when that thread reaches hal.waitForNotifierAlarm, or has left wait()
        self.loop_in = None             # (clock, alarm or None) when it reached the HAL call
        self.slow = 0                   # releases after which the wait() in progress did not come back within 2 s
        self.reset(None)

    # -- clock ---------------------------------------------------------
    def now(self):
        return int(self.hal.getFPGATime()[0])

    def alarm(self):
        a = int(self.hs.getNextNotifierTimeout())
        return None if a == NOALARM else a

    def advance(self, us):
        if us:
            self.hs.stepTimingAsync(int(us))

    def restart(self, t0):
        self.hs.pauseTiming()
        self.hs.restartTiming()
        self.advance(t0)

    # -- tap -----------------------------------------------------------
    def reset(self, q):
        self.release_leftovers()
        self.q = q
        self.inits = set()              # every handle the implementation obtained since the last reset
        self.active = set()             # ... and has neither stopped nor cleaned
        self.cleans = 0
        self.stops = 0
        self.blocked = 0
        self.halwaits = 0

    def install(self):
        hal = self.hal
        for n in self.TAPPED:
            self.real[n] = getattr(hal, n)
        real = self.real

        def handle_of(a, k):
            return a[0] if a else k.get("notifierHandle")

        def t_init(*a, **k):
            r = real["initializeNotifier"](*a, **k)
            self.inits.add(r[0])
            self.active.add(r[0])
            return r

        def t_stop(*a, **k):
            h = handle_of(a, k)
            if h in self.inits:
                self.stops += 1
            self.active.discard(h)
            return real["stopNotifier"](*a, **k)

        def t_clean(*a, **k):
            h = handle_of(a, k)
            if h in self.inits:
                self.cleans += 1
            self.active.discard(h)
            return real["cleanNotifier"](*a, **k)

        def t_wait(*a, **k):
            if self.enabled:
                h = handle_of(a, k)
                self.halwaits += 1
                mine = threading.get_ident() == self.loop_ident
                if h in self.active:
                    t = self.now()
                    al = self.alarm()
                    if al is None:
                        raise WouldHang("waitForNotifierAlarm on an active notifier without alarm at t=%d" % t)
                    if mine:
                        # the loop thread of a wait() run in halves: the driving thread (not the main thread) looks after it
                        if al > t:
                            self.blocked += 1
                        self.loop_in = (t, al)
                        self.loop_evt.set()
                    elif al > t:
                        self.blocked += 1
                        self.q.put(("halwait", t, al))
                elif mine:
                    self.loop_in = (self.now(), None)
                    self.loop_evt.set()
            return real["waitForNotifierAlarm"](*a, **k)

        hal.initializeNotifier = t_init
        hal.stopNotifier = t_stop
        hal.cleanNotifier = t_clean
        hal.waitForNotifierAlarm = t_wait

    def remove(self):
        for n, f in self.real.items():
            setattr(self.hal, n, f)

    def release_leftovers(self):
        """Stop and clean (directly, uncounted) whatever the implementation left allocated."""
        for h in list(self.inits):
            try:
                self.real["stopNotifier"](h)
                self.real["cleanNotifier"](h)
            except Exception:
                pass
        self.inits = set()
        self.active = set()


def impl():
    """Fresh import of the implementation (after the tap is installed)."""
    for m in [k for k in sys.modules if k == "robotpy_ext.misc.precise_delay"]:
        del sys.modules[m]
    return importlib.import_module("robotpy_ext.misc.precise_delay").NotifierDelay


# ---------------------------------------------------------------------------
# driving one case
#
# case = {"n": whole microseconds or None, "P": float.hex of the constructor
#         argument, "t0": FPGA microseconds at construction, "with": bool,
#         "ops": [["B", us] | ["W"] | ["F"] | ["E"] | ["X"] | ["X", how]]}
# E = __enter__, X = __exit__.  In a "with" case the first E and the first X after it are a real
# with-statement: the operations before that E run on the freshly built object BEFORE the block is
# entered (set-up work: the clock moves between construction and entry; E at index 0 is the one-liner
# `with NotifierDelay(P) as d:`), the operations between them are the block, left the way `how`
# says (see HOWS; default "end").  Every other E / X is a direct call of __enter__() /
# __exit__ with the matching (exc_type, exc_val, exc_tb).  A "with" case whose first X is not
# preceded by an E (the older corpus and replay files) means the one-liner: norm() puts the E in front.
#
# Two threads: ["WB"] = a second thread (the loop thread) calls wait() -- the first half of wait() up to and into
# hal.waitForNotifierAlarm; ["WE"] = that call is back (second half: the loop thread is joined).  The operations between
# them are executed by the driving thread WHILE the wait() is in progress: B (time passes), E, and F / X -- the release
# during a wait().  valid() says which such lists the driver accepts (the loop thread must really be blocked, and stay
# so until the release or the WE).

def is_split(case):
    return any(o[0] in ("WB", "WE") for o in case["ops"])


def valid(case):
    """Is the operation list one the two-thread driver runs deterministically?  (The ideal arithmetic of the property
    decides whether a wait blocks; a list without WB/WE is always valid.)"""
    if not is_split(case):
        return True
    n, t0 = case["n"], case["t0"]
    if n is None or n < 1000:
        return False
    now, k, freed, pend = t0, 0, False, None
    for o in case["ops"]:
        if o[0] == "B":
            if o[1] < 0:
                return False
            if pend and not pend["dead"]:
                if pend["rel"] and o[1] > 0:
                    return False        # after the release the loop thread reads the clock: it stands still until WE
                if not pend["rel"] and now + o[1] >= pend["g"]:
                    return False        # the loop thread must stay blocked: short of its alarm
            now += o[1]
        elif o[0] == "W":
            if pend:
                return False
            if not freed:
                k += 1
                now = max(now, t0 + k * n)
        elif o[0] == "WB":
            if pend:
                return False
            if freed:
                pend = {"dead": True, "rel": True, "g": None}
            else:
                k += 1
                if now >= t0 + k * n:
                    return False        # would not block
                pend = {"dead": False, "rel": False, "g": t0 + k * n}
        elif o[0] == "WE":
            if not pend:
                return False
            if not pend["rel"]:
                now = pend["g"]
            pend = None
        elif o[0] in ("F", "X"):
            freed = True
            if pend:
                pend["rel"] = True
    return pend is None


def norm(case):
    """the case with the E of its with-statement made explicit (idempotent)"""
    if not case.get("with"):
        return case
    kinds = [o[0] for o in case["ops"]]
    if "X" in kinds and "E" not in kinds[:kinds.index("X")]:
        return dict(case, ops=[["E"]] + [list(o) for o in case["ops"]])
    return case


def with_span(case):
    """(index of the E, index of the X) of the real with-statement of a case, or None"""
    if not case.get("with"):
        return None
    kinds = [o[0] for o in case["ops"]]
    if "E" not in kinds:
        return None
    e = kinds.index("E")
    if "X" not in kinds[e + 1:]:
        return None
    return e, kinds.index("X", e + 1)


def case_P(case):
    return float.fromhex(case["P"])


def mk_case(n, t0, ops, use_with=False, P=None):
    P = (n / 1e6) if P is None else P
    return norm({"n": n, "P": float(P).hex(), "t0": int(t0), "with": bool(use_with), "ops": ops})


def drive(sim, cls, case):
    """`case` must be normalised (norm): results are per operation of case["ops"]"""
    P = case_P(case)
    ops = case["ops"]
    span = with_span(case)
    q = queue.Queue()
    sim.reset(q)
    sim.restart(case["t0"])
    res = {"ctor": None, "t0": sim.now(), "snap0": None, "snaps": [], "error": None, "split": []}
    if is_split(case) and not valid(case):
        res["error"] = "harness: not a list the two-thread driver accepts"
        return res
    if sim.hs.getNumNotifiers() != 0:
        res["error"] = "harness: %d stray active notifiers before the case" % sim.hs.getNumNotifiers()
        return res

    abort = threading.Event()   # set when the main thread gave up on this worker

    def snap():
        return [sim.now(), sim.alarm(), sim.cleans]

    pend = {}                   # "w": the wait() in progress (run in halves)
    loops = []                  # every loop thread started

    def begin_wait(d):
        """WB: a second thread -- the loop thread -- calls d.wait(); come back when it is inside HAL_WaitForNotifierAlarm
        (positively confirmed by the HAL) or has already left wait()"""
        w = {"call": sim.now(), "ret": None, "err": None, "done": threading.Event(), "blocked": False}

        def loop_thread():
            sim.loop_ident = threading.get_ident()
            try:
                d.wait()
            except BaseException as e:
                w["err"] = e
            w["ret"] = sim.now()        # read by the loop thread itself, right after wait() came back
            w["done"].set()
            sim.loop_evt.set()
        sim.loop_evt.clear()
        sim.loop_in = None
        w["thread"] = threading.Thread(target=loop_thread, daemon=True)
        pend["w"] = w
        loops.append(w["thread"])
        w["thread"].start()
        if not sim.loop_evt.wait(HANG_S / 2):
            res["error"] = "hang: wait() called by the loop thread at %d neither reached the HAL nor returned" % w["call"]
            raise Abort
        li = sim.loop_in
        if not w["done"].is_set() and li is not None and li[1] is not None and li[1] > li[0]:
            w["blocked"] = True
            if sim.hs.getNumNotifiers() == 1:
                sim.hs.stepTiming(0)    # returns once the (only) active notifier is inside HAL_WaitForNotifierAlarm
                res["confirmed"] = res.get("confirmed", 0) + 1
        else:
            w["done"].wait(HANG_S / 2)  # it does not block: let it finish

    def released():
        """after free() / __exit__ by this thread: if a wait() is in progress on the notifier that has just been stopped,
        the HAL is waking the loop thread; let it come back before the clock is touched again"""
        w = pend.get("w")
        if w and not w["done"].is_set() and not sim.active and sim.slow < 3:
            if not w["done"].wait(2.0):
                sim.slow += 1

    def end_wait():
        """WE: the wait() in progress comes back.  Nobody released: the clock goes exactly to the alarm first."""
        w = pend.pop("w")
        if not w["done"].is_set() and sim.active:
            now, al = sim.now(), sim.alarm()
            if al is None:
                res["error"] = "hang: the wait() in progress since %d waits on an active notifier without alarm" % w["call"]
                raise Abort
            if sim.hs.getNumNotifiers() == 1:
                sim.hs.stepTiming(0)
            sim.advance(max(0, al - now))
        if not w["done"].wait(HANG_S / 2):
            res["error"] = ("hang: the wait() in progress since %d has not come back (FPGA time %d, notifier %s)"
                            % (w["call"], sim.now(), "still armed" if sim.active else "stopped"))
            pend["w"] = w
            raise Abort
        w["thread"].join(HANG_S / 2)
        res["split"].append([w["call"], w["ret"], 1 if w["err"] is not None else 0])
        if w["err"] is not None:
            res["split_error"] = "%s: %s" % (type(w["err"]).__name__, str(w["err"]).split("\n")[0])
            raise w["err"]

    def run(d, part):
        for o in part:
            if abort.is_set():
                raise Abort
            if o[0] == "WB":
                begin_wait(d)
                res["snaps"].append(snap())
            elif o[0] == "WE":
                end_wait()
                res["snaps"].append(snap())
            elif o[0] == "B":
                sim.advance(o[1])
                res["snaps"].append(snap())
            elif o[0] == "W":
                d.wait()
                res["snaps"].append(snap())
            elif o[0] == "F":
                d.free()
                released()
                res["snaps"].append(snap())
            elif o[0] == "E":
                # __enter__ called directly (what contextlib.ExitStack.enter_context or a second with-statement on
                # the same object does): did it return the object itself
                ret = d.__enter__()
                res["snaps"].append(snap() + [1 if ret is d else 0])
            else:
                # X that is not the end of the with-statement of this case: __exit__ called the way
                # the with-statement (or contextlib.ExitStack) calls it; the exception comes out iff
                # there is one and __exit__ returned a false value
                exc = make_exc(how_of(o))
                if exc is None:
                    ret = d.__exit__(None, None, None)
                else:
                    ret = d.__exit__(type(exc), exc, exc.__traceback__)
                released()
                res["snaps"].append(snap() + [1 if (exc is not None and not ret) else 0])

    def with_statement(e, i):
        """e == 0: `with cls(P) as d:` around ops[1:i] (construction and entry at the same instant);
        e > 0: `obj = cls(P)`, ops[:e] on obj (set-up work), then `with obj as d:` around ops[e+1:i].
        The block is left the way ops[i] says; returns the object"""
        how = how_of(ops[i])
        exc = make_exc(how)
        holder = []

        def block(d):
            run(d, ops[e + 1:i])        # on what `as` bound
            return how

        def function_with_the_block():
            for _ in (0,):              # a loop around the with-statement, so that break can leave it
                if e == 0:
                    with cls(P) as d:
                        holder.append(d)
                        res["ctor"] = "ok"
                        res["snap0"] = snap()
                        # the object itself is not reachable here except through d: its class is all that can be checked
                        res["snaps"].append(snap() + [1 if type(d) is cls else 0])
                        h = block(d)
                        if h == "break":
                            break
                        if h == "return":
                            return
                        if exc is not None:
                            raise exc
                else:
                    obj = cls(P)
                    holder.append(obj)
                    res["ctor"] = "ok"
                    res["snap0"] = snap()
                    run(obj, ops[:e])   # before the with-block is entered
                    with obj as d:
                        res["snaps"].append(snap() + [1 if d is obj else 0])
                        h = block(d)
                        if h == "break":
                            break
                        if h == "return":
                            return
                        if exc is not None:
                            raise exc
        came_out = False
        try:
            function_with_the_block()
        except BaseException as e:
            if e is not exc:
                raise
            came_out = True
        # exc -> traceback -> this frame -> exc is a reference cycle that would keep the object alive until
        # some later garbage collection: break it, so that the object dies with the worker's frames
        exc = None
        released()
        res["snaps"].append(snap() + [1 if came_out else 0])
        return holder.pop()

    def body():
        if span:
            d = with_statement(*span)
            run(d, ops[span[1] + 1:])
        else:
            d = cls(P)
            res["ctor"] = "ok"
            res["snap0"] = snap()
            run(d, ops)

    def worker():
        try:
            body()
        except ValueError as e:
            if res["ctor"] is None:
                res["ctor"] = "ValueError"
            else:
                res["error"] = "ValueError: %s" % e
        except WouldHang as e:
            res["error"] = "hang: %s" % e
        except Abort:
            pass
        except BaseException as e:
            res["error"] = "%s: %s" % (type(e).__name__, e)
        finally:
            q.put(("done",))

    sim.enabled = True
    th = threading.Thread(target=worker, daemon=True)
    th.start()
    while True:
        try:
            m = q.get(timeout=HANG_S)
        except queue.Empty:
            res["error"] = "hang: no progress for %.0f s of wall time after %d operations" % (HANG_S, len(res["snaps"]))
            abort.set()
            sim.release_leftovers()     # wakes a worker that is stuck inside the HAL
            break
        if m[0] == "done":
            break
        # the worker announced a wait() that must block until FPGA time m[2]
        if sim.hs.getNumNotifiers() == 1:
            sim.hs.stepTiming(0)        # returns once the (only) active notifier is inside HAL_WaitForNotifierAlarm
            res["confirmed"] = res.get("confirmed", 0) + 1
        if sim.now() != m[1]:
            res["error"] = "harness: clock moved while a wait was outstanding"
        sim.advance(max(0, m[2] - sim.now()))   # exactly to the alarm, never beyond
    th.join(timeout=HANG_S)
    if any(t.is_alive() for t in loops):
        sim.release_leftovers()         # a loop thread is still inside the HAL: stopping its notifier wakes it
        for t in loops:
            t.join(timeout=2.0)
    sim.loop_ident = None
    sim.enabled = False
    res["blocked"] = sim.blocked
    if sim.active:
        # the implementation left its notifier allocated.  Its object must be finalised NOW (__del__ -> free()
        # on the handle it still holds), not by some later garbage collection during another case whose
        # notifier has been given the same handle value.
        gc.collect()
    sim.release_leftovers()
    return res


# ---------------------------------------------------------------------------
# the property, stated directly over observations (search/replay only)

def oracle(case, res):
    """List of (fingerprint, text) of property clauses that fail on this run."""
    out = []
    n = case["n"]
    P = case_P(case)
    if n is None or n < 1000:
        return out
    if res["ctor"] != "ok":
        return [("constructor-raised", "NotifierDelay(%r) raised %s (period %d us >= 1 ms)" % (P, res["ctor"] or res["error"], n))]
    t0 = res["t0"]
    prev = res["snap0"]
    k = 0
    freed = False
    rel = None
    ent = ""                    # set once a with-block has been entered after the construction instant
    span = with_span(case)
    ops = case["ops"]
    splits = [list(x) for x in res.get("split", [])]
    pw = None                   # the wait() in progress (run in halves)
    for i, o in enumerate(ops):
        if i >= len(res["snaps"]):
            break
        cur = res["snaps"][i]
        if o[0] == "WB":
            pw = {"i": i, "call": prev[0], "freed": freed, "rel": None, "k": None, "g": None}
            if not freed:
                k += 1
                pw["k"], pw["g"] = k, t0 + k * n
                if prev[1] != pw["g"]:
                    out.append(("alarm-off-grid", "op %d: the alarm armed for wait %d is %s, the grid point t0+%d*P is %d (t0=%d, P=%d us)"
                                % (i, k, prev[1], k, pw["g"], t0, n)))
        if o[0] == "WE" and pw is not None and splits:
            call, ret, raised = splits.pop(0)
            if raised:
                pass                    # reported below (wait-in-progress-raised)
            elif pw["freed"]:
                if ret != call:
                    out.append(("wait-after-free-blocked", "op %d: wait() called at %d by the loop thread, after %s, did not return immediately: it came back at %d"
                                % (pw["i"], call, rel, ret)))
            elif pw["rel"] is not None:
                ri, rt, rtext = pw["rel"]
                if ret != rt:
                    out.append(("wait-in-progress-not-released",
                                "op %d: wait %d was in progress (called at %d by the loop thread, its grid point t0+%d*P = %d still ahead) when another "
                                "thread did %s at %d (op %d); it did not return at that instant but at %d"
                                % (pw["i"], pw["k"], call, pw["k"], pw["g"], rtext, rt, ri, ret)))
            else:
                g, kk, at = pw["g"], pw["k"], prev[0]       # at: the clock when the driving thread turned to the wait again
                if ret < g:
                    out.append(("wait-returned-early", "op %d: wait %d called at %d (loop thread) returned at %d, %d us before t0+%d*P = %d (t0=%d, P=%d us)%s"
                                % (pw["i"], kk, call, ret, g - ret, kk, g, t0, n, ent)))
                elif at <= g and ret != g:
                    out.append(("wait-not-exact", "op %d: wait %d called on time at %d (loop thread; the other thread was busy until %d) returned at %d, not at t0+%d*P = %d%s"
                                % (pw["i"], kk, call, at, ret, kk, g, ent)))
                if cur[1] != g + n:
                    out.append(("alarm-off-grid", "op %d: after wait %d the next alarm is %s, the grid point t0+%d*P is %d"
                                % (i, kk, cur[1], kk + 1, g + n)))
            pw = None
        if o[0] == "E":
            # entering the with-block -- at the construction instant or any time later -- is no clause of its own:
            # the grid below stays t0 + k*P with t0 the instant of CONSTRUCTION.  Only the bookkeeping is stated here.
            if cur[0] > t0 and not ent:
                ent = " (the object was built at %d, %s at %d, %d us later)" % (
                    t0, "its with-block entered" if (span and i == span[0]) else "__enter__() called on it", cur[0], cur[0] - t0)
            kn = k if (pw is not None and not pw["freed"]) else k + 1     # a wait in progress: its own alarm is still the one armed
            if not freed and cur[1] != t0 + kn * n:
                out.append(("alarm-off-grid", "op %d: after __enter__ at %d the alarm for wait %d is %s, the grid point t0+%d*P is %d (t0=%d, P=%d us)"
                            % (i, cur[0], kn, cur[1], kn, t0 + kn * n, t0, n)))
        if o[0] == "W":
            call, ret = prev[0], cur[0]
            if not freed:
                k += 1
                g = t0 + k * n
                if prev[1] != g:
                    out.append(("alarm-off-grid", "op %d: the alarm armed for wait %d is %s, the grid point t0+%d*P is %d (t0=%d, P=%d us)"
                                % (i, k, prev[1], k, g, t0, n)))
                if ret < g:
                    out.append(("wait-returned-early", "op %d: wait %d called at %d returned at %d, %d us before t0+%d*P = %d (t0=%d, P=%d us)%s"
                                % (i, k, call, ret, g - ret, k, g, t0, n, ent)))
                elif call <= g and ret != g:
                    out.append(("wait-not-exact", "op %d: wait %d called on time at %d returned at %d, not at t0+%d*P = %d%s"
                                % (i, k, call, ret, k, g, ent)))
                elif call > g and ret != call:
                    out.append(("overrun-not-caught-up", "op %d: wait %d was called at %d, after its grid point t0+%d*P = %d, and still "
                                "blocked until %d: the schedule has shifted instead of catching up%s" % (i, k, call, k, g, ret, ent)))
                if cur[1] != g + n:
                    out.append(("alarm-off-grid", "op %d: after wait %d the next alarm is %s, the grid point t0+%d*P is %d"
                                % (i, k, cur[1], k + 1, g + n)))
            else:
                if ret != call:
                    out.append(("wait-after-free-blocked", "op %d: wait() called at %d, after %s, did not return immediately: it blocked until %d"
                                % (i, call, rel, ret)))
        elif o[0] in ("F", "X"):
            # free(), and leaving the with-block in ANY way (end of block, break, return, exception)
            if not freed:
                rel = "%s (op %d)" % (op_text(o), i)
            if pw is not None and not pw["freed"] and pw["rel"] is None:
                pw["rel"] = (i, cur[0], op_text(o))
            freed = True
        if freed:
            if cur[1] is not None:
                out.append(("notifier-armed-after-free", "op %d: after %s the notifier is not released: the HAL still holds its alarm at %d"
                            % (i, rel, cur[1])))
            if cur[2] != 1:
                out.append(("handle-not-released-once", "op %d: after %s cleanNotifier was called %d times on the handle (must be exactly once)"
                            % (i, rel, cur[2])))
        prev = cur
    if res.get("split_error") and pw is not None:
        if pw["rel"] is not None:
            why = ("when another thread did %s at FPGA time %d (op %d): instead of returning at that instant it raised"
                   % (pw["rel"][2], pw["rel"][1], pw["rel"][0]))
        else:
            why = "(nobody had released the object): it raised"
        out.append(("wait-in-progress-raised", "op %d: wait() called at %d by the loop thread%s was in progress %s %s"
                    % (pw["i"], pw["call"], "" if pw["g"] is None else " (wait %d, grid point t0+%d*P = %d)" % (pw["k"], pw["k"], pw["g"]),
                       why, res["split_error"])))
    elif res["error"]:
        out.append(("exception" if not res["error"].startswith("hang") else "hang",
                    "after %d of %d operations: %s" % (len(res["snaps"]), len(ops), res["error"])))
    # observable timing clauses first, the alarm bookkeeping last
    rank = {"wait-returned-early": 0, "wait-not-exact": 1, "overrun-not-caught-up": 1, "wait-after-free-blocked": 2,
            "wait-in-progress-raised": 2, "wait-in-progress-not-released": 2, "hang": 3, "exception": 4,
            "handle-not-released-once": 5, "notifier-armed-after-free": 6, "alarm-off-grid": 7}
    out.sort(key=lambda f: rank.get(f[0], 9))
    return out


# ---------------------------------------------------------------------------
# generators

def below_doubles(lo, hi):
    """whole-microsecond periods whose nearest double, times 1e6, truncates to n-1"""
    return [n for n in range(lo, hi + 1) if int((n / 1e6) * 1e6) != n]


def edge_cases():
    W, F, X = ["W"], ["F"], ["X"]

    def loop(bodies):
        ops = []
        for b in bodies:
            ops += [["B", b], W]
        return ops
    cs = []
    # the D8 witness: double below 1001 us, 12 on-time waits
    cs.append(mk_case(1001, 0, loop([0] * 12) + [F]))
    cs.append(mk_case(1001, 7, loop([1001, 1000, 1002, 0, 5005, 1, 1001]) + [F], use_with=False))
    # the example of Properties/C16.v
    cs.append(mk_case(20000, 500000, loop([5000, 50000, 1000, 1000, 20000, 0]) + [F]))
    # exactly on the grid point, one microsecond before/after it
    cs.append(mk_case(20000, 0, loop([20000, 20000, 19999, 1, 20001, 19999, 20000]) + [F]))
    # minimum period, overruns of exactly 1..5 periods
    cs.append(mk_case(1000, 123, loop([1000, 2000, 0, 3000, 0, 0, 4000, 0, 0, 0, 5000, 0, 0, 0, 0, 999]) + [F]))
    # 1 s period, t0 above 2^32 us
    cs.append(mk_case(1000000, 2 ** 32 + 17, loop([999999, 1000001, 0, 5000000, 1, 1, 1, 1, 1, 999990]) + [F]))
    # free twice, wait after free, then the with-block ends
    cs.append(mk_case(20000, 500000, [["B", 1000], W, ["B", 3000], F, W, F, ["B", 7000], W, X, W, F], use_with=True))
    # with-block only, wait after it
    cs.append(mk_case(5000, 0, loop([100, 6000, 100]) + [X, ["B", 100000], W, W], use_with=True))
    # free before any wait
    cs.append(mk_case(10000, 10, [F, W, ["B", 50000], W, F]))
    # wait without any body in between
    cs.append(mk_case(2000, 0, [W, W, W, ["B", 10000], W, W, W, W, W, W, W, F]))
    # the with-block left in every way Python has, while the next alarm is still in the future; then a
    # wait 100 us later (it would block until that alarm if the notifier had stayed armed), and free()
    for h in HOWS:
        cs.append(mk_case(20000, 500000, loop([5000, 20000]) + [["B", 5000], ["X", h], ["B", 100], W, W, F], use_with=True))
    # ... left by an exception before the first wait / in the first microsecond / after an overrun (late) /
    # exactly on a grid point
    cs.append(mk_case(20000, 0, [["X", "raise:RuntimeError"], W], use_with=True))
    cs.append(mk_case(1000, 0, [["B", 1], ["X", "raise:KeyboardInterrupt"], W, ["B", 5000], W], use_with=True))
    cs.append(mk_case(5000, 77, loop([100, 17000]) + [["X", "raise:SystemExit"], W, ["B", 100000], W, F, W], use_with=True))
    cs.append(mk_case(5000, 77, loop([100, 4900]) + [["B", 5000], ["X", "raise:ValueError"], W, X, W], use_with=True))
    # __exit__ called directly with exception information; again after the with-block; after free()
    cs.append(mk_case(10000, 10, loop([2000]) + [["X", "raise:GeneratorExit"], ["B", 1000], W, ["X", "end"], W]))
    cs.append(mk_case(10000, 10, loop([2000, 30000]) + [["X", "break"], W, ["X", "raise:StopIteration"], ["B", 50000], W], use_with=True))
    cs.append(mk_case(10000, 10, [F, ["X", "raise:RuntimeError"], W, ["B", 50000], W, ["X", "return"]]))
    # the object is built first and its with-block entered LATER (set-up work in between): the grid stays the one of
    # the construction instant.  The example of Properties/C16.v (C16_nv_entered_late), both halves
    E = ["E"]
    cs.append(mk_case(20000, 500000, [["B", 7000], E] + loop([5000, 50000, 1000, 1000]) + [["X", "raise:RuntimeError"], ["B", 100], W], use_with=True))
    cs.append(mk_case(20000, 500000, [["B", 30000], E] + loop([0, 1000]) + [X], use_with=True))
    # entered 1 us after construction, minimum period; entered P-1 us after, first wait exactly on the grid point;
    # entered exactly one period / several periods after construction
    cs.append(mk_case(1000, 0, [["B", 1], E] + loop([0, 999, 500]) + [X, W], use_with=True))
    cs.append(mk_case(20000, 0, [["B", 19999], E] + loop([1, 5000, 5000]) + [["X", "break"]], use_with=True))
    cs.append(mk_case(5000, 77, [["B", 5000], E] + loop([0, 0, 4999, 1]) + [["X", "return"], W], use_with=True))
    cs.append(mk_case(5000, 77, [["B", 17500], E] + loop([0, 0, 0, 0, 2500, 5000]) + [X], use_with=True))
    # for every way of leaving: entered half a period late, two iterations
    for h in HOWS:
        cs.append(mk_case(10000, 2 ** 32 + 5, [["B", 5000], E] + loop([1000, 9000]) + [["B", 100], ["X", h], ["B", 100], W], use_with=True))
    # waits before the block is entered; the block entered without any set-up time but after a wait
    cs.append(mk_case(20000, 0, [["B", 3000], W, ["B", 2000], E] + loop([1000, 1000]) + [X, W], use_with=True))
    cs.append(mk_case(20000, 0, [W, E] + loop([1000, 45000, 0, 0]) + [X, W], use_with=True))
    # __enter__ called directly in the middle of a plain loop (early, late); after free(); the same object in a
    # second with-statement after the first one released it
    cs.append(mk_case(10000, 10, loop([5000]) + [["B", 3000], E] + loop([1000, 1000]) + [["B", 25000], E, W, W, F]))
    cs.append(mk_case(10000, 10, [F, E, W, ["B", 50000], E, W]))
    cs.append(mk_case(10000, 10, [["B", 1000], E] + loop([1000]) + [X, ["B", 5000], E, W, X, W], use_with=True))
    # ---- two threads: the object is released WHILE a wait() on it is in progress (how a timed loop running in its own
    # thread is shut down).  WB = the loop thread calls wait() and blocks, WE = that wait() is back.
    WB, WE = ["WB"], ["WE"]
    # the example of Properties/C16.v (C16_nv_release_during_wait)
    cs.append(mk_case(20000, 500000, [["B", 5000], WB, WE, ["B", 3000], WB, ["B", 4000], F, F, WE,
                                      ["B", 100], WB, ["B", 50], WE, W, X]))
    # released at the very instant the wait began; 1 us before its grid point; the first wait of all, t0 above 2^32
    cs.append(mk_case(20000, 0, loop([100]) + [["B", 100], WB, F, WE, W]))
    cs.append(mk_case(20000, 0, [WB, ["B", 19999], F, WE, ["B", 1], W, W]))
    cs.append(mk_case(1000, 2 ** 32 + 17, [WB, ["B", 1], F, WE, W, F]))
    # after an overrun that has been caught up, minimum period
    cs.append(mk_case(1000, 123, [["B", 3500], W, W, W, WB, ["B", 377], F, WE, W, ["B", 5000], W]))
    # the with-block left, in every way Python has, while the loop thread is inside wait()
    for h in HOWS:
        cs.append(mk_case(20000, 500000, loop([5000, 20000]) + [["B", 5000], WB, ["B", 3000], ["X", h], WE, ["B", 100], W, W, F], use_with=True))
    # ... a with-block entered late; __exit__ called directly with exception information; __enter__ by the other thread
    # while the loop thread waits; free() several times, __exit__ after free(), all before the wait() is back
    cs.append(mk_case(10000, 77, [["B", 2500], E] + loop([1000, 12000, 0]) + [WB, ["B", 1], ["X", "raise:KeyboardInterrupt"], WE, W], use_with=True))
    cs.append(mk_case(10000, 10, loop([2000]) + [["B", 100], WB, ["B", 7899], ["X", "raise:SystemExit"], WE, ["B", 1000], W, ["X", "end"], W]))
    cs.append(mk_case(5000, 0, [WB, ["B", 10], E, ["B", 10], F, F, ["X", "raise:RuntimeError"], E, WE, W, F]))
    # nobody releases: the other thread is busy / enters a with-block while the loop thread waits: the grid is undisturbed
    cs.append(mk_case(20000, 500000, [["B", 5000], WB, WE, ["B", 3000], WB, ["B", 4000], E, WE, ["B", 30000], W, WB, ["B", 1000], WE, F]))
    cs.append(mk_case(1000, 5, [WB, ["B", 999], WE, WB, WE, WB, ["B", 1], WE, ["B", 2500], W, W, WB, ["B", 499], WE, F]))
    # the loop thread calls wait() on an object that has already been released
    cs.append(mk_case(10000, 10, [F, WB, ["B", 500], WE, W, WB, ["X", "end"], WE]))
    return cs


def malformed_cases():
    out = []
    for P in [math.nextafter(0.001, 0.0), 0.000999, 0.0005, 0.0, -0.02, 0.0009995]:
        out.append({"n": None, "P": float(P).hex(), "t0": 1000, "with": False, "ops": [["W"], ["F"]]})
    # not whole microseconds (outside the property's domain, inside the model's)
    for n, fr in [(1500, 0.25), (20000, 0.75), (1000, 0.25), (333333, 0.25)]:
        P = (n + fr) / 1e6
        out.append({"n": None, "P": float(P).hex(), "t0": 0, "with": False,
                    "ops": [["B", 10], ["W"], ["B", 3 * n], ["W"], ["W"], ["F"]]})
    return out


def gen_case(r, below):
    u = r.random()
    if u < 0.30:
        n = r.choice(below)
    elif u < 0.42:
        n = r.choice([1000, 1001, 1004, 2000, 5000, 10000, 20000, 100000, 250000, 999999, 1000000])
    elif u < 0.75:
        n = r.randrange(1000, 100001)
    else:
        n = r.randrange(100000, 1000001)
    t0 = r.choice([0, 1, r.randrange(10 ** 7), r.randrange(10 ** 7), r.randrange(10 ** 9),
                   2 ** 32 + r.randrange(10 ** 6), 2 ** 31 - 1 - r.randrange(3 * n)])
    nw = r.randrange(5, 41)
    mood = r.choice(["on-time", "mixed", "mixed", "burst", "burst", "burst", "overrun", "zero"])
    use_with = r.random() < 0.4
    free_at = nw if r.random() < 0.65 else max(r.randrange(0, nw + 1), r.randrange(0, nw + 1))
    ops = []
    now, k, freed = t0, 0, False
    if use_with:
        # half of the with-statements are entered some time AFTER the object was built (set-up work, now and then
        # with a wait in it), the others at the construction instant (the one-liner)
        if r.random() < 0.5:
            v = r.random()
            if v < 0.4:
                su = r.randrange(1, n)
            elif v < 0.5:
                su = n
            elif v < 0.75:
                su = r.randrange(n, 4 * n + 1)
            else:
                su = r.choice([1, n - 1, n + 1, 2 * n, n // 2])
            ops.append(["B", su])
            now += su
            if r.random() < 0.2:
                ops.append(["W"])
                k += 1
                now = max(now, t0 + n)
                if r.random() < 0.5:
                    b = r.randrange(0, n)
                    ops.append(["B", b])
                    now += b
        ops.append(["E"])
    entry = len(ops)            # operations before this index are not inside the with-block
    for i in range(nw):
        if i == free_at:
            ops.append(["F"])
            freed = True
            if r.random() < 0.3:
                ops.append(["F"])
        g = t0 + (k + 1) * n
        slack = g - now
        v = r.random()
        if mood == "zero":
            b = 0 if v < 0.8 else r.randrange(0, 3 * n)
        elif mood == "on-time":
            b = r.randrange(0, n) if v < 0.7 else (max(slack, 0) if v < 0.85 else (n if v < 0.95 else 0))
        elif mood == "burst":           # mostly short bodies, now and then a long one: overrun, then catch-up
            b = r.randrange(n, 4 * n + 1) if v < 0.15 else (r.randrange(0, n // 2 + 1) if v < 0.9 else max(slack, 0))
        elif mood == "overrun":
            b = r.randrange(n, 5 * n + 1) if v < 0.5 else (r.randrange(1, 6) * n if v < 0.65 else r.randrange(0, n))
        else:
            if v < 0.35:
                b = r.randrange(0, n)
            elif v < 0.45:
                b = n
            elif v < 0.6:
                b = max(slack + r.choice([-1, 0, 0, 1]), 0)
            elif v < 0.7:
                b = 0
            elif v < 0.8:
                b = r.randrange(1, 6) * n
            else:
                b = r.randrange(n, 5 * n + 1)
        if v > 0.03 or b:
            ops.append(["B", b])
            now += b
        ops.append(["W"])
        if not freed:
            k += 1
            now = max(now, g)
    if use_with:
        j = len(ops) if r.random() < 0.6 else r.randrange(entry, len(ops) + 1)
        ops.insert(j, ["X", gen_how(r)])
        if r.random() < 0.5:
            ops += [["B", r.randrange(0, 2 * n)], ["W"]]
        if r.random() < 0.15:           # the same object in a second with-statement / __exit__ again
            if r.random() < 0.5:
                ops.append(["E"])
            ops.append(["X", gen_how(r)])
        if r.random() < 0.2:
            ops.append(["F"])
        if r.random() < 0.1:            # __enter__ once more, anywhere after the first (nested with on the same object)
            ops.insert(r.randrange(entry, len(ops) + 1), ["E"])
    else:
        if r.random() < 0.3:            # __exit__ called directly (ExitStack, a wrapper), anywhere
            ops.insert(r.randrange(0, len(ops) + 1), ["X", gen_how(r)])
        if r.random() < 0.2:            # __enter__ called directly (ExitStack.enter_context), anywhere
            ops.insert(r.randrange(0, len(ops) + 1), ["E"])
        if not any(o[0] in ("F", "X") for o in ops):
            ops.append(["F"])
        if r.random() < 0.3:
            ops += [["W"], ["F"]] if r.random() < 0.5 else [["B", r.randrange(0, 2 * n)], ["W"]]
    return mk_case(n, t0, ops, use_with)


def weave(r, case, shutdown):
    """The same use with a second thread: some waits that block are run in halves (the other thread lets time pass or
    enters a with-block meanwhile), and -- `shutdown` -- the first release (free() / leaving the with-block / __exit__)
    happens WHILE the loop thread is inside wait(), at a random instant before the grid point of that wait."""
    n, t0 = case["n"], case["t0"]
    if n is None:
        return case
    now, k, freed = t0, 0, False
    out = []
    for o in case["ops"]:
        if o[0] == "B":
            now += o[1]
            out.append(o)
        elif o[0] == "W":
            if freed:
                if r.random() < 0.3:
                    out.append(["WB"])
                    if r.random() < 0.5:
                        b = r.randrange(0, n)
                        out.append(["B", b])
                        now += b
                    out.append(["WE"])
                else:
                    out.append(o)
                continue
            g = t0 + (k + 1) * n
            if now < g and r.random() < 0.25:
                c = r.choice([0, 1, g - now - 1, r.randrange(0, g - now)])
                out.append(["WB"])
                if c:
                    out.append(["B", c])
                if r.random() < 0.2:
                    out.append(["E"])
                out.append(["WE"])
            else:
                out.append(o)
            k += 1
            now = max(now, g)
        elif o[0] in ("F", "X") and not freed:
            if shutdown:
                while now >= t0 + (k + 1) * n:      # catch up first: the wait in which the release falls must block
                    out.append(["W"])
                    k += 1
                slack = t0 + (k + 1) * n - now
                c = r.choice([0, 1, slack - 1, r.randrange(0, slack), r.randrange(0, slack)])
                out.append(["WB"])
                k += 1
                if c:
                    out.append(["B", c])
                    now += c
                if r.random() < 0.15:
                    out.append(["E"])
                out.append(o)
                if r.random() < 0.3:
                    out.append(r.choice([["F"], ["F"], ["E"], ["X", gen_how(r)]]))
                out.append(["WE"])
            else:
                out.append(o)
            freed = True
        else:
            out.append(o)
    c = dict(case, ops=out)
    return c if valid(c) else case


def gen_case2(r, below):
    """gen_case; a quarter of the objects are used by two threads (see weave)"""
    c = gen_case(r, below)
    u = r.random()
    if u < 0.25 and c["n"] is not None:
        c = weave(r, c, shutdown=u < 0.18)
    return c


def gen_how(r):
    """how a with-block is left: half of the time by an exception raised in the loop body"""
    u = r.random()
    if u < 0.5:
        return "raise:%s" % r.choice(sorted(EXC))
    return "end" if u < 0.7 else ("break" if u < 0.85 else "return")


def load_corpus():
    out = []
    for p in sorted(glob.glob(os.path.join(CORPUS, "C16", "*.json"))):
        try:
            c = json.load(open(p))
            out.append(norm({k: c[k] for k in ("n", "P", "t0", "with", "ops")}))
        except Exception:
            pass
    return out


# ---------------------------------------------------------------------------
# emission

def coq_Q(x):
    f = Fraction(x)
    return "(Qmake %s %d%%positive)" % (coq_Z(f.numerator), f.denominator)


def flat_snap(s):
    t, a, c = s[:3]
    return [t, 0, 0, c] if a is None else [t, 1, a, c]


def coq_op(o):
    if o[0] == "B":
        return "Body %s" % zlit(o[1])
    if o[0] == "W":
        return "Wait"
    if o[0] == "F":
        return "Free"
    if o[0] == "E":
        return "Enter"
    h = how_of(o)               # Delay.Model: leave_with h = Exit (exc_info h)
    return "Exit (Some %s)" % EXC[h[6:]][0] if h.startswith("raise:") else "Exit None"


def zlit(n):
    n = int(n)
    return "(%d)" % n if n < 0 else "%d" % n


def coq_cop(o):
    if o[0] == "WB":
        return "WaitBegin"
    if o[0] == "WE":
        return "WaitEnd"
    t = coq_op(o)
    return "Other %s" % (t if " " not in t else "(%s)" % t)


def coq_ccase(name, case, res):
    """A case with a wait() run in halves (two threads): Delay.Model.ccase / cpredict."""
    if res["ctor"] == "ValueError":
        obs = "None"
    else:
        s0 = res["snap0"] or [res["t0"], None, 0]
        p = (s0[1] - res["t0"]) if s0[1] is not None else -1
        flat = [p] + flat_snap(s0)
        pairs = list(zip(case["ops"], res["snaps"]))
        for o, s in pairs:
            if o[0] not in ("B", "WB"):
                flat += flat_snap(s)
        for o, s in pairs:
            if o[0] == "X":
                flat.append(s[3])
        for o, s in pairs:
            if o[0] == "E":
                flat.append(s[3])
        # one triple per wait() that was left: call, the instant it was left, 1 if by an exception
        prev = s0
        sp = [list(x) for x in res.get("split", [])]
        for o, s in pairs:
            if o[0] == "W":
                flat += [prev[0], s[0], 0]
            elif o[0] == "WE" and sp:
                flat += sp.pop(0)
            prev = s
        flat.append(0)                  # the history has not left the model (valid() saw to that)
        if len(res["snaps"]) != len(case["ops"]):
            flat.append(-1)             # the run stopped early: never equal to the model's list
        obs = "Some %s" % coq_list([zlit(x) for x in flat])
    return "Definition %s : ccase := (%s, %s, %s, %s).\n" % (
        name, coq_Q(case_P(case)), zlit(res["t0"]), coq_list([coq_cop(o) for o in case["ops"]]), obs)


def coq_case(name, case, res):
    """One Definition per case (bare numerals, Z_scope is open)."""
    if is_split(case):
        return coq_ccase(name, case, res)
    if res["ctor"] == "ValueError":
        obs = "None"
    else:
        s0 = res["snap0"] or [res["t0"], None, 0]
        p = (s0[1] - res["t0"]) if s0[1] is not None else -1
        flat = [p] + flat_snap(s0)
        for o, s in zip(case["ops"], res["snaps"]):
            if o[0] != "B":
                flat += flat_snap(s)
        for o, s in zip(case["ops"], res["snaps"]):
            if o[0] == "X":             # per __exit__: did an exception come out of the with-statement
                flat.append(s[3])
        for o, s in zip(case["ops"], res["snaps"]):
            if o[0] == "E":             # per __enter__: did it return the object itself
                flat.append(s[3])
        if len(res["snaps"]) != len(case["ops"]):
            flat.append(-1)             # the run stopped early: never equal to the model's list
        obs = "Some %s" % coq_list([zlit(x) for x in flat])
    return "Definition %s : case := (%s, %s, %s, %s).\n" % (
        name, coq_Q(case_P(case)), zlit(res["t0"]), coq_list([coq_op(o) for o in case["ops"]]), obs)


CASES_HEADER = ("From Coq Require Import ZArith QArith List.\nFrom RV Require Import Delay.Model.\n"
                "Import ListNotations.\nOpen Scope Z_scope.\n")


# ---------------------------------------------------------------------------
# the float part of the period conversion: sweep of the real constructor

def sweep(sim, cls, ns):
    """n for which NotifierDelay(nearest double of n/10^6) does not arm t0 + n."""
    sim.reset(None)
    sim.restart(0)
    sim.enabled = False
    t = sim.now()
    bad = []
    for n in ns:
        if len(sim.inits) > 64:
            sim.reset(None)             # a constructor/free() pair that leaks must not pile up notifiers
        try:
            d = cls(n / 1e6)
            a = sim.alarm()
            d.free()
        except Exception as e:
            bad.append((n, repr(e)))
            if len(bad) > 20:
                break
            continue
        if a is None or a - t != n:
            bad.append((n, None if a is None else a - t))
            if len(bad) > 20:
                break
    sim.reset(None)
    return bad


def features(case, res):
    """(blocked waits, late calls, catch-ups, waits after free) of an observed run"""
    n = case["n"]
    if n is None or res["ctor"] != "ok":
        return (0, 0, 0, 0)
    t0, prev, k, freed = res["t0"], res["snap0"], 0, False
    blocked = late = catch = post = 0
    was_late = False
    for o, cur in zip(case["ops"], res["snaps"]):
        if o[0] == "W":
            if freed:
                post += 1
            else:
                k += 1
                g = t0 + k * n
                if prev[0] > g:
                    late += 1
                    was_late = True
                else:
                    if cur[0] > prev[0]:
                        blocked += 1
                    if was_late:
                        catch += 1
                        was_late = False
        elif o[0] in ("F", "X"):
            freed = True
        prev = cur
    return (blocked, late, catch, post)


def shrink(sim, cls, case, fp):
    """Greedy: drop operations while the same clause still fails."""
    def fails(c):
        return valid(c) and any(f == fp for f, _ in oracle(c, drive(sim, cls, c)))
    best = case
    budget = 150
    for t0 in (0,):
        c = dict(best, t0=t0)
        if budget > 0 and fails(c):
            best = c
        budget -= 1
    sp = with_span(best)
    if sp:
        # first the whole with-statement (its E and its X): the object used plainly.  If the clause does not fail
        # without it, the with-statement stays a real one: its E and X are never dropped one by one below.
        c = dict(best, ops=[o for j, o in enumerate(best["ops"]) if j not in sp])
        if not with_span(c):
            c["with"] = False
        budget -= 1
        if fails(c):
            best = c
    i = len(best["ops"]) - 1
    changed = False
    while budget > 0:
        if i < 0:
            if not changed:
                break
            i, changed = len(best["ops"]) - 1, False    # another pass: an earlier drop may have made a later one possible
            continue
        i = min(i, len(best["ops"]) - 1)
        sp = with_span(best)
        if sp and i in sp:
            i -= 1
            continue
        drop = {i}
        if best["ops"][i][0] == "WB":       # the two halves of a wait go together
            drop |= set([j for j in range(i + 1, len(best["ops"])) if best["ops"][j][0] == "WE"][:1])
        elif best["ops"][i][0] == "WE":
            drop |= set([j for j in range(i) if best["ops"][j][0] == "WB"][-1:])
        ops = [o for j, o in enumerate(best["ops"]) if j not in drop]
        c = dict(best, ops=ops)
        if not valid(c):
            i -= 1
            continue
        if best["with"] and not with_span(c):
            c["with"] = False           # (cannot happen while a span is protected; a case without span has only direct calls)
        budget -= 1
        if fails(c):
            best = c
            changed = True
        i -= 1
    return best


def violation(case, res, fails):
    fp, text = fails[0]
    v = dict(case)
    v.update({"kind": "input", "fingerprint": fp,
              "what": "NotifierDelay(%r) [%s us] at t0=%d: %s" % (case_P(case), case["n"], res["t0"], text),
              "observed": {"ctor": res["ctor"], "snap0": res["snap0"], "snaps": res["snaps"], "error": res["error"],
                           "waits_in_halves": res.get("split", [])},
              "failing_clauses": [t for _, t in fails][:6]})
    return v


# ---------------------------------------------------------------------------

def run(ctx):
    ctx.assumptions.append(
        "C16: the HAL notifier is modelled as `a wait issued at t_call with alarm a returns at max(t_call, a); "
        "a stopped notifier returns at once` (Delay.Model.hal_wait) -- the behaviour of the SIMULATED HAL, validated by "
        "this run's correspondence, not proved; real-time scheduling latency of the thread on a roboRIO is not modelled")
    ctx.assumptions.append(
        "C16: float arithmetic of round(delay_period*1e6) is idealised as exact rational arithmetic in the model; the "
        "float expression itself is covered by a runtime sweep of the real constructor over whole microseconds "
        "n in [%d, %d] (nearest double of n/10^6), not by a theorem; FPGA times stay below 2^63" % (SWEEP_LO, SWEEP_HI))
    ctx.assumptions.append(
        "C16: Python statements take no FPGA time (simulated time is paused and moves only by explicit steps); "
        "NotifierDelay is used from one thread, except that one wait() at a time may be in progress in a second thread while "
        "the first one lets time pass, enters the with-block or releases the object (two-thread model: wait() split at its HAL "
        "call; free()/__exit__ are atomic with respect to the two halves, i.e. the interleaving of stopNotifier / cleanNotifier / "
        "`_notifier = None` with the second half of wait() is not modelled, only run)")
    ctx.assumptions.append(
        "C16: HAL behaviour assumed by the two-thread model and validated by this run's correspondence with a real second "
        "thread: stopNotifier wakes a thread blocked in waitForNotifierAlarm at once; updateNotifierAlarm on a cleaned "
        "handle does nothing; the binding raises TypeError for a None handle")
    ctx.prove()
    # the model functions, regenerated from the current source (fail-closed translator harness/pytr.py)
    from . import c16_translate
    c16_translate.obligation(ctx)

    sim = Sim()
    sim.install()
    # A constructor that raises ValueError leaves an object without _notifier;
    # its __del__ -> free() then dies with AttributeError, which CPython reports
    # through sys.unraisablehook.  Outside C16 (nothing is armed or leaked):
    # counted in the evidence instead of printed.
    old_hook = sys.unraisablehook

    def hook(u):
        if "NotifierDelay.__del__" in repr(u.object) and isinstance(u.exc_value, AttributeError):
            ctx.count("unraisable:AttributeError in __del__ after the constructor raised ValueError")
        else:
            old_hook(u)
    sys.unraisablehook = hook
    try:
        return _run(ctx, sim)
    finally:
        sys.unraisablehook = old_hook
        sim.enabled = False
        sim.remove()


def _run(ctx, sim):
    try:
        cls = impl()
    except Exception as e:
        ctx.obligation("corr:implementation imports", False, repr(e))
        return ctx.finish()
    r = ctx.rng
    below = below_doubles(1000, 100000)
    nrand = 300 if ctx.tier == "quick" else 5000
    cases = load_corpus() + edge_cases() + malformed_cases()
    nfixed = len(cases)
    cases += [gen_case2(r, below) for _ in range(nrand)]

    t_drive = time.time()
    results = []
    hung = 0
    global HANG_S
    for c in cases:
        res = drive(sim, cls, c)
        if res["error"] and res["error"].startswith("hang"):
            # the verdict "does not come back" is a wall-clock verdict: on a loaded machine the loop thread may simply not
            # have been scheduled yet.  Drive the same operation list once more, with five times the patience, before believing it
            keep = HANG_S
            HANG_S = 5 * keep
            try:
                res2 = drive(sim, cls, c)
            finally:
                HANG_S = keep
            if not (res2["error"] and res2["error"].startswith("hang")):
                res = res2
                ctx.count("hang-verdict-withdrawn-on-retry")
        results.append(res)
        if res["error"] and res["error"].startswith("hang"):
            hung += 1
            if hung >= 3:
                break
    cases = cases[:len(results)]
    t_drive = time.time() - t_drive

    errs = [(i, results[i]["error"]) for i in range(len(cases)) if results[i]["error"]]
    ctx.obligation("corr:every operation list ran to its end (no exception, no hang)", not errs,
                   "; ".join("case %d: %s" % e for e in errs[:5]))
    feats = []
    keys = set()
    nontrivial = set()
    nwaits = 0
    n_late_entry = [0]
    for c, res in zip(cases, results):
        f = features(c, res)
        feats.append(f)
        key = (c["P"], c["t0"], c["with"], json.dumps(c["ops"]))
        keys.add(key)
        if f[0] >= 1 and f[1] >= 1 and f[2] >= 1:
            nontrivial.add(key)
        nwaits += sum(1 for o in c["ops"] if o[0] in ("W", "WB"))
        ctx.count("ctor=%s" % res["ctor"])
        ctx.count("with-block" if c["with"] else "plain")
        ctx.count("period=%s" % ("non-whole-or-rejected" if c["n"] is None else
                                 ("double-below-integer" if int(case_P(c) * 1e6) != c["n"] else "other")))
        ctx.count("waits:blocked-until-grid", f[0])
        ctx.count("waits:blocked, worker confirmed inside HAL_WaitForNotifierAlarm before the clock moved", res.get("confirmed", 0))
        ctx.count("waits:called-late", f[1])
        ctx.count("waits:catch-up(first on-time after overrun)", f[2])
        ctx.count("waits:after-free", f[3])
        if is_split(c):
            ctx.count("two-thread cases")
            inprog = rel_during = False
            for o in c["ops"]:
                if o[0] == "WB":
                    inprog, rel_during = True, False
                    ctx.count("waits:run in halves by a second thread")
                elif o[0] == "WE":
                    inprog = False
                elif o[0] in ("F", "X") and inprog and not rel_during:
                    rel_during = True
                    ctx.count("waits:released by another thread while in progress (%s)"
                              % ("free()" if o[0] == "F" else "with-block left / __exit__"))
        span = with_span(c)
        seen_wait = False
        for j, o in enumerate(c["ops"]):
            ctx.count("op=%s" % {"B": "body", "W": "wait", "F": "free", "E": "with-enter", "X": "with-exit",
                                 "WB": "wait-begin (loop thread)", "WE": "wait-end (loop thread joined)"}[o[0]])
            if o[0] == "W":
                seen_wait = True
            if o[0] == "E" and j < len(res["snaps"]):
                dt = res["snaps"][j][0] - res["t0"]
                who = "with-statement entered" if (span and j == span[0]) else "__enter__ called directly,"
                ctx.count("%s %s" % (who, "at the construction instant" if dt == 0 else
                                     ("later, less than one period after construction" if dt < (c["n"] or 0) else
                                      "later, one period or more after construction")))
                if span and j == span[0] and dt > 0:
                    n_late_entry[0] += 1
                    if seen_wait:
                        ctx.count("with-statement entered after the first wait()")
            if o[0] == "X":
                h = how_of(o)
                ctx.count("%s left by %s" % ("with-statement" if (span and j == span[1]) else "__exit__ called directly,",
                                            h if not h.startswith("raise:") else "exception"))
                if h.startswith("raise:"):
                    ctx.count("exception class=%s" % h[6:])

    # ---- comparison inside Coq ----------------------------------------
    per = max(10, min(400, -(-len(cases) // 16)))
    items = []
    index = {}                  # shard -> (positions of its one-thread cases, positions of its two-thread cases)
    for k, sh in enumerate(shards(list(zip(cases, results)), per)):
        defs = "".join(coq_case("c%d" % i, c, res) for i, (c, res) in enumerate(sh))
        seq = [i for i, (c, _) in enumerate(sh) if not is_split(c)]
        two = [i for i, (c, _) in enumerate(sh) if is_split(c)]
        index[k] = (seq, two)
        items.append(("cases_%d" % k, CASES_HEADER + defs + "Definition cases : list case := %s.\n"
                      "Definition ccases : list ccase := %s.\n"
                      "Eval vm_compute in (bad 0 cases).\nEval vm_compute in (cbad 0 ccases).\n"
                      % (coq_list(["c%d" % i for i in seq]), coq_list(["c%d" % i for i in two]))))
    out = ctx.coq_files_parallel(items)
    bad_total = []
    for k, (name, _) in enumerate(items):
        rc, txt = out[name]
        lists = parse_eval_lists(txt) if rc == 0 else []
        ok = rc == 0 and len(lists) == 2 and lists[0] == [] and lists[1] == []
        ctx.obligation("corr:%s (Delay.Model on the same operation lists == NotifierDelay under the simulated HAL; "
                       "one thread: predict, two threads: cpredict)" % name, ok, txt[-1500:])
        if rc == 0 and len(lists) == 2:
            bad_total += [k * per + index[k][0][i] for i in lists[0]]
            bad_total += [k * per + index[k][1][i] for i in lists[1]]
    bad_total.sort()

    # ---- the float part of the period conversion -----------------------
    t_sweep = time.time()
    sweep_bad = sweep(sim, cls, range(SWEEP_LO, SWEEP_HI + 1))
    t_sweep = time.time() - t_sweep
    ctx.obligation("sweep:NotifierDelay(nearest double of n/10^6) arms t0+n for every whole n in [%d, %d]" % (SWEEP_LO, SWEEP_HI),
                   not sweep_bad, repr(sweep_bad[:5]))

    samples = []
    for i in [nfixed, nfixed + 1, len(cases) - 1]:
        if 0 <= i < len(cases):
            samples.append({"case": cases[i], "t0": results[i]["t0"], "snaps": results[i]["snaps"][:12]})
    ctx.coverage.update({
        "evaluations": len(cases) + (SWEEP_HI - SWEEP_LO + 1),
        "traces_validated_against_impl": len(cases),
        "waits_observed": nwaits,
        "distinct_cases": len(keys),
        "distinct_nontrivial": len(nontrivial),
        "with_blocks_entered_after_construction": n_late_entry[0],
        "rule": "corpus + hand-made edge schedules + rejected/non-whole periods + seeded random schedules of 5-40 waits "
                "(periods 1 ms..1 s, 30% whole-us periods whose double lies below the integer; bodies zero / shorter than / "
                "equal to / 1-5x the period / aimed at the grid point +-1 us; free() at random points, repeated; 40% of the "
                "objects used in a with-statement -- half of them built first and the block entered LATER, after set-up work of "
                "1 us .. 4 periods (20% with a wait in it), the others `with NotifierDelay(P) as d:` -- that is left at a random point by running to its end / break / return / "
                "(half of them) an exception of 6 classes raised in the block, 30% of the others get a direct __exit__ "
                "call with or without exception information, 20% a direct __enter__ call somewhere; t0 up to 2^32 us; a quarter of "
                "the objects are used by TWO threads: blocking waits run in halves by a real second thread while the driving thread lets "
                "time pass / enters the with-block, and (18% of all objects) the first release -- free(), leaving the with-block in any way, "
                "__exit__ -- happens while the loop thread is blocked inside wait(), at an instant 0 .. slack-1 us after the call); non-trivial = the run has at least one wait that blocked until its grid point, at "
                "least one late call and at least one catch-up (first on-time wait after an overrun); distinct = different "
                "(period, t0, operations)",
        "exhaustive": False,
        "exhaustive_parts": ["runtime sweep (not a theorem over floats): the real constructor with the nearest double of "
                             "n/10^6 programs a period of exactly n us, every whole n in [%d, %d]" % (SWEEP_LO, SWEEP_HI)],
        "samples": samples,
        "timing_s": {"drive": round(t_drive, 2), "sweep": round(t_sweep, 2)},
    })

    def search():
        found = []
        cand = list(bad_total) + [i for i, _ in errs if i not in bad_total]
        for i in cand[:60]:
            fails = oracle(cases[i], results[i])
            if fails:
                found.append((cases[i], fails))
                break
        if not found:
            for n, _ in sweep_bad[:5]:
                c = mk_case(n, 0, [["B", 0], ["W"]] * 3 + [["F"]])
                res = drive(sim, cls, c)
                fails = oracle(c, res)
                if fails:
                    found.append((c, fails))
                    break
        if not found:
            for i in range(len(cases)):
                fails = oracle(cases[i], results[i])
                if fails:
                    found.append((cases[i], fails))
                    break
        if not found:
            t_end = time.time() + 60
            for _ in range(10 * nrand):
                if time.time() > t_end:
                    break
                c = gen_case2(r, below)
                res = drive(sim, cls, c)
                fails = oracle(c, res)
                if fails:
                    found.append((c, fails))
                    break
        outv = []
        for c, fails in found:
            fp = fails[0][0]
            if not (fp == "hang" and "no progress" in fails[0][1]):     # a wall-clock hang costs HANG_S per attempt
                try:
                    c = shrink(sim, cls, c, fp)
                except Exception:
                    pass
            res = drive(sim, cls, c)
            fl = [f for f in oracle(c, res) if f[0] == fp] or oracle(c, res) or fails
            outv.append(violation(c, res, fl))
        if not outv:
            for off in (-700000, 1234567):
                vd = time_source_verdict(time_source_probe(off))
                if vd:
                    outv.append({"kind": "time-source", "what": vd, "fingerprint": "grid-not-anchored-at-FPGA-t0-under-own-time-source",
                                 "offset": off, "n": 20000})
                    break
        return outv

    return ctx.finish(search=search)



TIME_SOURCE_PROBE = r"""
import sys, os, json
sys.path.insert(0, sys.argv[1])
import hal, hal.simulation as hs, wpilib
hs.pauseTiming(); hs.restartTiming(); hs.stepTimingAsync(1500000)
off = int(sys.argv[2]); n = int(sys.argv[3])
wpilib.RobotController.setTimeSource(lambda: int(hal.getFPGATime()[0]) + off)
from robotpy_ext.misc.precise_delay import NotifierDelay
t0 = int(hal.getFPGATime()[0])
d = NotifierDelay(n / 1e6)
print(json.dumps({"t0": t0, "alarm": int(hs.getNextNotifierTimeout()), "robot_time": int(wpilib.RobotController.getTime())}))
sys.stdout.flush()
os._exit(0)
"""


def time_source_probe(off, n=20000):
    """a program that has installed its own time source (wpilib.RobotController.setTimeSource: a match / replay clock with
    another origin) creates a NotifierDelay at FPGA time t0: the first alarm must be t0 + P of the FPGA clock the HAL compares
    alarms against.  Own process: a python time source must not outlive the interpreter."""
    import subprocess
    from .common import REPO
    try:
        p = subprocess.run([sys.executable, "-c", TIME_SOURCE_PROBE, REPO, str(off), str(n)], stdout=subprocess.PIPE,
                           stderr=subprocess.DEVNULL, text=True, timeout=60)
        return json.loads(p.stdout.strip().splitlines()[-1])
    except Exception:
        return None


def time_source_verdict(res, n=20000):
    if res and res["alarm"] != res["t0"] + n:
        return ("NotifierDelay(%r) created at FPGA time %d us by a program whose own time source reads %d us: the first alarm is "
                "programmed at %d us, t0 + P = %d us" % (n / 1e6, res["t0"], res["robot_time"], res["alarm"], res["t0"] + n))
    return None


def replay(ctx, obj):
    if obj.get("kind") == "time-source":
        res = time_source_probe(obj["offset"], obj["n"])
        vd = time_source_verdict(res, obj["n"])
        print("own time source, offset %d us: %r" % (obj["offset"], res))
        if vd:
            print("violates C16:", vd)
            print("VIOLATION property=C16 replay=(replayed)")
            return 1
        return 0
    if obj.get("kind") != "input":
        print("replay names broken obligations only: %s" % [b if isinstance(b, str) else b.get("name") for b in obj.get("broken_obligations", [])])
        return run(ctx)
    sim = Sim()
    sim.install()
    try:
        cls = impl()
        case = norm({k: obj[k] for k in ("n", "P", "t0", "with", "ops")})
        res = drive(sim, cls, case)
    finally:
        sim.enabled = False
        sim.remove()
    span = with_span(case)
    print("NotifierDelay(%r) [%s us] built at FPGA time %d%s" % (
        case_P(case), case["n"], res["t0"],
        "" if not span else (", used as `with NotifierDelay(..) as d:` (the block: the ops after 0 and before %d)" % span[1] if span[0] == 0 else
                             ", built first (ops 0..%d run before), then `with d:` entered at op %d (the block: the ops after %d and before %d)"
                             % (span[0] - 1, span[0], span[0], span[1]))))
    print("constructor: %s   after it: time, alarm, cleanNotifier calls = %s" % (res["ctor"], res["snap0"]))
    sp = [list(x) for x in res.get("split", [])]
    for o, s in zip(case["ops"], res["snaps"]):
        extra = ""
        if o[0] == "WB":
            extra = "   (a second thread, the loop thread, is now inside wait())"
        elif o[0] == "WE" and sp:
            c0, r0, e0 = sp.pop(0)
            extra = "   (the wait() called at %d came back at %d%s)" % (c0, r0, " BY AN EXCEPTION" if e0 else "")
        print("  %-10s -> time %d  alarm %s  released %d%s" % (" ".join(str(x) for x in o), s[0], s[1], s[2], extra))
    if res.get("split_error"):
        print("  the wait() in progress raised %s" % res["split_error"])
    if res["error"]:
        print("  stopped: %s" % res["error"])
    fails = oracle(case, res)
    for _, t in fails[:8]:
        print("  FAILS: %s" % t)
    if fails:
        print("VIOLATION property=C16 replay=(replayed)")
        return 1
    print("property holds on this input")
    return 0
