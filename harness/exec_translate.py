"""C01-C04, C13: StateMachine.execute() itself, translated from the current source statement by statement
(fail-closed: anything outside the forms below raises Shape) into Gallina functions over a frame
(machine + the locals of execute() that live across its top-level statements), and proved equal to
SM.Model.exec_step for EVERY machine state, clock reading, user code and nested-iteration function.

What is generated: one function `gen_s<i> : frame -> frame` per top-level statement of execute() and their
composition `gen_execute`; an exception is the frame flag f_err, a bare `return` the flag f_ret.

Reading of the source (trusted; everything else raises Shape):
  now = getTime()                       -> the clock input `now`; the ghost field clk records it
  self.__should_engage/__engaged/__start/__state     -> should / engaged / start / cur of the model record
  self.__default_state                  -> sh_default sh (an optional state name); self.__first -> sh_first sh
  state (a _StateData or None)          -> an optional state name; `state.ran/.expires/.start_time` are the
                                           fields ran / st_exp / st_start of `sdat m s`; `state.must_finish` is
                                           is_must sh s; `state.next_state` exists only for a timed state that is
                                           declared (`lookup sh s = Some dc`, `d_timed dc`), else AttributeError,
                                           and is `d_next dc`; `state.duration_attr is not None` is "s is timed";
                                           `getattr(self, state.duration_attr, 0xFFFFFFFF)` is `dur m s`
  0xFFFFFFFF                            -> sh_inf sh (the same number in clock ticks)
  self.done()                           -> the model's `done sh` (tied to the source by Gen_sm) + the event EvDone
  self.next_state(x)                    -> KeyError unless is_state sh x; else the model's next_state + EvEnter x
  state.run(self, tm, tm - state.start_time, initial_call)
                                        -> the k-th state-function invocation of the run: event EvCall and the model's
                                           run_actions on `body k s tm state_tm initial_call` (user code is a parameter)
  if self.VERBOSE_LOGGING: self.logger.info(...)  -> nothing
A reference through `state` is only accepted where the translator knows `state` is not None (inside the
corresponding test); `a and b` / `a or b` / `not a` are read with Python's short-circuit order."""
import ast
import os

from .pytr import Shape, HEADER, txt

PATH = "magicbot/state_machine.py"


def paren(t):
    """t as an argument: wrapped unless it is one token or one balanced (...) group"""
    t = t.strip()
    if " " not in t:
        return t
    if t.startswith("("):
        d = 0
        for i, c in enumerate(t):
            d += c == "("
            d -= c == ")"
            if d == 0:
                if i == len(t) - 1:
                    return t
                break
    return "(" + t + ")"


class _Rename(ast.NodeTransformer):
    def __init__(self, mapping):
        self.mapping = mapping

    def visit_Name(self, n):
        if n.id in self.mapping:
            return ast.copy_location(ast.Name(id=self.mapping[n.id], ctx=n.ctx), n)
        return n


def canonical_locals(fn, roles):
    """Local variables are recognised by what is first assigned to them, not by their spelling (a renamed local is the
    same program): roles = [(canonical name, predicate on the unparsed right-hand side given the names found so far)]."""
    found = {}
    assigns = [n for n in ast.walk(fn) if isinstance(n, ast.Assign) and len(n.targets) == 1 and isinstance(n.targets[0], ast.Name)]
    changed = True
    while changed:
        changed = False
        for node in assigns:
            rhs = txt(node.value)
            for canon, pred in roles:
                if canon not in found.values() and node.targets[0].id not in found and pred(rhs, {v: k for k, v in found.items()}):
                    found[node.targets[0].id] = canon
                    changed = True
                    break
    mapping = {k: v for k, v in found.items() if k != v}
    clash = set(mapping.values()) & {n.id for n in ast.walk(fn) if isinstance(n, ast.Name)} - set(mapping)
    if not mapping or clash:
        return fn
    return ast.fix_missing_locations(_Rename(mapping).visit(fn))


EXEC_ROLES = [
    ("now", lambda rhs, f: rhs == "getTime()"),
    ("tm", lambda rhs, f: "now" in f and rhs == "%s - self.__start" % f["now"]),
    ("state", lambda rhs, f: rhs == "self.__state"),
    ("done_called", lambda rhs, f: rhs == "False"),
    ("new_state_start", lambda rhs, f: "tm" in f and rhs == f["tm"]),
    ("initial_call", lambda rhs, f: "state" in f and rhs == "not %s.ran" % f["state"]),
    ("duration", lambda rhs, f: rhs == "4294967295"),
]

MFIELDS = ["should", "engaged", "cur", "start", "sdat", "dur", "nt_cur", "auto_on", "clk", "ncall"]
LOCALS = ["now", "tm", "state", "done_called", "new_state_start"]          # locals that live across top-level statements
FLOC = {"now": "f_now", "tm": "f_tm", "state": "f_state", "done_called": "f_done", "new_state_start": "f_nss"}
SELF = {"__should_engage": "should", "__engaged": "engaged", "__state": "cur", "__start": "start"}


class Env:
    def __init__(self):
        self.m = {}          # model field -> term
        self.loc = {}        # python local -> term
        self.ev = ""
        self.err = "false"
        self.ret = "false"
        self.refine = {}     # option-valued term -> refined term (Some x / None)
        self.over = None     # (state name, record term): writes to one _StateData object not yet put into sdat
        self.n = [0]

    def copy(self):
        e = Env()
        e.m, e.loc, e.ev, e.err, e.ret, e.refine, e.n = dict(self.m), dict(self.loc), self.ev, self.err, self.ret, dict(self.refine), self.n
        e.over = self.over
        return e

    def fresh(self, p):
        self.n[0] += 1
        return "%s%d" % (p, self.n[0])

    def flush(self):
        """the pending record of one state is written into the per-state table"""
        if self.over is not None:
            nm, rec = self.over
            self.m["sdat"] = "(upd %s %s %s)" % (paren(self.m["sdat"]), nm, paren(rec))
            self.over = None

    def mterm(self):
        self.flush()
        vs = set()
        for k in MFIELDS:
            t = self.m[k].strip()
            if t.startswith("(%s " % k) and t.endswith(")"):
                vs.add(t[len(k) + 2:-1].strip())
            else:
                vs.add(None)
        if len(vs) == 1 and None not in vs:
            return paren(vs.pop())
        return "(Build_sm %s)" % " ".join(paren(self.m[k]) for k in MFIELDS)

    def rec_of(self, s):
        """the record of state s as the statements executed so far left it"""
        if self.over is not None and self.over[0] == s:
            return self.over[1]
        self.flush()
        return "(%s %s)" % (paren(self.m["sdat"]), s)

    def set_rec(self, s, fld, v):
        r = self.rec_of(s)
        self.over = (s, "%s <| %s := %s |>" % (r, fld, v))

    def ref(self, t):
        return self.refine.get(t, t)


def some_name(t):
    """the x of a term that is syntactically `Some x`"""
    t = t.strip()
    if t.startswith("(") and t.endswith(")"):
        t = t[1:-1].strip()
    if t.startswith("Some "):
        return t[5:].strip()
    return None


class Tr:
    def __init__(self, repo):
        self.repo = repo
        tree = ast.parse(open(os.path.join(repo, PATH)).read())
        cls = [n for n in tree.body if isinstance(n, ast.ClassDef) and n.name == "StateMachine"]
        if len(cls) != 1:
            raise Shape("class StateMachine not found")
        fs = [n for n in cls[0].body if isinstance(n, ast.FunctionDef) and n.name == "execute"]
        if len(fs) != 1 or fs[0].decorator_list or len(fs[0].args.args) != 1:
            raise Shape("StateMachine.execute(self) not found")
        self.fn = canonical_locals(fs[0], EXEC_ROLES)

    # ------------------------------------------------------------ expressions
    def state_name(self, env, what):
        s = some_name(env.ref(env.loc.get("state", "None")))
        if s is None:
            raise Shape("`%s` is read where `state` may be None" % what)
        return s

    def expr(self, n, env):
        t = txt(n)
        if isinstance(n, ast.Constant):
            if n.value is True:
                return "true"
            if n.value is False:
                return "false"
            if n.value is None:
                return "None"
            if n.value == 0xFFFFFFFF:
                return "(sh_inf sh)"
            if isinstance(n.value, int) and not isinstance(n.value, bool):
                return "%d" % n.value if n.value >= 0 else "(%d)" % n.value
            raise Shape("constant %r" % (n.value,))
        if isinstance(n, ast.Name):
            if n.id in env.loc:
                return env.ref(env.loc[n.id])
            raise Shape("unknown name %s" % n.id)
        if t == "self.__first":
            return "(sh_first sh)"
        if t == "self.__default_state":
            return env.ref("(sh_default sh)")
        if isinstance(n, ast.Attribute) and txt(n.value) == "self" and n.attr in SELF:
            return env.ref(env.m[SELF[n.attr]])
        if isinstance(n, ast.Attribute) and txt(n.value) == "state":
            s = self.state_name(env, t)
            if n.attr == "ran":
                return "(ran %s)" % paren(env.rec_of(s))
            if n.attr == "expires":
                return "(st_exp %s)" % paren(env.rec_of(s))
            if n.attr == "start_time":
                return "(st_start %s)" % paren(env.rec_of(s))
            if n.attr == "must_finish":
                return "(is_must sh %s)" % s
            if n.attr == "next_state":
                k = "(next_of %s)" % s
                if k in env.refine:
                    return env.refine[k]
                raise Shape("state.next_state is read outside an `if state.next_state is None` test")
            raise Shape("attribute %s" % t)
        if t == "getattr(self, state.duration_attr, 4294967295)":
            return "(%s %s)" % (paren(env.m["dur"]), self.state_name(env, t))
        if isinstance(n, ast.BinOp) and isinstance(n.op, (ast.Add, ast.Sub)):
            return "(%s %s %s)" % (self.expr(n.left, env), "+" if isinstance(n.op, ast.Add) else "-", self.expr(n.right, env))
        if isinstance(n, ast.UnaryOp) and isinstance(n.op, ast.Not):
            return "(negb %s)" % paren(self.bexpr(n.operand, env))
        if isinstance(n, ast.Compare) and len(n.ops) == 1 and isinstance(n.ops[0], (ast.Lt, ast.LtE, ast.Gt, ast.GtE)):
            op = {ast.Lt: "<?", ast.LtE: "<=?", ast.Gt: ">?", ast.GtE: ">=?"}[type(n.ops[0])]
            return "(%s %s %s)" % (self.expr(n.left, env), op, self.expr(n.comparators[0], env))
        raise Shape("expression not recognised: %s" % t[:80])

    def bexpr(self, n, env):
        """a test that needs no case analysis of its own"""
        t = txt(n)
        if t == "state.duration_attr is not None":
            return "(is_timed sh %s)" % self.state_name(env, t)
        if t == "self.__state != state":
            st = env.ref(env.loc["state"])
            s = some_name(st)
            if s is None:
                raise Shape("`self.__state != state` where state may be None")
            return "(negb (is_some_eq %s %s))" % (paren(env.m["cur"]), s)
        return self.expr(n, env)

    # ------------------------------------------------------------ conditions (short-circuit, with refinement)
    def cond(self, n, env, kt, kf):
        if isinstance(n, ast.BoolOp) and isinstance(n.op, ast.And):
            def chain(i, e):
                if i == len(n.values):
                    return kt(e)
                return self.cond(n.values[i], e, lambda e2: chain(i + 1, e2), kf)
            return chain(0, env)
        if isinstance(n, ast.BoolOp) and isinstance(n.op, ast.Or):
            def chain(i, e):
                if i == len(n.values):
                    return kf(e)
                return self.cond(n.values[i], e, kt, lambda e2: chain(i + 1, e2))
            return chain(0, env)
        if isinstance(n, ast.UnaryOp) and isinstance(n.op, ast.Not):
            return self.cond(n.operand, env, kf, kt)
        if isinstance(n, ast.Compare) and len(n.ops) == 1 and isinstance(n.ops[0], (ast.Is, ast.IsNot)) \
                and isinstance(n.comparators[0], ast.Constant) and n.comparators[0].value is None \
                and txt(n.left) != "state.duration_attr":
            pos, neg = (kf, kt) if isinstance(n.ops[0], ast.Is) else (kt, kf)      # pos: the value is Some
            if txt(n.left) == "state.next_state":
                s = self.state_name(env, "state.next_state")
                k = "(next_of %s)" % s
                if k in env.refine:
                    return pos(env) if some_name(env.refine[k]) else neg(env)
                dc, nx = env.fresh("dc"), env.fresh("nx")
                e1, e2, e3 = env.copy(), env.copy(), env.copy()
                e1.refine[k] = "(Some %s)" % nx
                e2.refine[k] = "None"
                e3.err = "true"
                bad = self.emit(e3)
                return ("(match lookup sh %s with Some %s => if d_timed %s then (match d_next %s with Some %s => %s | None => %s end) "
                        "else %s | None => %s end)" % (s, dc, dc, dc, nx, pos(e1), neg(e2), bad, bad))
            if isinstance(n.left, ast.Name) and n.left.id in env.loc:
                raw = env.loc[n.left.id]
            elif txt(n.left) == "self.__default_state":
                raw = "(sh_default sh)"
            elif txt(n.left) == "self.__state":
                raw = env.m["cur"]
            else:
                raise Shape("None-test of %s" % txt(n.left))
            cur = env.ref(raw)
            if cur.strip() == "None":
                return neg(env)
            if some_name(cur) is not None:
                return pos(env)
            x = env.fresh("s")
            e1, e2 = env.copy(), env.copy()
            e1.refine[raw] = "(Some %s)" % x
            e2.refine[raw] = "None"
            return "(match %s with Some %s => %s | None => %s end)" % (cur, x, pos(e1), neg(e2))
        return "(if %s then %s else %s)" % (self.bexpr(n, env), kt(env.copy()), kf(env.copy()))

    # ------------------------------------------------------------ statements
    def emit(self, env):
        return "(Build_frame %s %s %s %s %s %s (%s) %s %s)" % (
            env.mterm(), paren(env.loc["now"]), paren(env.loc["tm"]), paren(env.ref(env.loc["state"])), paren(env.loc["done_called"]),
            paren(env.loc["new_state_start"]), env.ev, env.err, env.ret)

    def set_m(self, env, mterm):
        """continue with the machine bound to a let variable"""
        v = env.fresh("m")
        env.flush()
        e = env.copy()
        for k in MFIELDS:
            e.m[k] = "(%s %s)" % (k, v)
        # refinements that mention machine fields are gone
        old = set(env.m.values())
        e.refine = {k: w for k, w in env.refine.items() if k not in old}
        return v, e

    def run(self, stmts, env, k):
        if not stmts:
            return k(env)
        s, rest = stmts[0], stmts[1:]
        t = txt(s)

        def go(e):
            return self.run(rest, e, k)
        if isinstance(s, ast.Expr) and isinstance(s.value, ast.Constant) and isinstance(s.value.value, str):
            return go(env)
        if isinstance(s, ast.If) and t.startswith("if self.VERBOSE_LOGGING:") and not s.orelse and len(s.body) == 1 \
                and txt(s.body[0]).startswith("self.logger."):
            return go(env)
        if isinstance(s, ast.Return) and s.value is None:
            e = env.copy()
            e.ret = "true"
            return self.emit(e)
        if t == "now = getTime()":
            e = env.copy()
            e.loc["now"] = "now"
            e.m["clk"] = "now"
            return go(e)
        if t == "self.done()":
            v, e = self.set_m(env, None)
            e.ev = "%s ++ [EvDone]" % env.ev
            return "(let %s := done sh %s in %s)" % (v, env.mterm(), go(e))
        if isinstance(s, ast.Expr) and isinstance(s.value, ast.Call) and txt(s.value.func) == "self.next_state" \
                and len(s.value.args) == 1 and not s.value.keywords:
            x = self.expr(s.value.args[0], env)
            nm = some_name(x) if txt(s.value.args[0]) == "state.next_state" else x
            if nm is None:
                raise Shape("self.next_state(%s): the argument may be None" % txt(s.value.args[0]))
            v, e = self.set_m(env, None)
            e.ev = "%s ++ [EvEnter %s]" % (env.ev, paren(nm))
            bad = env.copy()
            bad.err = "true"
            return "(if is_state sh %s then (let %s := next_state %s %s in %s) else %s)" % (
                paren(nm), v, env.mterm(), paren(nm), go(e), self.emit(bad))
        if t == "state.run(self, tm, tm - state.start_time, initial_call)":
            sn = self.state_name(env, t)
            tm = env.loc["tm"]
            stm = "(%s - %s)" % (tm, self.expr(ast.parse("state.start_time").body[0].value, env))
            init = env.loc["initial_call"]
            v, e = self.set_m(env, None)
            e.ev = "%s ++ EvCall %s %s %s %s %s :: filter observable (snd ra)" % (
                env.ev, sn, paren(tm), stm, paren(init), paren(env.m["engaged"]))
            e.err = "(existsb is_err (snd ra))"
            e0 = env.copy()
            e0.m["ncall"] = "(S %s)" % paren(env.m["ncall"])
            return "(let ra := run_actions sh nested (body %s %s %s %s %s) %s in let %s := fst ra in %s)" % (
                paren(env.m["ncall"]), sn, paren(tm), stm, paren(init), e0.mterm(), v, go(e))
        if isinstance(s, ast.Assign) and len(s.targets) == 1:
            tg = s.targets[0]
            e = env.copy()
            if isinstance(tg, ast.Name):
                if tg.id == "state":
                    if t == "state = self.__state":
                        e.loc["state"] = env.m["cur"]
                    elif t == "state = None":
                        e.loc["state"] = "None"
                    elif t == "state = self.__default_state":
                        e.loc["state"] = "(sh_default sh)"
                    else:
                        raise Shape("assignment %s" % t)
                    return go(e)
                if tg.id == "initial_call" and t == "initial_call = not state.ran":
                    e.loc["initial_call"] = "(negb %s)" % self.expr(s.value.operand, env)
                    return go(e)
                if tg.id in ("tm", "done_called", "new_state_start", "duration"):
                    e.loc[tg.id] = self.expr(s.value, env)
                    return go(e)
                raise Shape("assignment to local %s" % tg.id)
            if isinstance(tg, ast.Attribute) and txt(tg.value) == "self" and tg.attr in SELF:
                if tg.attr == "__state":
                    if t != "self.__state = state":
                        raise Shape("assignment %s" % t)
                    e.m["cur"] = env.ref(env.loc["state"])
                else:
                    e.m[SELF[tg.attr]] = self.expr(s.value, env)
                return go(e)
            if isinstance(tg, ast.Attribute) and txt(tg.value) == "state" and tg.attr in ("ran", "start_time", "expires"):
                sn = self.state_name(env, t)
                fld = {"ran": "ran", "start_time": "st_start", "expires": "st_exp"}[tg.attr]
                e.set_rec(sn, fld, self.expr(s.value, env))
                return go(e)
            raise Shape("assignment target %s" % txt(tg))
        if isinstance(s, ast.AugAssign) and isinstance(s.op, (ast.Add, ast.Sub)):
            op = "+" if isinstance(s.op, ast.Add) else "-"
            e = env.copy()
            if isinstance(s.target, ast.Name) and s.target.id == "tm":
                e.loc["tm"] = "(%s %s %s)" % (env.loc["tm"], op, self.expr(s.value, env))
                return go(e)
            if txt(s.target) == "self.__start":
                e.m["start"] = "(%s %s %s)" % (env.m["start"], op, self.expr(s.value, env))
                return go(e)
            raise Shape("augmented assignment %s" % t)
        if isinstance(s, ast.If):
            return self.cond(s.test, env, lambda e: self.run(list(s.body) + rest, e, k), lambda e: self.run(list(s.orelse) + rest, e, k))
        raise Shape("statement not recognised (line %d): %s" % (getattr(s, "lineno", 0), t[:80]))

    # ------------------------------------------------------------ output
    def definitions(self, prefix, args=""):
        body = [s for s in self.fn.body if not (isinstance(s, ast.Expr) and isinstance(s.value, ast.Constant))]
        defs, names = [], []
        for i, s in enumerate(body):
            env = Env()
            for kf in MFIELDS:
                env.m[kf] = "(%s (f_m f))" % kf
            for lo in LOCALS:
                env.loc[lo] = "(%s f)" % FLOC[lo]
            env.ev = "f_ev f"
            env.err = "(f_err f)"
            env.ret = "(f_ret f)"
            term = self.run([s], env, self.emit)
            nm = "%s_s%d" % (prefix, i)
            names.append(nm)
            defs.append("(* %s *)\nDefinition %s %s(now : Z) (f : frame) : frame :=\n  %s." % (
                txt(s).splitlines()[0][:100].replace("(*", "( *").replace("*)", "* )"), nm, args, term))
        call = "sh body nested " if args else ""
        defs.append("Definition %s_execute %s(m : sm) (now : Z) : frame :=\n  %s\n    (Build_frame m 0 0 None false 0 [] false false)%s." % (
            prefix, args, "\n  ".join("seqf (%s_s%d %snow) (" % (prefix, i, call) for i in reversed(range(len(names)))), ")" * len(names)))
        return defs, names


SECTION = ["Section Gen.", "Variable sh : shape.", "Variable body : nat -> name -> Z -> Z -> bool -> list action.",
           "Variable nested : sm -> Z -> sm * list event.", ""]


def reference(repo):
    """the text between the markers of coq/theories/SM/SrcExec.v (written once from the pinned source)"""
    defs, _ = Tr(repo).definitions("ref", "(sh : shape) (body : nat -> name -> Z -> Z -> bool -> list action) "
                                           "(nested : sm -> Z -> sm * list event) ")
    return "\n".join(defs)


def coq(repo):
    """work/<ID>/Gen_exec.v: execute() as the source has it NOW, and its equality with the reference translation
    that SM/SrcExecProofs.v proves equal to SM.Model.exec_step"""
    defs, names = Tr(repo).definitions("gen")
    L = [HEADER, "From RecordUpdate Require Import RecordSet.", "Import RecordSetNotations.",
         "From RV Require Import SM.Model SM.SrcExec SM.SrcExecProofs.", ""] + SECTION + defs
    for i in range(len(names)):
        L.append("Lemma regen_s%d : forall now f, gen_s%d now f = ref_s%d sh body nested now f.\nProof. first [ reflexivity | intros now f; "
                 "destruct f as [m ? ? ? ? ? ? ? ?]; destruct m; unfold gen_s%d, ref_s%d; cbn; "
                 "repeat (match goal with |- context [match ?x with _ => _ end] => destruct x eqn:? end; cbn in *; try congruence); "
                 "reflexivity ]. Qed." % (i, i, i, i, i))
    L.append("Lemma regen_execute : forall m now, gen_execute m now = ref_execute sh body nested m now.\nProof.\n  intros m now; "
             "unfold gen_execute, ref_execute.\n%s  reflexivity.\nQed.\n" % "".join(
                 "  rewrite (seqf_ext (gen_s%d now) (ref_s%d sh body nested now) _ (regen_s%d now)).\n" % (i, i, i) for i in range(len(names))))
    L.append(r"""
(* so execute(), as the source has it now, IS the model's exec_step (for every machine, clock, user code, nesting) *)
Theorem src_execute_is_exec_step : forall m now, is_state sh (sh_first sh) = true ->
  let f := gen_execute m now in
  let r := exec_step sh body nested m now in
  (f_err f = false -> f_m f = fst r /\ f_ev f = filter observable (snd r)) /\
  (f_err f = true -> In EvErr (snd r)).
Proof. intros m now H; rewrite regen_execute; exact (ref_execute_spec sh body nested m now H). Qed.
End Gen.
Print Assumptions src_execute_is_exec_step.
""")
    return "\n".join(L)


def obligation(ctx):
    from .common import REPO
    name = "regen:StateMachine.execute has the statement forms the translator recognises"
    try:
        text = coq(REPO)
    except Shape as e:
        ctx.obligation(name, False, str(e))
        return False
    except (SyntaxError, OSError, KeyError, IndexError, AttributeError) as e:
        ctx.obligation(name, False, repr(e))
        return False
    ctx.obligation(name, True, "")
    rc, out = ctx.coq_file("Gen_exec", text)
    ok = rc == 0 and "Closed under the global context" in out
    ctx.obligation("regen:Gen_exec (StateMachine.execute() translated from the source statement by statement == SM.Model.exec_step "
                   "for every machine state, clock reading, user code and nested iteration; SM/SrcExecProofs.v)", ok, out[-1500:])
    return ok


if __name__ == "__main__":
    import sys
    a = sys.argv[1:]
    if a and a[0] == "--ref":
        print(reference(a[1] if len(a) > 1 else "/repo"))
    else:
        print(coq(a[0] if a else "/repo"))
