"""C18: units.convert consistent and linear; MaxSonar and REV pressure sensors
report exact scaled values.

Tie to the source (DESIGN.md 4.2, 4.3, 6.10):
  * the unit table is REGENERATED from the imported module on every run
    (work/C18/Gen_units.v): parent pointers, and for every non-root unit the
    factors unit_to_base(1), base_to_unit(1) obtained by applying the unit's
    callables to exact numbers (class Ex: a Fraction; a float literal met in the
    arithmetic is read as the decimal its repr shows, 0.3048 -> 381/1250), plus
    probes at 3, -7/2, 0.  `units_ok gen_table = true`, `table_inverse gen_table
    = true` and `probes_ok gen_table gen_probes = true` are re-proved by
    computation and the theorems of Properties/C18.v are instantiated with it;
  * the two loops of convert() are tied SYMBOLICALLY: forests (depth 1-6, one in five up to 40, several
    roots) of the real `Unit` class whose callables are exact affine maps that log
    (unit id, direction); log and exact result of the real convert() must equal
    the model's (trace_tbl / convert_tbl over Q), compared inside Coq;
  * RE-ENTRANT unit definitions: user-defined units (real `Unit` class) whose
    callables themselves call units.convert on two earlier units (yard = Unit(meter,
    lambda m: convert(meter, inch, m) / 36, ...)), with further units chained below
    them and such definitions nested; the complete log of callable applications
    (nested activations included) and the exact result of the real convert() must
    equal trace_built / convert_built of the model (Units/Model.v: every activation
    of convert() works on its own chains), compared inside Coq (`reent_ok`); the
    oracle `check_reent` states identity / there-and-back / composition / linearity
    exactly on such units;
  * NUMERICALLY: all 16 ordered pairs and 64 triples of the built-in units,
    the sonar drivers (AnalogInputSim; the HAL simulation has no counter period,
    so getPeriod() of a subclass of the real wpilib.Counter is overridden) and
    the pressure sensor (AnalogInputSim, fresh sensor per case, optional
    calibrate()) against the Q model inside Coq, |impl - model| <= 1e-12 *
    (|model| + slack), floats passed as exact binary rationals;
  * HISTORIES: one sensor object and a sequence of calls (reads before, between
    and after calibrations, recalibrations, calibrate(-25) which raises, and
    ASSIGNMENTS of the public supply-voltage attribute `sensor.voltage_in = x`:
    the measured 5 V rail tracked while running, a sensor built with 0 / a
    placeholder and told its supply later, assignments after a calibration);
    every call's result against `observations` of the model inside Coq, and the
    oracle `check_history` states the formula clause for the supply voltage the
    object has NOW and the calibration clause over the object's lifetime.
"""
import importlib
import json
import math
import os
import sys
from fractions import Fraction

from . import common
from .common import time_limit, coq_bool, coq_list, coq_nat, parse_eval_lists, shards

NAMES = ["meter", "centimeter", "foot", "inch"]
# the property's constants: length of one unit in metres
METRES_PER = [Fraction(1), Fraction(1, 100), Fraction(3048, 10000), Fraction(3048, 10000) / 12]
US147 = Fraction(147, 10 ** 6)
MV4_9 = Fraction(49, 10 ** 4)
FLOOR = Fraction(1, 10 ** 5)
ORACLE_TOL = Fraction(1, 10 ** 9)
CASES_PER_FILE = 2000
HIST_PER_FILE = 500          # histories (2-12 calls each) per generated file
REENT_PER_FILE = 400         # conversions on re-entrant unit definitions per generated file


# --------------------------------------------------------------------------
# the implementation

class Impl:
    pass


def impl():
    for m in [k for k in sys.modules if k.startswith("robotpy_ext.common_drivers")]:
        del sys.modules[m]
    im = Impl()
    im.units = importlib.import_module("robotpy_ext.common_drivers.units")
    im.sonar = importlib.import_module("robotpy_ext.common_drivers.xl_max_sonar_ez")
    im.pressure = importlib.import_module("robotpy_ext.common_drivers.pressure_sensors")
    im.builtin = [getattr(im.units, n, None) for n in NAMES]
    im.names = list(NAMES)
    U = getattr(im.units, "Unit", None)
    if U is not None:                      # units somebody added to the module: ids 4, 5, ...
        for n, o in sorted(vars(im.units).items(), key=lambda kv: kv[0]):
            if isinstance(o, U) and all(o is not b for b in im.builtin):
                im.builtin.append(o)
                im.names.append(n)
    im.devices = None
    return im


def num_result(r):
    """canonical observation of a numeric return value"""
    if isinstance(r, bool) or not isinstance(r, (int, float, Fraction)):
        return ("bad", repr(r)[:80])
    if isinstance(r, float) and not math.isfinite(r):
        return ("nonfinite", repr(r))
    return ("ok", r)


def call_convert(im, a, b, x):
    try:
        with time_limit(5):
            r = im.units.convert(im.builtin[a], im.builtin[b], x)
    except Exception as e:
        return ("exc", type(e).__name__)
    return num_result(r)


def call_two_step(im, a, b, c, x):
    r1 = call_convert(im, a, b, x)
    if r1[0] != "ok":
        return r1
    return call_convert(im, b, c, r1[1])


class Devices:
    """The drivers on simulated hardware, created once per process."""

    def __init__(self, im):
        import wpilib
        import wpilib.simulation as ws
        import contextlib
        import io

        class SimCounter(wpilib.Counter):
            period = 0.0

            def getPeriod(self):
                return self.period

        self.ws = ws
        self.pw = {}
        self.an = {}
        self.an_sim = {}
        sonar = im.sonar
        orig = sonar.wpilib.Counter
        sonar.wpilib.Counter = SimCounter
        try:
            for out in range(4):
                self.pw[out] = sonar.MaxSonarEZPulseWidth(out, im.builtin[out])
            self.pw["default"] = sonar.MaxSonarEZPulseWidth(4)
        finally:
            sonar.wpilib.Counter = orig
        with contextlib.redirect_stdout(io.StringIO()):   # the "not verified" notice
            for out in range(4):
                self.an[out] = sonar.MaxSonarEZAnalog(out, im.builtin[out])
                self.an_sim[out] = ws.AnalogInputSim(out)
            self.an["default"] = sonar.MaxSonarEZAnalog(4)
            self.an_sim["default"] = ws.AnalogInputSim(4)
        self.p_channel = 7
        self.p_sim = ws.AnalogInputSim(self.p_channel)


def devices(im):
    if im.devices is None:
        im.devices = Devices(im)
    return im.devices


def call_sonar(im, pw, out, reading):
    """out: 0..3 or 'default' (constructor default = inch)"""
    try:
        d = devices(im)
        if pw:
            drv = d.pw[out]
            drv.counter.period = reading
        else:
            drv = d.an[out]
            d.an_sim[out].setVoltage(reading)
        r = drv.get()
    except Exception as e:
        return ("exc", type(e).__name__)
    return num_result(r)


def call_pressure(im, vcc, cal, v):
    """fresh sensor; vcc None = constructor default; cal = None | (vc, p)"""
    try:
        d = devices(im)
        cls = im.pressure.REVAnalogPressureSensor
        where = "constructor"
        s = cls(d.p_channel) if vcc is None else cls(d.p_channel, vcc)
        where = "calibrate()"
        try:
            if cal is not None:
                d.p_sim.setVoltage(cal[0])
                s.calibrate(cal[1])
            where = "pressure"
            d.p_sim.setVoltage(v)
            r = s.pressure
        finally:
            s.sensor = None
            del s
    except Exception as e:
        return ("exc", "%s raised %s" % (where, type(e).__name__))
    return num_result(r)


def call_history(im, vcc, ops):
    """ONE sensor object, the calls `ops` made on it in order; ops: ("read", v) |
    ("cal", v, p), v = what the analog input reads during the call | ("vcc", x) = the
    assignment `sensor.voltage_in = x`.
    -> one observation per call: read: num_result / ("exc", name); cal and vcc: ("ok", None) /
    ("exc", name).  The object lives on after a call that raised."""
    try:
        d = devices(im)
        cls = im.pressure.REVAnalogPressureSensor
        s = cls(d.p_channel) if vcc is None else cls(d.p_channel, vcc)
    except Exception as e:
        return [("exc", "constructor raised %s" % type(e).__name__)] * len(ops)
    obs = []
    try:
        for op in ops:
            try:
                if op[0] == "vcc":
                    s.voltage_in = op[1]
                    obs.append(("ok", None))
                    continue
                d.p_sim.setVoltage(op[1])
                if op[0] == "read":
                    obs.append(num_result(s.pressure))
                else:
                    s.calibrate(op[2])
                    obs.append(("ok", None))
            except Exception as e:
                obs.append(("exc", type(e).__name__))
    finally:
        try:
            s.sensor = None
        except Exception:
            pass
        del s
    return obs


# --------------------------------------------------------------------------
# exact probing of the unit callables

class Ex:
    """An exact number.  Floats met in arithmetic are read as the decimal
    fraction that their repr shows (the literal of the source)."""
    __slots__ = ("q",)

    def __init__(self, q):
        self.q = Fraction(q)

    @staticmethod
    def _lift(o):
        if isinstance(o, Ex):
            return o.q
        if isinstance(o, bool):
            return None
        if isinstance(o, (int, Fraction)):
            return Fraction(o)
        if isinstance(o, float) and math.isfinite(o):
            return Fraction(repr(o))
        return None

    def _bin(self, o, f):
        q = Ex._lift(o)
        if q is None:
            return NotImplemented
        return Ex(f(self.q, q))

    def __add__(self, o): return self._bin(o, lambda a, b: a + b)
    def __radd__(self, o): return self._bin(o, lambda a, b: b + a)
    def __sub__(self, o): return self._bin(o, lambda a, b: a - b)
    def __rsub__(self, o): return self._bin(o, lambda a, b: b - a)
    def __mul__(self, o): return self._bin(o, lambda a, b: a * b)
    def __rmul__(self, o): return self._bin(o, lambda a, b: b * a)
    def __truediv__(self, o): return self._bin(o, lambda a, b: a / b)
    def __rtruediv__(self, o): return self._bin(o, lambda a, b: b / a)
    def __neg__(self): return Ex(-self.q)
    def __pos__(self): return self


PROBES = [Fraction(1), Fraction(3), Fraction(-7, 2), Fraction(0)]


def regen_table(im):
    """-> (ok, detail, table, probes); table = [(parent|None, kt, kf)], ids 0..3
    are meter, centimeter, foot, inch, further Unit instances of the module after."""
    U = getattr(im.units, "Unit", None)
    objs = list(im.builtin)                # the four, then further Unit instances by name
    if U is None or any(o is None for o in objs):
        return False, "units module lacks Unit/%s" % NAMES, None, None
    # parents that are not module attributes
    i = 0
    while i < len(objs):
        p = getattr(objs[i], "base_unit", None)
        if p is not None and all(p is not o for o in objs):
            objs.append(p)
        i += 1
        if len(objs) > 64:
            return False, "more than 64 units", None, None
    table, probes = [], []
    for i, o in enumerate(objs):
        p = o.base_unit
        if p is None:
            table.append((None, Fraction(0), Fraction(0)))
            continue
        pi = [k for k, q in enumerate(objs) if q is p][0]
        try:
            tr = [(x, o.unit_to_base(Ex(x)), o.base_to_unit(Ex(x))) for x in PROBES]
        except Exception as e:
            return False, "unit %d: callable not applicable to exact numbers: %r" % (i, e), None, None
        if not all(isinstance(t, Ex) and isinstance(f, Ex) for _, t, f in tr):
            return False, "unit %d: callable does not return an exact number" % i, None, None
        table.append((pi, tr[0][1].q, tr[0][2].q))
        probes.append((i, [(x, t.q, f.q) for x, t, f in tr]))
    return True, "", table, probes


# --------------------------------------------------------------------------
# Coq literals

def hexZ(n):
    """hex literals: Coq interprets them in time linear in their length"""
    n = int(n)
    return "(-0x%x)%%Z" % -n if n < 0 else "0x%x%%Z" % n


def coq_Q(x):
    """int / float / Fraction as an exact Q term; a float is m * 2^e"""
    if isinstance(x, float):
        num, den = x.as_integer_ratio()
        if den == 1:
            e = (num & -num).bit_length() - 1 if num else 0
            return "(fl %s %s)" % (hexZ(num >> e), hexZ(e))
        return "(fl %s %s)" % (hexZ(num), hexZ(-(den.bit_length() - 1)))
    f = Fraction(x)
    if f.denominator == 1:
        return "(fl %s 0%%Z)" % hexZ(f.numerator)
    return "(Qmake %s 0x%x%%positive)" % (hexZ(f.numerator), f.denominator)


def coq_obs(r, f=coq_Q):
    return "(Some %s)" % f(r[1]) if r[0] == "ok" else "None"


HEADER = ("From Coq Require Import QArith List Bool.\n"
          "From RV Require Import Units.Model Units.Check.\n"
          "Import ListNotations.\n")


def gen_units_text(table, probes):
    rows = ["(%s, (%s, %s))" % ("None" if p is None else "Some %s" % coq_nat(p), coq_Q(kt), coq_Q(kf))
            for p, kt, kf in table]
    prs = ["(%s, %s)" % (coq_nat(u), coq_list(["(%s, %s, %s)" % (coq_Q(x), coq_Q(t), coq_Q(f)) for x, t, f in ps]))
           for u, ps in probes]
    return (HEADER +
            "Definition gen_table : ltable := %s.\n" % coq_list(rows) +
            "Definition gen_probes : list (nat * list (Q * Q * Q)) := %s.\n" % coq_list(prs) +
            "Definition gen_links := link_table gen_table.\n")


GEN_C18 = """From Coq Require Import QArith List Bool.
From RV Require Import Units.Model Units.Proofs Units.Check Properties.C18.
From W Require Import Gen_units.
Lemma gen_units_ok : units_ok gen_table = true.
Proof. vm_compute. reflexivity. Qed.
Lemma gen_table_inverse : table_inverse gen_table = true.
Proof. vm_compute. reflexivity. Qed.
Lemma gen_probes_linear : probes_ok gen_table gen_probes = true.
Proof. vm_compute. reflexivity. Qed.
Definition impl_constants := C18_constants gen_table gen_units_ok.
Definition impl_pairwise_factors := C18_pairwise_factors gen_table gen_units_ok.
Definition impl_chains_qualify := C18_builtin_chains_qualify gen_table gen_units_ok.
Definition impl_same_unit := fun u x y =>
  C18_table_same_unit gen_links u x y (table_inverse_inverse gen_table gen_table_inverse).
Definition impl_there_and_back := fun a b x y =>
  C18_table_there_and_back gen_links a b x y (table_inverse_inverse gen_table gen_table_inverse).
Definition impl_composition := fun a b c x y z =>
  C18_table_composition gen_links a b c x y z (table_inverse_inverse gen_table gen_table_inverse).
Definition impl_linear := fun a b x1 x2 c y1 y2 =>
  C18_table_linear gen_links a b x1 x2 c y1 y2 (table_inverse_linear gen_table gen_table_inverse).
Definition impl_all := (impl_constants, impl_pairwise_factors, impl_chains_qualify, impl_same_unit, impl_there_and_back, impl_composition, impl_linear).
Print Assumptions impl_all.
"""


# --------------------------------------------------------------------------
# regenerated sensor constants: the literals of xl_max_sonar_ez.py and
# pressure_sensors.py, read from the SOURCE with ast.  Fail closed: anything
# that is not of a recognised shape raises Unrecognised (the regen obligation is
# then recorded as broken; nothing is guessed).  Expressions are evaluated
# symbolically as quotients of polynomials with exact coefficients (float
# literals read as the decimals written), so `x / 0.000147`, `x * (1 / 0.000147)`,
# `250 * v / vcc - 25`, `(250 * v - 25 * vcc) / vcc` ... give the same constants.

class Unrecognised(Exception):
    pass


SYMS = ("R", "M", "S", "P")     # raw reading, floored reading, supply voltage, known_pressure


def _mono(**kw):
    return tuple(kw.get(n, 0) for n in SYMS)


class Rat:
    """num / den, polynomials {exponent tuple: Fraction}"""

    def __init__(self, num, den=None):
        self.num = {k: v for k, v in num.items() if v != 0}
        self.den = {_mono(): Fraction(1)} if den is None else {k: v for k, v in den.items() if v != 0}
        if not self.den:
            raise Unrecognised("division by a constant zero")

    @staticmethod
    def const(c):
        return Rat({_mono(): Fraction(c)})

    @staticmethod
    def sym(name):
        return Rat({_mono(**{name: 1}): Fraction(1)})

    @staticmethod
    def _pmul(a, b):
        out = {}
        for ka, va in a.items():
            for kb, vb in b.items():
                k = tuple(x + y for x, y in zip(ka, kb))
                out[k] = out.get(k, 0) + va * vb
        return out

    @staticmethod
    def _padd(a, b, sign=1):
        out = dict(a)
        for k, v in b.items():
            out[k] = out.get(k, 0) + sign * v
        return out

    def add(self, o, sign=1):
        if self.den == o.den:
            return Rat(Rat._padd(self.num, o.num, sign), self.den)
        return Rat(Rat._padd(Rat._pmul(self.num, o.den), Rat._pmul(o.num, self.den), sign),
                   Rat._pmul(self.den, o.den))

    def mul(self, o):
        return Rat(Rat._pmul(self.num, o.num), Rat._pmul(self.den, o.den))

    def div(self, o):
        if not o.num:
            raise Unrecognised("division by a constant zero")
        return Rat(Rat._pmul(self.num, o.den), Rat._pmul(self.den, o.num))

    def is_sym(self, name):
        return self.num == {_mono(**{name: 1}): Fraction(1)} and self.den == {_mono(): Fraction(1)}

    def as_const(self):
        if set(self.num) <= {_mono()} and set(self.den) == {_mono()}:
            return self.num.get(_mono(), Fraction(0)) / self.den[_mono()]
        return None

    def laurent(self):
        """num / den as a Laurent polynomial; den must be a single term"""
        if len(self.den) != 1:
            raise Unrecognised("denominator is not a single term")
        (kd, vd), = self.den.items()
        return {tuple(x - y for x, y in zip(k, kd)): v / vd for k, v in self.num.items()}

    def inverse(self):
        return Rat(self.den, self.num) if self.num else None


def _lit(node):
    import ast
    if isinstance(node, ast.Constant) and not isinstance(node.value, bool) and isinstance(node.value, (int, float)):
        v = node.value
        if isinstance(v, float):
            if not math.isfinite(v):
                raise Unrecognised("non-finite literal")
            return Fraction(repr(v))
        return Fraction(v)
    return None


def _is_self_attr(node, attr=None):
    import ast
    return (isinstance(node, ast.Attribute) and isinstance(node.value, ast.Name) and node.value.id == "self"
            and (attr is None or node.attr == attr))


class MethodEval:
    """Symbolic run of one straight-line method body."""

    def __init__(self, reading_method, params=(), consts=None):
        self.reading_method = reading_method      # getPeriod / getVoltage / getAverageVoltage
        self.env = dict(consts or {})             # module-level numeric constants
        self.module_names = set(self.env)
        self.params = dict(params)                # parameter name -> symbol
        self.floor = None
        self.supply_attr = None                   # ("Vn", "voltage_in")
        self.stored = {}                          # self.<attr> = value
        self.returned = None
        self.convert = None                       # (source unit name, Rat)
        self.except_value = None

    def floored(self, val, c):
        if not val.is_sym("R"):
            raise Unrecognised("floor applied to something else than the raw reading")
        if self.floor is not None:
            raise Unrecognised("two floors in one method")
        self.floor = c
        return Rat.sym("M")

    def expr(self, node):
        import ast
        c = _lit(node)
        if c is not None:
            return Rat.const(c)
        if isinstance(node, ast.Name):
            if node.id in self.env:
                return self.env[node.id]
            if node.id in self.params:
                return Rat.sym(self.params[node.id])
            raise Unrecognised("unknown name %s" % node.id)
        if isinstance(node, ast.UnaryOp) and isinstance(node.op, (ast.USub, ast.UAdd)):
            v = self.expr(node.operand)
            return Rat.const(-1).mul(v) if isinstance(node.op, ast.USub) else v
        if isinstance(node, ast.BinOp):
            a, b = self.expr(node.left), self.expr(node.right)
            if isinstance(node.op, ast.Add):
                return a.add(b)
            if isinstance(node.op, ast.Sub):
                return a.add(b, -1)
            if isinstance(node.op, ast.Mult):
                return a.mul(b)
            if isinstance(node.op, ast.Div):
                return a.div(b)
            raise Unrecognised("operator %s" % type(node.op).__name__)
        if isinstance(node, ast.Call) and not node.keywords:
            f = node.func
            # self.<device>.<reading_method>()
            if (isinstance(f, ast.Attribute) and f.attr == self.reading_method and not node.args
                    and _is_self_attr(f.value)):
                return Rat.sym("R")
            if isinstance(f, ast.Name) and f.id == "max" and len(node.args) == 2:
                a, b = self.expr(node.args[0]), self.expr(node.args[1])
                if b.as_const() is not None and a.as_const() is None:
                    return self.floored(a, b.as_const())
                if a.as_const() is not None and b.as_const() is None:
                    return self.floored(b, a.as_const())
                raise Unrecognised("max() of unexpected arguments")
            if (isinstance(f, ast.Name) and f.id == "getattr" and len(node.args) == 3
                    and isinstance(node.args[0], ast.Name) and node.args[0].id == "self"
                    and isinstance(node.args[1], ast.Constant) and isinstance(node.args[1].value, str)
                    and _is_self_attr(node.args[2])):
                attr = (node.args[1].value, node.args[2].attr)
                if self.supply_attr not in (None, attr):
                    raise Unrecognised("two different supply attributes")
                self.supply_attr = attr
                return Rat.sym("S")
        raise Unrecognised("expression %s" % ast.dump(node)[:120])

    def stmts(self, body, in_try=False):
        import ast
        for st in body:
            if self.returned is not None or self.convert is not None:
                raise Unrecognised("statement after return")
            if isinstance(st, ast.Expr) and isinstance(st.value, ast.Constant) and isinstance(st.value.value, str):
                continue                                            # docstring
            if isinstance(st, ast.Assign) and len(st.targets) == 1 and isinstance(st.targets[0], ast.Name):
                self.env[st.targets[0].id] = self.expr(st.value)
                self.module_names.discard(st.targets[0].id)
            elif isinstance(st, ast.Assign) and len(st.targets) == 1 and _is_self_attr(st.targets[0]):
                self.stored[st.targets[0].attr] = self.expr(st.value)
            elif (isinstance(st, ast.If) and not st.orelse and len(st.body) == 1
                  and isinstance(st.test, ast.Compare) and len(st.test.ops) == 1
                  and isinstance(st.test.ops[0], (ast.Lt, ast.LtE))
                  and isinstance(st.test.left, ast.Name) and isinstance(st.body[0], ast.Assign)
                  and len(st.body[0].targets) == 1 and isinstance(st.body[0].targets[0], ast.Name)
                  and st.body[0].targets[0].id == st.test.left.id and st.test.left.id in self.env
                  and st.test.left.id not in self.module_names):
                # if v < c: v = c      ==  v = max(v, c)
                c1 = self.expr(st.test.comparators[0]).as_const()
                c2 = self.expr(st.body[0].value).as_const()
                if c1 is None or c1 != c2:
                    raise Unrecognised("if-floor with two different constants")
                self.env[st.test.left.id] = self.floored(self.env[st.test.left.id], c1)
            elif isinstance(st, ast.Return) and st.value is not None:
                v = st.value
                if (isinstance(v, ast.Call) and not v.keywords and len(v.args) == 3
                        and isinstance(v.func, ast.Attribute) and v.func.attr == "convert"
                        and isinstance(v.func.value, ast.Name) and v.func.value.id == "units"
                        and isinstance(v.args[0], ast.Attribute) and isinstance(v.args[0].value, ast.Name)
                        and v.args[0].value.id == "units" and _is_self_attr(v.args[1], "output_units")):
                    self.convert = (v.args[0].attr, self.expr(v.args[2]))
                else:
                    self.returned = self.expr(v)
            elif (isinstance(st, ast.Try) and not in_try and not st.orelse and not st.finalbody
                  and len(st.handlers) == 1 and len(body) == 1):
                h = st.handlers[0]
                if not (isinstance(h.type, ast.Name) and h.type.id == "ZeroDivisionError" and len(h.body) == 1
                        and isinstance(h.body[0], ast.Return) and h.body[0].value is not None
                        and _lit(h.body[0].value) is not None):
                    raise Unrecognised("handler is not `except ZeroDivisionError: return <number>`")
                self.except_value = _lit(h.body[0].value)
                self.stmts(st.body, in_try=True)
            else:
                raise Unrecognised("statement %s" % ast.dump(st)[:120])


def _method(tree, cls, name):
    import ast
    for c in tree.body:
        if isinstance(c, ast.ClassDef) and c.name == cls:
            found = [f for f in c.body if isinstance(f, ast.FunctionDef) and f.name == name]
            if len(found) == 1:
                return found[0]
    raise Unrecognised("%s.%s not found (or defined twice)" % (cls, name))


def _module_consts(tree):
    """NAME = <arithmetic on numeric literals> at module level, assigned exactly once"""
    import ast
    out, seen = {}, {}
    for st in ast.walk(tree):
        for t in getattr(st, "targets", []) if isinstance(st, ast.Assign) else []:
            for n in ast.walk(t):
                if isinstance(n, ast.Name):
                    seen[n.id] = seen.get(n.id, 0) + 1
        if isinstance(st, (ast.AugAssign, ast.AnnAssign, ast.Global, ast.Nonlocal)):
            for n in ast.walk(st):
                if isinstance(n, ast.Name):
                    seen[n.id] = seen.get(n.id, 0) + 2
            for n in getattr(st, "names", []):
                seen[n] = seen.get(n, 0) + 2
    for st in tree.body:
        if isinstance(st, ast.Assign) and len(st.targets) == 1 and isinstance(st.targets[0], ast.Name):
            name = st.targets[0].id
            if seen.get(name) != 1:
                continue
            try:
                v = MethodEval(None, consts=out).expr(st.value)
            except Unrecognised:
                continue
            if v.as_const() is not None:
                out[name] = v
    return out


def _sonar(tree, cls, reading_method):
    f = _method(tree, cls, "get")
    if [a.arg for a in f.args.args] != ["self"] or f.decorator_list:
        raise Unrecognised("%s.get signature" % cls)
    ev = MethodEval(reading_method, consts=_module_consts(tree))
    ev.stmts(f.body)
    if ev.convert is None or ev.floor is not None or ev.stored:
        raise Unrecognised("%s.get is not `return units.convert(units.<u>, self.output_units, <reading * k>)`" % cls)
    unit, val = ev.convert
    if unit not in NAMES:
        raise Unrecognised("%s.get converts from unknown unit %s" % (cls, unit))
    L = val.laurent()
    if set(L) != {_mono(R=1)}:
        raise Unrecognised("%s.get: value is not a multiple of the reading" % cls)
    return NAMES.index(unit), 1 / L[_mono(R=1)]


def extract_sensor_consts(repo):
    """-> dict of exact constants; raises Unrecognised"""
    import ast
    d = os.path.join(repo, "robotpy_ext", "common_drivers")
    out = {}
    tree = ast.parse(open(os.path.join(d, "xl_max_sonar_ez.py")).read())
    out["pw_unit"], out["pw_div"] = _sonar(tree, "MaxSonarEZPulseWidth", "getPeriod")
    out["an_unit"], out["an_div"] = _sonar(tree, "MaxSonarEZAnalog", "getVoltage")
    tree = ast.parse(open(os.path.join(d, "pressure_sensors.py")).read())
    # --- pressure property
    f = _method(tree, "REVAnalogPressureSensor", "pressure")
    decos = [x.id for x in f.decorator_list if isinstance(x, ast.Name)]
    if decos != ["property"] or len(f.decorator_list) != 1 or [a.arg for a in f.args.args] != ["self"]:
        raise Unrecognised("pressure is not a plain property")
    ev = MethodEval("getAverageVoltage", consts=_module_consts(tree))
    ev.stmts(f.body)
    if ev.returned is None or ev.floor is None or ev.except_value is None or ev.supply_attr is None or ev.stored:
        raise Unrecognised("pressure: need try/except ZeroDivisionError, a floored reading and the supply getattr")
    L = ev.returned.laurent()
    kM, k1 = _mono(M=1, S=-1), _mono()
    if not set(L) <= {kM, k1} or kM not in L:
        raise Unrecognised("pressure: value is not scale * (floored reading / supply) - offset")
    out["scale"], out["offset"] = L[kM], -L.get(k1, Fraction(0))
    out["floor"], out["zero"] = ev.floor, ev.except_value
    vn_attr = ev.supply_attr[0]
    # --- calibrate
    f = _method(tree, "REVAnalogPressureSensor", "calibrate")
    args = [a.arg for a in f.args.args]
    if len(args) != 2 or args[0] != "self" or f.decorator_list or f.args.defaults:
        raise Unrecognised("calibrate signature")
    ev = MethodEval("getAverageVoltage", params={args[1]: "P"}, consts=_module_consts(tree))
    ev.stmts(f.body)
    if ev.returned is not None or ev.floor is None or set(ev.stored) != {vn_attr} or ev.except_value is not None:
        raise Unrecognised("calibrate: need a floored reading and exactly the assignment self.%s = ..." % vn_attr)
    inv = ev.stored[vn_attr].inverse()
    if inv is None:
        raise Unrecognised("calibrate stores 0")
    L = inv.laurent()                                    # 1 / Vn
    kP, k0 = _mono(M=-1, P=1), _mono(M=-1)
    if not set(L) <= {kP, k0}:
        raise Unrecognised("calibrate: Vn is not floored reading / (slope * p + offset)")
    out["cal_floor"], out["cal_slope"], out["cal_off"] = ev.floor, L.get(kP, Fraction(0)), L.get(k0, Fraction(0))
    return out


def gen_sensors_text(k):
    return (HEADER + "Definition gen_consts : sconsts :=\n"
            "  {| c_pw_unit := %s; c_pw_div := %s; c_an_unit := %s; c_an_div := %s;\n"
            "     c_scale := %s; c_offset := %s; c_floor := %s; c_zero := %s;\n"
            "     c_cal_floor := %s; c_cal_slope := %s; c_cal_off := %s |}.\n" %
            (coq_nat(k["pw_unit"]), coq_Q(k["pw_div"]), coq_nat(k["an_unit"]), coq_Q(k["an_div"]),
             coq_Q(k["scale"]), coq_Q(k["offset"]), coq_Q(k["floor"]), coq_Q(k["zero"]),
             coq_Q(k["cal_floor"]), coq_Q(k["cal_slope"]), coq_Q(k["cal_off"])))


GEN_C18S = """From Coq Require Import QArith List Bool.
From RV Require Import Units.Model Units.Proofs Units.Check Properties.C18.
From W Require Import Gen_units Gen_C18 Gen_sensors.
Lemma gen_consts_ok : consts_ok gen_consts = true.
Proof. vm_compute. reflexivity. Qed.
Definition impl_sonar_scale := C18_sonar_scale gen_table gen_units_ok gen_consts gen_consts_ok.
Definition impl_sonar_native := C18_sonar_native gen_table gen_units_ok gen_consts gen_consts_ok.
Definition impl_pressure_formula := C18_pressure_formula gen_consts gen_consts_ok.
Definition impl_pressure_below_floor := C18_pressure_below_floor gen_consts gen_consts_ok.
Definition impl_pressure_total := C18_pressure_total gen_consts gen_consts_ok.
Definition impl_calibrated := C18_calibrated gen_consts gen_consts_ok.
Definition impl_calibrated_general := C18_calibrated_general gen_consts gen_consts_ok.
Definition impl_floor_positive := C18_floor_positive gen_consts gen_consts_ok.
Definition impl_reads_keep_state := C18_reads_keep_state gen_consts.
Definition impl_history_calibrated := C18_history_calibrated gen_consts gen_consts_ok.
Definition impl_history_calibrated_general := C18_history_calibrated_general gen_consts gen_consts_ok.
Definition impl_history_uncalibrated := C18_history_uncalibrated gen_consts gen_consts_ok.
Definition impl_history_supply_tracked := C18_history_supply_tracked gen_consts gen_consts_ok.
Definition impl_history_supply_total := C18_history_supply_total gen_consts gen_consts_ok.
Definition impl_history_set_supply := C18_history_set_supply gen_consts.
Definition impl_history_no_calibrate_state := C18_history_no_calibrate_state gen_consts.
Definition impl_history_reads_never_raise := C18_history_reads_never_raise gen_consts gen_consts_ok.
Definition impl_history_calibrate_outcome := C18_history_calibrate_outcome gen_consts gen_consts_ok.
Definition impl_history_spec := C18_history_spec gen_consts gen_consts_ok.
Definition impl_sensors := (impl_sonar_scale, impl_sonar_native, impl_pressure_formula, impl_pressure_below_floor,
  impl_pressure_total, impl_calibrated, impl_calibrated_general, impl_floor_positive,
  impl_reads_keep_state, impl_history_calibrated, impl_history_calibrated_general, impl_history_uncalibrated,
  impl_history_reads_never_raise, impl_history_calibrate_outcome, impl_history_spec,
  impl_history_supply_tracked, impl_history_supply_total, impl_history_set_supply, impl_history_no_calibrate_state).
Print Assumptions impl_sensors.
"""


# --------------------------------------------------------------------------
# generators

SPECIAL_X = [1.0, 0.0, -0.0, -1.0, 100.0, 0.3048, 12.0, 30.48, 2.54, 0.01, 3.0, 1, 5, -7, 1 / 3,
             91.44, 48.0, 1e-290, -1e-290, 1e290, -1e290, 5e-200, 123456789.123, 2.0 ** 60, 2.0 ** -60]


def gen_value(r):
    k = r.random()
    if k < 0.35:
        return r.uniform(-1000.0, 1000.0)
    if k < 0.65:
        return r.choice([-1, 1]) * 10.0 ** r.uniform(-30, 30)
    if k < 0.75:
        return float(r.randint(-10 ** 6, 10 ** 6))
    if k < 0.80:
        return r.randint(-10 ** 6, 10 ** 6)          # a Python int
    if k < 0.90:
        return r.choice([-1, 1]) * 10.0 ** r.uniform(-280, 280)
    return round(r.uniform(-500, 500), r.choice([0, 1, 2, 3]))


def gen_values(r, n):
    return (SPECIAL_X + [gen_value(r) for _ in range(max(0, n - len(SPECIAL_X)))])[:max(n, len(SPECIAL_X))]


def gen_period(r):
    k = r.random()
    if k < 0.1:
        return r.choice([0.0, 0.000147, 0.000147 * 12, 0.0441, 1.0])
    if k < 0.3:
        return r.randint(0, 400) * 0.000147
    if k < 0.8:
        return r.uniform(0.0, 0.06)
    return 10.0 ** r.uniform(-9, 1)


def gen_voltage(r):
    k = r.random()
    if k < 0.1:
        return r.choice([0.0, 0.0049, 0.0049 * 2.54, 5.0, 3.3, 2.5, -0.0])
    if k < 0.3:
        return r.randint(0, 1020) * 0.0049
    if k < 0.8:
        return r.uniform(0.0, 5.0)
    if k < 0.9:
        return -r.uniform(0.0, 0.5)
    return 10.0 ** r.uniform(-9, 1)


def gen_pressure_case(r):
    k = r.random()
    if k < 0.08:
        vcc = None
    elif k < 0.25:
        vcc = r.choice([5, 5.0, 3.3, 12.0, 4.85])
    elif k < 0.8:
        vcc = r.uniform(0.5, 12.0)
    elif k < 0.88:
        vcc = r.choice([0, 0.0, -0.0])
    elif k < 0.94:
        vcc = 10.0 ** r.uniform(-4, 3)
    else:
        vcc = -r.uniform(0.5, 12.0)
    k = r.random()
    if k < 0.15:
        v = r.choice([0.00001, 0.0, -0.5, 5e-6, 1.1e-5, 1e-6, 9.999e-6, 1.0000001e-5, -0.0, 0.5, 2.0])
    elif k < 0.8:
        v = r.uniform(0.0, 5.0)
    else:
        v = r.choice([-1, 1, 1, 1]) * 10.0 ** r.uniform(-7, 1)
    cal = None
    if r.random() < 0.45:
        k = r.random()
        if k < 0.15:
            p = r.choice([0, 0.0, 50, 200, 25, 60.5, 120])
        elif k < 0.9:
            p = r.uniform(0.0, 250.0)
        else:
            p = r.uniform(-20.0, 0.0)            # outside the property's domain, inside the model's
        vc = v if r.random() < 0.7 else gen_pressure_case_voltage(r)
        cal = (vc, p)
    return vcc, cal, v


def gen_pressure_case_voltage(r):
    return r.choice([0.0, 1e-6, 0.00001, r.uniform(0.0, 5.0), r.uniform(0.0, 5.0), -r.uniform(0, 1)])


# ---- histories: one sensor object, a sequence of reads, calibrations and
# assignments of the public attribute voltage_in

def R(v):
    return ("read", v)


def C(v, p):
    return ("cal", v, p)


def V(x):
    """sensor.voltage_in = x"""
    return ("vcc", x)


def systematic_histories():
    """smallest / most ordinary first; every order of reads and calibrations up to
    length 3, then recalibration, failed calibration, floor, vcc = 0"""
    out = []
    for vcc in (5.0, 3.3, None):
        out += [
            (vcc, [R(2.0), C(2.0, 50), R(2.0)]),                      # read BEFORE calibrate
            (vcc, [C(2.0, 50), R(2.0), R(2.0)]),
            (vcc, [R(0.5), R(1.0), R(2.0), R(0.5)]),                  # uncalibrated reads in a row
            (vcc, [C(1.0, 20), R(1.0), C(3.1, 110), R(3.1), R(1.55)]),  # recalibrate after a read
            (vcc, [C(2.0, 50), C(1.0, 0), R(1.0), R(2.0)]),           # two calibrations in a row
            (vcc, [R(2.0), R(1.0), C(1.0, 60.5), R(3.0), R(1.0)]),    # reads elsewhere in between
            (vcc, [R(2.0), C(2.0, -25), R(2.0)]),                     # failed calibrate: unchanged
            (vcc, [C(2.0, 50), R(2.0), C(2.0, -25), R(2.0)]),
            (vcc, [R(0.0), C(0.0, 60.0), R(0.0), R(1e-6), R(1.0)]),   # below the floor
        ]
    out += [(0, [R(2.0), C(1.0, 100), R(1.0)]),                       # first read takes the except path
            (0.0, [R(2.0), R(0.0)]),
            (-5.0, [R(2.0), C(2.0, 10), R(2.0)])]
    return out + systematic_supply_histories()


def systematic_supply_histories():
    """the public attribute voltage_in assigned after construction (uncalibrated sensor
    tracking the measured supply rail; built with 0 / a placeholder, told later;
    assignments around a calibration)"""
    return [
        (5.0, [V(3.3), R(2.0)]),                                  # assigned before the first read
        (5.0, [R(2.0), V(3.3), R(2.0)]),                          # ... after a read
        (None, [R(2.5), V(4.71), R(2.5), R(0.6)]),                # constructor default, the rail sags
        (5, [R(2.5), V(4.93), R(2.5), V(4.52), R(2.5), V(5.04), R(4.2), V(5), R(2.5)]),   # sags and recovers
        (0, [R(2.0), V(4.96), R(2.0)]),                           # built with 0: reports 0, then the formula
        (0.0, [V(5.0), R(2.0), R(1.0)]),
        (1, [V(5), R(2.0)]),                                      # placeholder
        (5.0, [V(0), R(2.0), V(5.0), R(2.0)]),                    # set to 0: 0 without raising; and back
        (3.3, [V(-5.0), R(2.0), V(3.3), R(0.0), R(1e-6)]),
        (5.0, [C(2.0, 50), V(4.7), R(2.0)]),                      # the calibration in force wins
        (5.0, [V(4.7), C(2.0, 50), R(2.0), V(0), R(2.0), R(1.0)]),
        (5.0, [V(4.7), R(2.0), C(2.0, -25), R(2.0)]),             # a failed calibrate keeps the assigned supply
        (3.3, [R(1.0), V(5.0), R(1.0), C(1.0, 20), V(3.3), R(1.0), C(3.1, 110), V(12.0), R(3.1)]),
    ]


def gen_hist_supply(r):
    """a value assigned to voltage_in: mostly the measured 5 V rail"""
    k = r.random()
    if k < 0.45:
        return round(r.uniform(4.4, 5.2), r.choice([1, 2, 2, 3]))
    if k < 0.6:
        return r.choice([5, 5.0, 3.3, 12.0, 4.85])
    if k < 0.8:
        return r.uniform(0.5, 12.0)
    if k < 0.9:
        return r.choice([0, 0.0, -0.0])
    if k < 0.96:
        return 10.0 ** r.uniform(-4, 3)
    return -r.uniform(0.5, 12.0)


def gen_hist_vcc(r):
    k = r.random()
    if k < 0.1:
        return None
    if k < 0.35:
        return r.choice([5, 5.0, 3.3, 12.0, 4.85])
    if k < 0.85:
        return r.uniform(0.5, 12.0)
    if k < 0.92:
        return r.choice([0, 0.0, -0.0])
    if k < 0.96:
        return 10.0 ** r.uniform(-4, 3)
    return -r.uniform(0.5, 12.0)


def gen_hist_voltage(r):
    k = r.random()
    if k < 0.7:
        return r.uniform(0.0, 5.0)
    if k < 0.8:
        return round(r.uniform(0.0, 5.0), 2)
    if k < 0.92:
        return r.choice([0.0, 1e-6, 0.00001, 5e-6, 1.1e-5, -0.0, -0.5])
    return r.choice([-1, 1, 1]) * 10.0 ** r.uniform(-7, 1)


def gen_hist_p(r):
    k = r.random()
    if k < 0.15:
        return r.choice([0, 0.0, 50, 200, 25, 60.5, 120])
    if k < 0.87:
        return r.uniform(0.0, 250.0)
    if k < 0.96:
        return r.uniform(-20.0, 0.0)             # outside the property's domain, inside the model's
    return r.choice([-25, -25.0])                # calibrate raises, the object must stay as it was


def gen_history(r, maxlen=8):
    """Mostly ordinary use: few distinct voltages (so that reads AT a calibration
    voltage are frequent), reads before / between / after calibrations."""
    vcc = gen_hist_vcc(r)
    # 40 % of the histories assign voltage_in while the object lives (mostly uncalibrated
    # sensors: fewer calibrations there); a third of those are built with 0 / a placeholder
    track = r.random() < 0.4
    if track and r.random() < 0.33:
        vcc = r.choice([0, 0.0, 0, 1, 5, 1.0])
    p_cal = 0.15 if track else 0.4
    pool = [gen_hist_voltage(r) for _ in range(r.choice([1, 2, 2, 3]))]
    volt = lambda: r.choice(pool) if r.random() < 0.85 else gen_hist_voltage(r)
    n = r.randint(2, maxlen)
    ops = []
    shape = r.random()
    for i in range(n):
        if i == 0 and shape < 0.45:
            ops.append(R(volt()))                # a reading before anything else
        elif track and r.random() < 0.35:
            ops.append(V(gen_hist_supply(r)))    # sensor.voltage_in = ...
        elif r.random() < p_cal:
            ops.append(C(volt(), gen_hist_p(r)))
        else:
            last = [o for o in ops if o[0] == "cal"]
            if last and r.random() < 0.6:
                ops.append(R(last[-1][1]))       # at the voltage of the calibration in force
            else:
                ops.append(R(volt()))
    if ops[-1][0] == "cal":                      # a calibration nobody looks at shows nothing
        ops.append(R(ops[-1][1]))
    elif ops[-1][0] == "vcc":                    # nor does an assignment
        last = [o for o in ops if o[0] == "cal"]
        ops.append(R(last[-1][1]) if last and r.random() < 0.6 else R(volt()))
    return vcc, ops


def history_features(ops):
    f = set()
    seen_read = seen_cal = False
    pending = None                               # an assignment of voltage_in not yet followed by a read
    for o in ops:
        if o[0] == "vcc":
            f.add("supply-assigned")
            f.add("supply-assigned-after-a-calibrate-call" if seen_cal else "supply-assigned-before-any-calibrate-call")
            if seen_read:
                f.add("supply-assigned-after-a-read")
            pending = "cal" if seen_cal else "uncal"
            continue
        if o[0] == "read" and pending:
            f.add("read-after-supply-assigned-%s" % ("with-calibrate-before" if pending == "cal" else "never-calibrated"))
            pending = None
        if o[0] == "cal":
            if seen_read:
                f.add("calibrate-after-a-read")
            if seen_cal:
                f.add("recalibrate")
            if Fraction(o[2]) == -25:
                f.add("failing-calibrate")
            seen_cal = True
            pending = "cal" if pending else None
        else:
            seen_read = True
    if not seen_cal:
        f.add("reads-only")
    return f


def small_frac(r, nonzero=False):
    while True:
        q = Fraction(r.randint(-9, 9), r.randint(1, 9))
        if q != 0 or not nonzero:
            return q


def gen_forest(r):
    """-> list of (parent|None, a, b): unit i converts to its base by x -> a*x + b"""
    tall = r.random() < 0.2                   # chains of any depth: a ladder far taller than the built-in units' 2-3 hops
    n = r.randint(14, 40) if tall else r.randint(2, 12)
    maxd = 40 if tall else 6
    nroots = r.choice([1, 1, 2, 3])
    spec, depth = [], []
    shape = r.random() * (0.4 if tall else 1)
    linear = r.random() < 0.35
    for i in range(n):
        if i < nroots:
            spec.append((None, Fraction(1), Fraction(0)))
            depth.append(0)
            continue
        cands = [j for j in range(i) if depth[j] < maxd]
        if shape < 0.4:                      # deep: hang below the deepest allowed
            m = max(depth[j] for j in cands)
            cands = [j for j in cands if depth[j] == m]
        p = r.choice(cands)
        a = small_frac(r, nonzero=True)
        b = Fraction(0) if linear or r.random() < 0.3 else small_frac(r)
        spec.append((p, a, b))
        depth.append(depth[p] + 1)
    return spec


def chain_forest(coeffs):
    """a single chain root <- u1 <- u2 ...; coeffs for u1, u2, ..."""
    spec = [(None, Fraction(1), Fraction(0))]
    for i, (a, b) in enumerate(coeffs):
        spec.append((i, Fraction(a), Fraction(b)))
    return spec


def build_forest(im, spec, log):
    objs = []
    for i, (p, a, b) in enumerate(spec):
        if p is None:
            # a root is declared the way the library declares `meter`: placeholder callables that must never be used
            def up(x, i=i):
                log.append((i, True))
                return None

            def down(x, i=i):
                log.append((i, False))
                return None
        else:
            def up(x, i=i, a=a, b=b):
                log.append((i, True))
                return a * x + b

            def down(y, i=i, a=a, b=b):
                log.append((i, False))
                return (y - b) / a
        objs.append(im.units.Unit(base_unit=None if p is None else objs[p], base_to_unit=down, unit_to_base=up))
    return objs


def call_forest(im, spec, a, b, x):
    log = []
    try:
        objs = build_forest(im, spec, log)
        with time_limit(5):
            r = im.units.convert(objs[a], objs[b], x)
    except Exception as e:
        return ("exc", type(e).__name__)
    if not isinstance(r, Fraction):
        return ("bad", repr(r)[:80])
    return ("ok", (list(log), r))


# ---- re-entrant unit definitions: callables that call units.convert themselves
#
# spec: list of entries, unit i = (parent|None, "aff", a, b)   x -> a*x + b and its inverse
#                              | (parent|None, "via", s, d, k) base_to_unit = lambda m: convert(U[s], U[d], m) / k
#                                                              unit_to_base = lambda y: convert(U[d], U[s], y * k)
# parent, s, d < i (a definition can only mention units that exist already).

def AFF(p, a, b=0):
    return (p, "aff", Fraction(a), Fraction(b))


def VIA(p, s, d, k):
    return (p, "via", s, d, Fraction(k))


def reent_depths(spec):
    d = []
    for e in spec:
        d.append(0 if e[0] is None else d[e[0]] + 1)
    return d


def reent_via_above(spec):
    """per unit: 0 = no via unit on its chain; 1 = it is one / has one above; 2 = a via unit STRICTLY
    above it (the outer loop has further steps to do after the nested call returned)"""
    out = []
    for i, e in enumerate(spec):
        above = 0 if e[0] is None else (2 if out[e[0]] >= 1 else 0)
        own = 1 if (e[1] == "via" and e[0] is not None) else 0
        out.append(max(above, own))
    return out


def reent_is_linear(spec):
    return all(e[1] == "via" or e[0] is None or e[3] == 0 for e in spec)


def gen_reent(r):
    """2-3 plain units first (something for nested calls to walk), then a mix; at least one unit
    whose callables call convert() AND has a unit chained below it."""
    for _ in range(50):
        n = r.randint(3, 9)
        nroots = r.choice([1, 1, 1, 2])
        linear = r.random() < 0.5
        spec, depth, is_via = [], [], []
        for i in range(n):
            if i < nroots:
                spec.append(AFF(None, 1, 0))
                depth.append(0)
                is_via.append(False)
                continue
            cands = [j for j in range(i) if depth[j] < 5]
            vias = [j for j in cands if is_via[j] or (spec[j][0] is not None and is_via[spec[j][0]])]
            k = r.random()
            if vias and k < 0.5:
                p = r.choice(vias)                   # below a unit that calls convert()
            elif k < 0.75:
                m = max(depth[j] for j in cands)
                p = r.choice([j for j in cands if depth[j] == m])
            else:
                p = r.choice(cands)
            if r.random() < 0.4 and i >= nroots:
                deep = [j for j in range(i) if depth[j] >= 1]
                s_ = r.choice(deep) if deep and r.random() < 0.5 else r.randrange(i)
                d_ = r.choice(deep) if deep and r.random() < 0.7 else r.randrange(i)
                spec.append(VIA(p, s_, d_, small_frac(r, nonzero=True)))
                is_via.append(True)
            else:
                spec.append(AFF(p, small_frac(r, nonzero=True),
                                0 if linear or r.random() < 0.3 else small_frac(r)))
                is_via.append(False)
            depth.append(depth[p] + 1)
        if 2 in reent_via_above(spec):
            return spec
    return systematic_reent()[1]


def systematic_reent():
    """smallest first"""
    return [
        # yard-like: callables call convert() between roots (empty nested chains), a unit below it
        [AFF(None, 1), VIA(0, 0, 0, 3), AFF(1, 2)],
        # u1 plain; u2 = via convert(root, u1) / 3; u3 below u2
        [AFF(None, 1), AFF(0, 2), VIA(0, 0, 1, 3), AFF(2, 5)],
        # the same with offsets, and two units below
        [AFF(None, 1), AFF(0, 2, 1), VIA(0, 0, 1, 3), AFF(2, 5, 4), AFF(3, 7, 9)],
        # metre / foot / inch / yard / fathom / cable (exact decimals)
        [AFF(None, 1), AFF(0, Fraction(3048, 10000)), AFF(1, Fraction(1, 12)), VIA(0, 0, 2, 36), AFF(3, 2),
         AFF(4, 100)],
        # the via unit in the middle of a chain (the SOURCE loop has steps left after the nested call too)
        [AFF(None, 1), AFF(0, 2), AFF(1, 3), VIA(2, 0, 2, 5), AFF(3, 7), AFF(4, 11)],
        # nesting: a via unit whose nested conversion runs through another via unit
        [AFF(None, 1), AFF(0, 2), VIA(0, 0, 1, 3), AFF(2, 5), VIA(1, 1, 3, 7), AFF(4, 2), AFF(5, 3, 1)],
        # rod-like: ... + a via unit defined below foot through yard
        [AFF(None, 1), AFF(0, Fraction(3048, 10000)), AFF(1, Fraction(1, 12)), VIA(0, 0, 2, 36), AFF(3, 2),
         VIA(1, 1, 3, Fraction(11, 2)), AFF(5, 4)],
        # two via units in one chain
        [AFF(None, 1), AFF(0, 2), VIA(1, 0, 1, 3), VIA(2, 1, 2, 5), AFF(3, 7), AFF(4, 2, 3)],
    ]


def build_reent(im, spec, log):
    objs = []
    conv = im.units.convert
    for i, e in enumerate(spec):
        p = e[0]
        if p is None:
            # placeholder callables, like the library's own root unit: never used by a correct convert()
            def up(x, i=i):
                log.append((i, True))
                return None

            def down(x, i=i):
                log.append((i, False))
                return None
        elif e[1] == "aff":
            def up(x, i=i, a=e[2], b=e[3]):
                log.append((i, True))
                return a * x + b

            def down(y, i=i, a=e[2], b=e[3]):
                log.append((i, False))
                return (y - b) / a
        else:
            def up(y, i=i, s_=e[2], d_=e[3], k=e[4]):
                log.append((i, True))
                return conv(objs[d_], objs[s_], y * k)

            def down(m, i=i, s_=e[2], d_=e[3], k=e[4]):
                log.append((i, False))
                return conv(objs[s_], objs[d_], m) / k
        objs.append(im.units.Unit(base_unit=None if p is None else objs[p], base_to_unit=down, unit_to_base=up))
    return objs


def call_reent(im, spec, a, b, x):
    log = []
    try:
        objs = build_reent(im, spec, log)
        with time_limit(5):
            r = im.units.convert(objs[a], objs[b], x)
    except Exception as e:
        return ("exc", type(e).__name__)
    if not isinstance(r, Fraction):
        return ("bad", repr(r)[:80])
    return ("ok", (list(log), r))


# --------------------------------------------------------------------------
# the property stated directly over implementation observations (oracle)

def rel_close(got, exp, slack=0, tol=ORACLE_TOL):
    return abs(Fraction(got) - Fraction(exp)) <= tol * (abs(Fraction(exp)) + slack)


def factor(a, b):
    return METRES_PER[a] / METRES_PER[b]


def viol(kind, fingerprint, what, **kw):
    d = {"kind": kind, "fingerprint": fingerprint, "what": what}
    d.update(kw)
    return d


def enc(x):
    """JSON encoding of an input number (int / float / Fraction), exact"""
    if isinstance(x, Fraction):
        return {"frac": [x.numerator, x.denominator]}
    if isinstance(x, float):
        return {"float": x.hex(), "approx": x}
    return x


def dec(x):
    if isinstance(x, dict) and "frac" in x:
        return Fraction(x["frac"][0], x["frac"][1])
    if isinstance(x, dict) and "float" in x:
        return float.fromhex(x["float"])
    return x


def check_convert(im, clause, a, b, c, x, y=None):
    """One clause of the property on the built-in units.  -> None | violation"""
    nm = lambda u: im.names[u]
    base = dict(clause=clause, a=a, b=b, c=c, x=enc(x), y=enc(y))
    if clause == "factor":        # covers identity and the three constants
        r = call_convert(im, a, b, x)
        exp = Fraction(x) * factor(a, b)
        if r[0] != "ok" or not rel_close(r[1], exp):
            return viol("convert", "convert-wrong-factor",
                        "convert(%s, %s, %r) = %r, expected %s (%s %s per %s)" %
                        (nm(a), nm(b), x, r[1] if r[0] == "ok" else r, float(exp), float(factor(a, b)), nm(b), nm(a)), **base)
    elif clause == "there_and_back":
        r = call_two_step(im, a, b, a, x)
        if r[0] != "ok" or not rel_close(r[1], x):
            return viol("convert", "convert-round-trip",
                        "convert(%s, %s, convert(%s, %s, %r)) = %r, expected %r" %
                        (nm(b), nm(a), nm(a), nm(b), x, r[1] if r[0] == "ok" else r, x), **base)
    elif clause == "composition":
        r2 = call_two_step(im, a, b, c, x)
        r1 = call_convert(im, a, c, x)
        if r1[0] != "ok" or r2[0] != "ok" or not rel_close(r2[1], r1[1]):
            return viol("convert", "convert-composition",
                        "%s->%s->%s of %r = %r but %s->%s directly = %r" %
                        (nm(a), nm(b), nm(c), x, r2[1] if r2[0] == "ok" else r2, nm(a), nm(c), r1[1] if r1[0] == "ok" else r1), **base)
    elif clause == "linear":
        rx, ry, rs = call_convert(im, a, b, x), call_convert(im, a, b, y), call_convert(im, a, b, x + y)
        if rx[0] != "ok" or ry[0] != "ok" or rs[0] != "ok":
            return viol("convert", "convert-linear", "convert(%s, %s, .) fails on %r, %r or their sum: %r %r %r" %
                        (nm(a), nm(b), x, y, rx, ry, rs), **base)
        # float addition x + y is rounded too: compare with the images' sizes as scale
        scale = abs(Fraction(rx[1])) + abs(Fraction(ry[1]))
        if abs(Fraction(rs[1]) - Fraction(rx[1]) - Fraction(ry[1])) > ORACLE_TOL * scale:
            return viol("convert", "convert-linear",
                        "convert(%s, %s, %r + %r) = %r but the parts give %r + %r" %
                        (nm(a), nm(b), x, y, rs[1], rx[1], ry[1]), **base)
    return None


def check_forest(im, clause, spec, a, b, c, x):
    """exact: user-defined affine units, links mutually inverse by construction"""
    base = dict(clause=clause, a=a, b=b, c=c, x=enc(x),
                forest=[[p, enc(k), enc(d)] for p, k, d in spec])
    desc = "user-defined units %s (unit i -> base: x*a+b)" % [(p, str(k), str(d)) for p, k, d in spec]
    if clause == "same_unit":
        r = call_forest(im, spec, a, a, x)
        if r[0] != "ok" or r[1][1] != x:
            return viol("forest", "convert-user-chain-identity",
                        "convert(u%d, u%d, %s) = %s, expected %s; %s" %
                        (a, a, x, r[1][1] if r[0] == "ok" else r, x, desc), **base)
    elif clause == "there_and_back":
        r = call_forest(im, spec, a, b, x)
        r2 = call_forest(im, spec, b, a, r[1][1]) if r[0] == "ok" else r
        if r2[0] != "ok" or r2[1][1] != x:
            return viol("forest", "convert-user-chain-round-trip",
                        "u%d -> u%d -> u%d of %s = %s, expected %s; %s" %
                        (a, b, a, x, r2[1][1] if r2[0] == "ok" else r2, x, desc), **base)
    elif clause == "value":
        # what the units' own callables define: up from a to its root (x*k + d per link), then down to b
        def to_root(u, v):
            while spec[u][0] is not None:
                v = v * spec[u][1] + spec[u][2]
                u = spec[u][0]
            return u, v

        def from_root(u, v):
            chain = []
            while spec[u][0] is not None:
                chain.append(u)
                u = spec[u][0]
            for w in reversed(chain):
                v = (v - spec[w][2]) / spec[w][1]
            return u, v
        ra, va = to_root(a, x)
        rb, exp = from_root(b, va)
        if ra == rb:
            r = call_forest(im, spec, a, b, x)
            if r[0] != "ok" or r[1][1] != exp:
                return viol("forest", "convert-user-chain-value",
                            "convert(u%d, u%d, %s) = %s, the units' own conversions give %s; %s" %
                            (a, b, x, r[1][1] if r[0] == "ok" else r, exp, desc), **base)
    elif clause == "composition":
        r = call_forest(im, spec, a, b, x)
        r2 = call_forest(im, spec, b, c, r[1][1]) if r[0] == "ok" else r
        r1 = call_forest(im, spec, a, c, x)
        if r1[0] != "ok" or r2[0] != "ok" or r1[1][1] != r2[1][1]:
            return viol("forest", "convert-user-chain-composition",
                        "u%d -> u%d -> u%d of %s = %s but u%d -> u%d directly = %s; %s" %
                        (a, b, c, x, r2[1][1] if r2[0] == "ok" else r2, a, c, r1[1][1] if r1[0] == "ok" else r1, desc), **base)
    return None


def check_sonar(im, pw, out, reading):
    r = call_sonar(im, pw, out, reading)
    o = 3 if out == "default" else out
    if pw:
        exp = Fraction(reading) / US147 * factor(3, o)
    else:
        exp = Fraction(reading) / MV4_9 * factor(1, o)
    if r[0] != "ok" or not rel_close(r[1], exp):
        return viol("sonar", "sonar-scale",
                    "%s(output_units=%s).get() with %s = %r returns %r, expected %s" %
                    ("MaxSonarEZPulseWidth" if pw else "MaxSonarEZAnalog",
                     "default" if out == "default" else NAMES[out],
                     "period" if pw else "voltage", reading, r[1] if r[0] == "ok" else r, float(exp)),
                    pw=pw, out=out, reading=enc(reading))
    return None


def check_pressure(im, vcc, cal, v):
    """formula for v >= floor and vcc != 0; never raises / finite for every
    input; after calibrate(p >= 0) at v reports p at v"""
    r = call_pressure(im, vcc, cal, v)
    base = dict(vcc=enc(vcc), cal=None if cal is None else [enc(cal[0]), enc(cal[1])], v=enc(v))
    desc = "REVAnalogPressureSensor(ch%s)%s at %r V" % (
        "" if vcc is None else ", %r" % (vcc,),
        "" if cal is None else " after calibrate(%r) at %r V" % (cal[1], cal[0]), v)
    if cal is not None and Fraction(cal[1]) * 1000 + 25000 == 0:
        return None                            # calibrate(-25): outside every domain
    if r[0] != "ok":
        return viol("pressure", "pressure-raises-or-not-finite", "%s: pressure -> %r" % (desc, r), **base)
    vcc_q = Fraction(5 if vcc is None else vcc)
    if cal is None:
        if Fraction(v) >= FLOOR and vcc_q != 0:
            exp = 250 * Fraction(v) / vcc_q - 25
            if not rel_close(r[1], exp, slack=25):
                return viol("pressure", "pressure-formula",
                            "%s: pressure = %r, expected 250*V/Vcc-25 = %s" % (desc, r[1], float(exp)), **base)
    elif Fraction(cal[1]) >= 0 and Fraction(cal[0]) == Fraction(v):
        if not rel_close(r[1], cal[1], slack=25):
            return viol("pressure", "pressure-calibration",
                        "%s: pressure = %r, expected the calibration pressure %r" % (desc, r[1], cal[1]), **base)
    return None


def enc_ops(ops):
    return [[o[0]] + [enc(x) for x in o[1:]] for o in ops]


def dec_ops(ops):
    return [tuple([o[0]] + [dec(x) for x in o[1:]]) for o in ops]


def show_ops(ops):
    return ", ".join("read at %r V" % (o[1],) if o[0] == "read" else
                     "voltage_in = %r" % (o[1],) if o[0] == "vcc" else
                     "calibrate(%r) at %r V" % (o[2], o[1])
                     for o in ops)


def check_history(im, vcc, ops):
    """The property over the lifetime of ONE sensor object: no read raises (and
    every result is finite); no calibrate(p >= 0) raises; no assignment of the public
    attribute voltage_in raises; before any calibration a read at v >= floor with Vcc != 0
    is 250*v/Vcc - 25 for the supply voltage Vcc the object has NOW (the last value
    assigned to voltage_in, the constructor argument if none: "for every sensor reading
    and supply voltage"); while the last calibration was calibrate(p >= 0) at voltage vc,
    every read at vc is p -- whatever came before and whatever voltage_in is set to.
    Reads after a calibrate(p < 0) are outside the property (no expectation on their
    value).  -> None | violation (the first call that breaks it)"""
    obs = call_history(im, vcc, ops)
    vcc_q = Fraction(5 if vcc is None else vcc)
    assigned = False
    state = None                               # None: never calibrated | ("in", vc, p) | ("out",)
    head = "REVAnalogPressureSensor(ch%s)" % ("" if vcc is None else ", %r" % (vcc,))
    for i, (op, o) in enumerate(zip(ops, obs)):
        base = dict(vcc=enc(vcc), ops=enc_ops(ops[:i + 1]), step=i)
        desc = "%s: %s" % (head, show_ops(ops[:i + 1]))
        if op[0] == "vcc":
            if o[0] != "ok":
                return viol("history", "history-supply-assignment-raises",
                            "%s: the last assignment -> %r" % (desc, o), **base)
            vcc_q, assigned = Fraction(op[1]), True
            continue
        if op[0] == "cal":
            p = Fraction(op[2])
            if p >= 0:
                if o[0] != "ok":
                    return viol("history", "history-calibrate-raises",
                                "%s: the last call -> %r" % (desc, o), **base)
                state = ("in", op[1], op[2])
            else:
                state = ("out",)
            continue
        if o[0] != "ok":
            return viol("history", "history-read-raises-or-not-finite",
                        "%s: the last read -> %r" % (desc, o), **base)
        v = Fraction(op[1])
        if state is None:
            if v >= FLOOR and vcc_q != 0:
                exp = 250 * v / vcc_q - 25
                if not rel_close(o[1], exp, slack=25):
                    return viol("history", "history-formula-supply-assigned" if assigned else "history-formula",
                                "%s: the last read = %r, expected 250*V/Vcc-25 = %s (never calibrated%s)" %
                                (desc, o[1], float(exp),
                                 ", Vcc = %s = the last value assigned to voltage_in" % float(vcc_q) if assigned else ""),
                                **base)
        elif state[0] == "in" and Fraction(state[1]) == v:
            if not rel_close(o[1], state[2], slack=25):
                return viol("history", "history-calibration",
                            "%s: the last read = %r, expected the pressure %r of the calibration in force "
                            "(same voltage)" % (desc, o[1], state[2]), **base)
    return None


def same_failure(found, orig):
    """a failure of the formula clause that no longer needs an assignment of voltage_in is
    a simpler witness of the same kind"""
    return found == orig or (orig == "history-formula-supply-assigned" and found == "history-formula")


def shrink_history(im, w):
    """drop calls, then simplify the numbers, keeping the same kind of failure"""
    fp = w["fingerprint"]
    vcc, ops = dec(w["vcc"]), dec_ops(w["ops"])

    def still(vcc_, ops_):
        x = check_history(im, vcc_, ops_)
        return x if x is not None and same_failure(x["fingerprint"], fp) else None

    best = w
    changed = True
    while changed:
        changed = False
        for i in range(len(ops) - 1):
            cand = ops[:i] + ops[i + 1:]
            x = still(vcc, cand)
            if x is not None:
                best, ops, changed = x, dec_ops(x["ops"]), True
                break
    # simpler numbers: supply 5.0, one voltage 2.0, pressure 50 (all occurrences of a value together)
    for old_vcc in [vcc]:
        if old_vcc != 5.0:
            x = still(5.0, ops)
            if x is not None:
                best, vcc = x, 5.0
    # (voltages of reads / calibrations, calibration pressures, values assigned to voltage_in)
    for kinds, idx, nice in ((("read", "cal"), 1, [2.0, 1.0, 0.0]), (("cal",), 2, [50, 0]), (("vcc",), 1, [3.3, 5.0, 0])):
        for val in sorted({o[idx] for o in ops if o[0] in kinds}, key=repr):
            for nv in nice:
                if nv == val:
                    break
                cand = [tuple(nv if (o[0] in kinds and k == idx and x == val) else x for k, x in enumerate(o))
                        for o in ops]
                x = still(vcc, cand)
                if x is not None:
                    best, ops = x, cand
                    break
    return best


def oracle_history(im, r, n, first=()):
    def scan(cases):
        for vcc, ops in cases:
            w = check_history(im, vcc, ops)
            if w:
                return w
        return None
    w = scan(list(first))
    if w:                                    # a systematic history with the same kind of failure is preferred
        w2 = scan(systematic_histories())
        return w2 if w2 and same_failure(w2["fingerprint"], w["fingerprint"]) else shrink_history(im, w)
    w = scan(systematic_histories())
    if w:
        return w
    w = scan([gen_history(r, 12) for _ in range(n)])
    return shrink_history(im, w) if w else None


def check_obj(im, o):
    """re-evaluate a violation/corpus dict -> None | violation"""
    k = o.get("kind")
    if k == "history":
        return check_history(im, dec(o["vcc"]), dec_ops(o["ops"]))
    if k == "convert":
        if any(u is not None and not (0 <= u < len(im.names)) for u in (o["a"], o["b"], o.get("c"))):
            # the witness names a built-in unit this tree does not have (it was found on a tree that defines more units)
            print("unit index %r does not exist in this tree (built-in units: %r): nothing to re-evaluate" % (
                [o["a"], o["b"], o.get("c")], list(im.names)))
            return None
        return check_convert(im, o["clause"], o["a"], o["b"], o.get("c"), dec(o["x"]), dec(o.get("y")))
    if k == "forest":
        spec = [(p, dec(a), dec(b)) for p, a, b in o["forest"]]
        return check_forest(im, o["clause"], spec, o["a"], o["b"], o.get("c"), dec(o["x"]))
    if k == "sonar":
        return check_sonar(im, o["pw"], o["out"], dec(o["reading"]))
    if k == "reent":
        return check_reent(im, o["clause"], dec_reent(o["units"]), o["a"], o["b"], o.get("c"), dec(o["x"]),
                           dec(o.get("y")))
    if k == "pressure":
        cal = None if o.get("cal") is None else (dec(o["cal"][0]), dec(o["cal"][1]))
        return check_pressure(im, dec(o["vcc"]), cal, dec(o["v"]))
    return None


NICE_X = [1.0, 3.0, 12.0, 100.0, 0.3048, 2.5, -7.0, 0.0, 1e-6, 123456.789]


def oracle_units(im, r, n, first=()):
    v = oracle_units_raw(im, list(first))
    if v:                                    # shrink: a simple value with the same kind of failure
        w = oracle_units_raw(im, NICE_X)
        return w if w and w["fingerprint"] == v["fingerprint"] else v
    return oracle_units_raw(im, NICE_X + [gen_value(r) for _ in range(n)])


def oracle_units_raw(im, xs):
    if not xs:
        return None
    nu = range(len(im.builtin))            # round trip / composition / linearity: every defined unit
    for x in xs:
        for a in range(4):
            for b in range(4):
                v = check_convert(im, "factor", a, b, None, x)
                if v:
                    return v
    for x in xs:
        for a in nu:
            for b in nu:
                v = check_convert(im, "there_and_back", a, b, None, x)
                if v:
                    return v
                for c in nu:
                    v = check_convert(im, "composition", a, b, c, x)
                    if v:
                        return v
    for i, x in enumerate(xs):
        y = xs[(i * 7 + 3) % len(xs)]
        if isinstance(x, int) or isinstance(y, int) or not math.isfinite(x + y):
            continue
        for a in nu:
            for b in nu:
                v = check_convert(im, "linear", a, b, None, x, y)
                if v:
                    return v
    return None


def shrink_forest(im, v):
    """keep only the units on the chains of the units involved; simplest value"""
    spec = [(p, dec(a), dec(b)) for p, a, b in v["forest"]]
    keep = set()
    for u in (v["a"], v["b"], v.get("c")):
        while u is not None and u not in keep:
            keep.add(u)
            u = spec[u][0]
    order = sorted(keep)
    ren = {u: i for i, u in enumerate(order)}
    small = [(None if spec[u][0] is None else ren[spec[u][0]], spec[u][1], spec[u][2]) for u in order]
    c = v.get("c")
    best = v
    for x in (Fraction(1), Fraction(0), dec(v["x"])):
        w = check_forest(im, v["clause"], small, ren[v["a"]], ren[v["b"]], None if c is None else ren[c], x)
        if w:
            best = w
            break
    return best


def systematic_forests():
    """smallest first: single chains of depth 1..6 and a few tall ones, linear then affine"""
    specs = []
    for d in list(range(1, 7)) + [9, 12, 17, 24, 33]:
        specs.append(chain_forest([(2 + i % 5, 0) for i in range(d)]))
        specs.append(chain_forest([(2 + i % 5, (i + 1) ** 2) for i in range(d)]))   # no common fixed point: no two links commute
    return specs


def oracle_forests(im, r, n, first=()):
    v = oracle_forests_raw(im, r, list(first))
    if v:                                    # shrink: the smallest systematic chain with the same failure
        w = oracle_forests_raw(im, r, systematic_forests())
        return shrink_forest(im, w if w and w["fingerprint"] == v["fingerprint"] else v)
    v = oracle_forests_raw(im, r, systematic_forests() + [gen_forest(r) for _ in range(n)])
    return shrink_forest(im, v) if v else None


def oracle_forests_raw(im, r, specs):
    xs = [Fraction(1), Fraction(0), Fraction(7, 2), Fraction(-3)]
    for spec in specs:
        m = len(spec)
        for a in range(m):
            for x in xs:
                v = check_forest(im, "same_unit", spec, a, a, None, x)
                if v:
                    return v
        for a in range(m):
            for b in range(m):
                v = check_forest(im, "there_and_back", spec, a, b, None, xs[0])
                if v:
                    return v
        for _ in range(3 * m):
            a, b, c = r.randrange(m), r.randrange(m), r.randrange(m)
            v = check_forest(im, "composition", spec, a, b, c, r.choice(xs))
            if v:
                return v
        for a in range(m):
            for b in range(m):
                v = check_forest(im, "value", spec, a, b, None, xs[2])
                if v:
                    return v
    return None


# ---- re-entrant definitions: the property, exactly (Fractions)

def enc_reent(spec):
    return [[e[0], e[1]] + [enc(x) if isinstance(x, Fraction) else x for x in e[2:]] for e in spec]


def dec_reent(spec):
    return [tuple([e[0], e[1]] + [dec(x) for x in e[2:]]) for e in spec]


def show_reent(spec):
    out = []
    for i, e in enumerate(spec):
        if e[0] is None:
            out.append("u%d = root" % i)
        elif e[1] == "aff":
            out.append("u%d = Unit(u%d, to base: x*(%s)%s)" % (i, e[0], e[2], "" if e[3] == 0 else " + (%s)" % e[3]))
        else:
            out.append("u%d = Unit(u%d, base_to_unit = lambda m: convert(u%d, u%d, m)/(%s), unit_to_base = "
                       "lambda y: convert(u%d, u%d, y*(%s)))" % (i, e[0], e[2], e[3], e[4], e[3], e[2], e[4]))
    return "; ".join(out)


def check_reent(im, clause, spec, a, b, c, x, y=None):
    """one clause on user-defined units some of whose callables call convert(); all callables are
    mutually inverse by construction (a, k != 0), exact arithmetic"""
    base = dict(clause=clause, a=a, b=b, c=c, x=enc(x), y=enc(y), units=enc_reent(spec))
    desc = "units whose callables call convert() themselves: %s" % show_reent(spec)
    val = lambda r: r[1][1] if r[0] == "ok" else r
    if clause == "same_unit":
        r = call_reent(im, spec, a, a, x)
        if r[0] != "ok" or r[1][1] != x:
            return viol("reent", "convert-reentrant-identity",
                        "convert(u%d, u%d, %s) = %s, expected %s; %s" % (a, a, x, val(r), x, desc), **base)
    elif clause == "there_and_back":
        r = call_reent(im, spec, a, b, x)
        r2 = call_reent(im, spec, b, a, r[1][1]) if r[0] == "ok" else r
        if r2[0] != "ok" or r2[1][1] != x:
            return viol("reent", "convert-reentrant-round-trip",
                        "u%d -> u%d -> u%d of %s = %s, expected %s; %s" % (a, b, a, x, val(r2), x, desc), **base)
    elif clause == "composition":
        r = call_reent(im, spec, a, b, x)
        r2 = call_reent(im, spec, b, c, r[1][1]) if r[0] == "ok" else r
        r1 = call_reent(im, spec, a, c, x)
        if r1[0] != "ok" or r2[0] != "ok" or r1[1][1] != r2[1][1]:
            return viol("reent", "convert-reentrant-composition",
                        "u%d -> u%d -> u%d of %s = %s but u%d -> u%d directly = %s; %s" %
                        (a, b, c, x, val(r2), a, c, val(r1), desc), **base)
    elif clause == "linear":
        if not reent_is_linear(spec):
            return None
        rx, ry, rs = call_reent(im, spec, a, b, x), call_reent(im, spec, a, b, y), call_reent(im, spec, a, b, x + y)
        if rx[0] != "ok" or ry[0] != "ok" or rs[0] != "ok" or rs[1][1] != rx[1][1] + ry[1][1]:
            return viol("reent", "convert-reentrant-linear",
                        "convert(u%d, u%d, %s + %s) = %s but the parts give %s + %s; %s" %
                        (a, b, x, y, val(rs), val(rx), val(ry), desc), **base)
    return None


def shrink_reent(im, v):
    """keep the units on the chains of the units involved and whatever their callables mention;
    simplest value"""
    spec = dec_reent(v["units"])
    keep, todo = set(), [u for u in (v["a"], v["b"], v.get("c")) if u is not None]
    while todo:
        u = todo.pop()
        if u in keep:
            continue
        keep.add(u)
        e = spec[u]
        if e[0] is not None:
            todo.append(e[0])
            if e[1] == "via":
                todo += [e[2], e[3]]
    order = sorted(keep)
    ren = {u: i for i, u in enumerate(order)}
    small = []
    for u in order:
        e = spec[u]
        p = None if e[0] is None else ren[e[0]]
        if e[1] == "via" and e[0] is not None:
            small.append((p, "via", ren[e[2]], ren[e[3]], e[4]))
        elif e[1] == "via":
            small.append(AFF(None, 1))             # a root's callables are never used
        else:
            small.append((p, "aff", e[2], e[3]))
    c = v.get("c")
    yv = dec(v.get("y"))
    for x in (Fraction(1), Fraction(0), dec(v["x"])):
        w = check_reent(im, v["clause"], small, ren[v["a"]], ren[v["b"]], None if c is None else ren[c], x, yv)
        if w:
            return w
    return v


def oracle_reent_raw(im, r, specs):
    xs = [Fraction(1), Fraction(0), Fraction(7, 2), Fraction(-3)]
    for spec in specs:
        m = len(spec)
        for a in range(m):
            for x in xs[:2]:
                v = check_reent(im, "same_unit", spec, a, a, None, x)
                if v:
                    return v
        for a in range(m):
            for b in range(m):
                v = check_reent(im, "there_and_back", spec, a, b, None, xs[2])
                if v:
                    return v
        trip = ([(a, b, c) for a in range(m) for b in range(m) for c in range(m)] if m <= 4 else
                [(r.randrange(m), r.randrange(m), r.randrange(m)) for _ in range(4 * m)])
        for a, b, c in trip:
            v = check_reent(im, "composition", spec, a, b, c, r.choice(xs))
            if v:
                return v
        if reent_is_linear(spec):
            for _ in range(2 * m):
                v = check_reent(im, "linear", spec, r.randrange(m), r.randrange(m), None, xs[2], xs[3])
                if v:
                    return v
    return None


def oracle_reent(im, r, n, first=()):
    v = oracle_reent_raw(im, r, list(first))
    if v:                                    # shrink: the smallest systematic definition list with the same failure
        w = oracle_reent_raw(im, r, systematic_reent())
        return shrink_reent(im, w if w and w["fingerprint"] == v["fingerprint"] else v)
    v = oracle_reent_raw(im, r, systematic_reent() + [gen_reent(r) for _ in range(n)])
    return shrink_reent(im, v) if v else None


def oracle_sonar(im, r, n, first=()):
    def scan(extra):
        for pw in (True, False):
            base = 0.000147 if pw else 0.0049
            nice = [base, base * 10, base * 254, base * 1000, 0.0]
            for x in nice + [gen_period(r) if pw else gen_voltage(r) for _ in range(extra)]:
                for out in [3, 0, 1, 2, "default"]:
                    v = check_sonar(im, pw, out, x)
                    if v:
                        return v
        return None
    for pw, out, x in first:
        v = check_sonar(im, pw, out, x)
        if v:                                # shrink: a simple reading with the same kind of failure
            w = scan(0)
            return w if w and w["pw"] == v["pw"] else v
    return scan(n)


def oracle_pressure(im, r, n, first=()):
    first = list(first)
    nice = [(3.3, None, 2.0), (None, None, 2.5), (5.0, None, 0.5), (5.0, None, 0.00001), (5.0, None, 1e-4),
            (5.0, None, 0.0), (0, None, 2.0), (0.0, None, 0.0), (5.0, None, -1.0), (5.0, None, 1e-6),
            (3.3, (2.0, 50), 2.0), (5.0, (0.5, 0), 0.5), (5.0, (0.0, 50), 0.0), (5.0, (1e-6, 60.0), 1e-6),
            (0, (1.0, 100), 1.0), (5.0, (-0.5, 20.0), -0.5)]
    def scan(cases):
        for vcc, cal, v in cases:
            w = check_pressure(im, vcc, cal, v)
            if w:
                return w
        return None
    w = scan(first)
    if w:                                    # shrink: a simple case with the same kind of failure
        w2 = scan(nice)
        return w2 if w2 and w2["fingerprint"] == w["fingerprint"] else w
    return scan(nice + [gen_pressure_case(r) for _ in range(n)])


# --------------------------------------------------------------------------

def corpus_entries():
    d = os.path.join(common.CORPUS, "C18")
    out = []
    if os.path.isdir(d):
        for f in sorted(os.listdir(d)):
            if f.endswith(".json"):
                try:
                    out.append((f, json.load(open(os.path.join(d, f)))))
                except Exception as e:
                    out.append((f, {"kind": "unreadable", "error": repr(e)}))
    return out


def run(ctx):
    ctx.assumptions.append(
        "C18: float arithmetic idealised as exact over Q (source literals read as decimals); the model is tied to the "
        "doubles of the implementation to a relative 1e-12 on the sampled inputs only, no rounding bound is proved; "
        "wpilib AnalogInput simulation returns the set voltage; Counter.getPeriod() is overridden on a subclass of "
        "the real Counter (the HAL simulation has no counter period)")
    ctx.prove()
    im = impl()
    r = ctx.rng
    thorough = ctx.tier == "thorough"
    found = []

    # ---- corpus first (oracle on the implementation) ------------------
    for fname, o in corpus_entries():
        v = None
        try:
            v = check_obj(im, o)
        except Exception as e:
            v = viol("corpus", "corpus-entry-crashes", "corpus/C18/%s: %r" % (fname, e))
        ctx.count("corpus")
        ctx.obligation("corpus:%s" % fname, v is None, "" if v is None else v["what"])
        if v is not None:
            found.append(v)

    # ---- regenerated unit table ----------------------------------------
    ok, detail, table, probes = regen_table(im)
    ctx.obligation("regen:unit table readable with exact probes", ok, detail)
    gen_ok = False
    if ok:
        rc, out = ctx.coq_file("Gen_units", gen_units_text(table, probes))
        ctx.obligation("regen:Gen_units.v compiles", rc == 0, out)
        gen_ok = rc == 0
    if gen_ok:
        rc, out = ctx.coq_file("Gen_C18", GEN_C18)
        ctx.obligation("regen:units_ok/table_inverse/probes_ok gen_table re-proved + instantiated theorems",
                       rc == 0 and "Closed under the global context" in out, out)
        ctx.coverage["gen_table"] = [[p, str(kt), str(kf)] for p, kt, kf in table]

    # ---- regenerated sensor constants (ast over the two source files) ----
    consts_name = "doc_consts"                 # what the correspondence uses if the source is not readable
    try:
        for mod_, fn_ in ((im.sonar, "xl_max_sonar_ez.py"), (im.pressure, "pressure_sensors.py")):
            want = os.path.realpath(os.path.join(common.REPO, "robotpy_ext", "common_drivers", fn_))
            if os.path.realpath(mod_.__file__) != want:
                raise Unrecognised("imported %s, not %s" % (mod_.__file__, want))
        consts = extract_sensor_consts(common.REPO)
        ctx.obligation("regen:sensor constants readable from the source (recognised shape)", True)
    except (Unrecognised, SyntaxError, OSError) as e:
        consts = None
        ctx.obligation("regen:sensor constants readable from the source (recognised shape)", False,
                       "%s: %s" % (type(e).__name__, e))
    if consts is not None:
        ctx.coverage["gen_consts"] = {k: str(v) for k, v in consts.items()}
        rc, out = ctx.coq_file("Gen_sensors", gen_sensors_text(consts))
        ctx.obligation("regen:Gen_sensors.v compiles", rc == 0, out)
        if rc == 0:
            consts_name = "gen_consts"
            if gen_ok:
                rc, out = ctx.coq_file("Gen_C18s", GEN_C18S)
                ctx.obligation("regen:consts_ok gen_consts re-proved (0.000147 s/inch, 0.0049 V/cm, 250, 25, floor "
                               "0.00001 V > 0, 0.004, 0.1) + instantiated sonar/pressure theorems",
                               rc == 0 and "Closed under the global context" in out, out)
            else:
                ctx.obligation("regen:consts_ok gen_consts (skipped: no regenerated unit table)", False, "")

    # ---- observations of the implementation ----------------------------
    n_conv = 100000 if thorough else 5000
    n_tri = n_conv // 2
    n_sonar = 16000 if thorough else 800       # per driver
    n_press = 30000 if thorough else 1500
    n_forest = 4000 if thorough else 300
    n_hist = 16000 if thorough else 800

    pairs = [(a, b) for a in range(4) for b in range(4)]
    triples = [(a, b, c) for a in range(4) for b in range(4) for c in range(4)]
    conv = []
    for i, x in enumerate(gen_values(r, n_conv)):
        a, b = pairs[i % 16]
        conv.append((a, b, x, call_convert(im, a, b, x)))
        ctx.count("convert:%s" % ("int" if isinstance(x, int) else "float"))
    # every pair also on the first specials
    for x in SPECIAL_X[:6]:
        for a, b in pairs:
            conv.append((a, b, x, call_convert(im, a, b, x)))
    tri = []
    for i, x in enumerate(gen_values(r, n_tri)):
        a, b, c = triples[i % 64]
        tri.append((a, b, c, x, call_two_step(im, a, b, c, x)))
    ctx.count("convert:pairs", len(conv))
    ctx.count("convert:triples", len(tri))

    sonar = []
    for pw in (True, False):
        for i in range(n_sonar):
            out = i % 4
            x = gen_period(r) if pw else gen_voltage(r)
            sonar.append((pw, out, x, call_sonar(im, pw, out, x)))
        ctx.count("sonar:%s" % ("pulse-width" if pw else "analog"), n_sonar)
    # constructor default output unit (inch)
    for pw in (True, False):
        for x in ([0.000147 * 7, 0.0123] if pw else [0.0049 * 2.54, 1.7]):
            sonar.append((pw, 3, x, call_sonar(im, pw, "default", x)))

    press = []
    for i in range(n_press):
        vcc, cal, v = gen_pressure_case(r)
        press.append((vcc, cal, v, call_pressure(im, vcc, cal, v)))
        ctx.count("pressure:%s%s" % ("vcc=0" if (vcc is not None and vcc == 0) else "vcc!=0",
                                     "" if cal is None else ",calibrated"))
        ctx.count("pressure:%s" % ("v<floor" if Fraction(v) < FLOOR else "v>=floor"))

    # one object, a sequence of calls (reads before / between / after calibrations)
    hist = []
    for k in range(n_hist):
        sysh = systematic_histories()
        vcc, ops = sysh[k] if k < len(sysh) else gen_history(r, 12 if thorough else 8)
        hist.append((vcc, ops, call_history(im, vcc, ops)))
        ctx.count("history:calls", len(ops))
        for f in history_features(ops):
            ctx.count("history:%s" % f)

    forest = []
    depth_seen = {}
    for k in range(n_forest):
        spec = gen_forest(r) if k >= 12 else chain_forest([(2 + i, (k % 2) * (i + 1) ** 2) for i in range(k // 2 + 1)])
        m = len(spec)
        for q in range(5):
            a, b = (r.randrange(m), r.randrange(m)) if q else (m - 1, m - 1)
            x = small_frac(r) * r.choice([1, 1, 10, 1000])
            forest.append((spec, a, b, x, call_forest(im, spec, a, b, x)))
        d = [0] * m
        for i, (p, _, _) in enumerate(spec):
            d[i] = 0 if p is None else d[p] + 1
        ctx.count("forest:max-depth=%d" % max(d))
        depth_seen[max(d)] = depth_seen.get(max(d), 0) + 1

    # user-defined units whose callables call convert() themselves (re-entrant definitions)
    reent = []
    n_reent = 4000 if thorough else 300
    sysr = systematic_reent()
    for k in range(n_reent):
        for _ in range(20):
            spec = sysr[k] if k < len(sysr) else gen_reent(r)
            m = len(spec)
            va = reent_via_above(spec)
            below = [u for u in range(m) if va[u] == 2]
            batch = []
            for q in range(6 if k < len(sysr) else 5):
                if q == 0:
                    a, b = m - 1, m - 1
                elif q == 1 and below:
                    a, b = r.randrange(m), r.choice(below)        # target below a unit that calls convert()
                elif q == 2 and below:
                    a, b = r.choice(below), r.randrange(m)        # source below one
                elif q == 3 and below:
                    a = b = r.choice(below)
                else:
                    a, b = r.randrange(m), r.randrange(m)
                x = small_frac(r) * r.choice([1, 1, 10, 1000])
                batch.append((spec, a, b, x, call_reent(im, spec, a, b, x)))
            if k < len(sysr) or all(c[4][0] != "ok" or len(c[4][1][0]) <= 120 for c in batch):
                break                                             # else: nesting blew the log up, take another
        reent += batch
        ctx.count("reent:units-calling-convert=%d" % min(3, sum(1 for e in spec if e[1] == "via" and e[0] is not None)))
        ctx.count("reent:%s" % ("linear" if reent_is_linear(spec) else "affine"))
        for c in batch:
            if c[4][0] == "ok":
                nested = sum(1 for u, _ in c[4][1][0] if spec[u][1] == "via")
                ctx.count("reent:conversion-with-nested-calls" if nested else "reent:conversion-without-nested-call")
                if va[c[2]] == 2:
                    ctx.count("reent:target-below-a-unit-calling-convert")
                if va[c[1]] == 2:
                    ctx.count("reent:source-below-a-unit-calling-convert")

    # ---- comparison with the model inside Coq ---------------------------
    def reent_txt(c):
        spec, a, b, x, res = c
        ents = []
        for e in spec:
            par = "None" if e[0] is None else "Some %s" % coq_nat(e[0])
            if e[1] == "aff":
                ents.append("(%s, UAffine %s %s)" % (par, coq_Q(e[2]), coq_Q(e[3])))
            else:
                ents.append("(%s, UVia %s %s %s)" % (par, coq_nat(e[2]), coq_nat(e[3]), coq_Q(e[4])))
        obs = "None"
        if res[0] == "ok":
            log, y = res[1]
            obs = "(Some (%s, %s))" % (coq_list(["(%s, %s)" % (coq_nat(u), coq_bool(d)) for u, d in log]), coq_Q(y))
        return "(%s, %s, %s, %s, %s)" % (coq_list(ents), coq_nat(a), coq_nat(b), coq_Q(x), obs)

    def conv_txt(c):
        a, b, x, res = c
        return "(%s, %s, %s, %s)" % (coq_nat(a), coq_nat(b), coq_Q(x), coq_obs(res))

    def tri_txt(c):
        a, b, c0, x, res = c
        return "(%s, %s, %s, %s, %s)" % (coq_nat(a), coq_nat(b), coq_nat(c0), coq_Q(x), coq_obs(res))

    def sonar_txt(c):
        pw, out, x, res = c
        return "(%s, %s, %s, %s)" % (coq_bool(pw), coq_nat(out), coq_Q(x), coq_obs(res))

    def press_txt(c):
        vcc, cal, v, res = c
        calt = "None" if cal is None else "(Some (%s, %s))" % (coq_Q(cal[0]), coq_Q(cal[1]))
        return "(%s, %s, %s, %s)" % (coq_Q(5 if vcc is None else vcc), calt, coq_Q(v), coq_obs(res))

    def hist_txt(c):
        vcc, ops, obs = c
        steps = []
        for op, o in zip(ops, obs):
            if op[0] == "read":
                steps.append("HRead %s %s" % (coq_Q(op[1]), coq_obs(o)))
            elif op[0] == "vcc":
                steps.append("HSet %s %s" % (coq_Q(op[1]), coq_bool(o[0] == "ok")))
            else:
                res = "(Some false)" if o[0] == "ok" else "(Some true)" if o == ("exc", "ZeroDivisionError") else "None"
                steps.append("HCal %s %s %s" % (coq_Q(op[1]), coq_Q(op[2]), res))
        return "(%s, %s)" % (coq_Q(5 if vcc is None else vcc), coq_list(steps))

    def forest_txt(c):
        spec, a, b, x, res = c
        T = coq_list(["(%s, (%s, %s))" % ("None" if p is None else "Some %s" % coq_nat(p), coq_Q(k), coq_Q(d))
                      for p, k, d in spec])
        obs = "None"
        if res[0] == "ok":
            log, y = res[1]
            obs = "(Some (%s, %s))" % (coq_list(["(%s, %s)" % (coq_nat(u), coq_bool(d)) for u, d in log]), coq_Q(y))
        return "(%s, %s, %s, %s, %s)" % (T, coq_nat(a), coq_nat(b), coq_Q(x), obs)

    families = [
        ("conv", conv, "conv_case", "conv_ok gen_links", conv_txt, True),
        ("triple", tri, "triple_case", "triple_ok gen_links", tri_txt, True),
        ("sonar", sonar, "sonar_case", "sonar_ok %s gen_links" % consts_name, sonar_txt, True),
        ("pressure", press, "pressure_case", "pressure_ok %s" % consts_name, press_txt, False),
        ("history", hist, "history_case", "history_ok %s" % consts_name, hist_txt, False),
        ("forest", forest, "forest_case", "forest_ok", forest_txt, False),
        ("reent", reent, "reent_case", "reent_ok", reent_txt, False),
    ]
    per_file = {"history": HIST_PER_FILE, "reent": REENT_PER_FILE}
    items, index = [], {}
    for fam, cases, ty, okf, txt, needs_gen in families:
        if needs_gen and not gen_ok:
            ctx.obligation("corr:%s (skipped: no regenerated table)" % fam, False, "")
            continue
        for k, shd in enumerate(shards(cases, per_file.get(fam, CASES_PER_FILE))):
            name = "cases_%s_%d" % (fam, k)
            text = (HEADER + ("From W Require Import Gen_units.\n" if needs_gen else "") +
                    ("From W Require Import Gen_sensors.\n" if consts_name == "gen_consts" and fam in ("sonar", "pressure", "history") else "") +
                    "Definition cases : list %s := %s.\n" % (ty, coq_list([txt(c) for c in shd])) +
                    "Eval vm_compute in (bad (%s) cases).\n" % okf)
            items.append((name, text))
            index[name] = (fam, k, cases)
    res = ctx.coq_files_parallel(items)
    disagree = {"conv": [], "triple": [], "sonar": [], "pressure": [], "history": [], "forest": [], "reent": []}
    for name, _ in items:
        fam, k, cases = index[name]
        rc, out = res[name]
        lists = parse_eval_lists(out) if rc == 0 else []
        good = rc == 0 and len(lists) == 1 and lists[0] == []
        ctx.obligation("corr:%s (model == implementation)" % name, good, out[-1500:])
        if rc == 0 and lists and lists[0]:
            disagree[fam] += [cases[k * per_file.get(fam, CASES_PER_FILE) + i] for i in lists[0]]

    nontrivial = (sum(1 for a, b, x, res in conv if a != b and x != 0) +
                  sum(1 for a, b, c, x, res in tri if len({a, b, c}) > 1 and x != 0) +
                  sum(1 for c in sonar if c[2] != 0) + len(press) + len(hist) +
                  sum(1 for spec, a, b, x, res in forest if res[0] == "ok" and len(res[1][0]) >= 2) +
                  sum(1 for spec, a, b, x, res in reent if res[0] == "ok" and any(spec[u][1] == "via" for u, _ in res[1][0])))
    total = len(conv) + len(tri) + len(sonar) + len(press) + len(hist) + len(forest) + len(reent)
    ctx.coverage.update({
        "evaluations": total,
        "traces_validated_against_impl": total,
        "distinct_nontrivial": nontrivial,
        "rule": "convert: all 16 ordered pairs / 64 triples of the built-in units cycled over values (specials, "
                "uniform +-1000, log-uniform 1e-30..1e30 and 1e-280..1e280, ints as float and as int, decimals); "
                "sonar: 4 output units x periods/voltages (multiples of the scale, uniform, log-uniform, negative); "
                "pressure: voltage_in in {default, ints, floats, 0, tiny, negative} x voltage (around the floor, "
                "negative, uniform 0-5) x optional calibrate(p) at the same or another voltage; histories: ONE sensor "
                "object, 2-8 (thorough 12) calls: reads and calibrate(p) (p >= 0, some < 0, some -25 which raises) "
                "over 1-3 voltages, 45 % start with a read, reads at the voltage of the calibration in force "
                "preferred; 40 % of the histories also ASSIGN the public attribute voltage_in (35 % of their calls: "
                "the measured 5 V rail, other supplies, 0, tiny, negative; a third of them on a sensor built with "
                "0 / a placeholder; fewer calibrations there, every trailing assignment is followed by a read); "
                "every call's result compared; forests: 2-12 units, "
                "1-3 roots, depth <= 6 (one in five: up to 40), exact affine links, 5 conversions each; re-entrant definitions: 3-9 units, "
                "~40 % of the non-root units have callables that call convert() on two earlier units (nesting "
                "allowed), every list has a unit chained BELOW such a unit, 5 conversions each (target below / "
                "source below / same unit / random), complete log of callable applications and exact result "
                "compared. non-trivial = units differ and "
                "value != 0 (convert), reading != 0 (sonar), every pressure case, >= 2 callable applications "
                "(forest), at least one nested convert() call (re-entrant)",
        "exhaustive": False,
        "forest_depth_histogram": depth_seen,
        "samples": [
            {"convert": [NAMES[conv[30][0]], NAMES[conv[30][1]], repr(conv[30][2])], "impl": repr(conv[30][3])},
            {"pressure": repr(press[7][:3]), "impl": repr(press[7][3])},
            {"history": [repr(hist[-1][0]), show_ops(hist[-1][1])], "impl": repr(hist[-1][2])},
            {"forest": [[p, str(k), str(d)] for p, k, d in forest[-1][0]], "src": forest[-1][1], "dst": forest[-1][2],
             "x": str(forest[-1][3]), "impl": repr(forest[-1][4])},
            {"reentrant": show_reent(reent[-1][0]), "src": reent[-1][1], "dst": reent[-1][2],
             "x": str(reent[-1][3]), "impl": repr(reent[-1][4])},
        ],
    })

    def search():
        n = 2000 if thorough else 400
        firsts = {
            "units": [c[-2] for c in disagree["conv"][:20]] + [c[-2] for c in disagree["triple"][:20]],
            "forest": [c[0] for c in disagree["forest"][:20]],
            "reent": [c[0] for c in disagree["reent"][:20]],
            "sonar": [(c[0], c[1], c[2]) for c in disagree["sonar"][:20]],
            "pressure": [(c[0], c[1], c[2]) for c in disagree["pressure"][:20]],
            "history": [(c[0], c[1]) for c in disagree["history"][:20]],
        }
        for f in (lambda: oracle_units(im, r, n, firsts["units"]),
                  lambda: oracle_forests(im, r, n // 4, firsts["forest"]),
                  lambda: oracle_reent(im, r, n // 4, firsts["reent"]),
                  lambda: oracle_sonar(im, r, n, firsts["sonar"]),
                  lambda: oracle_pressure(im, r, n * 4, firsts["pressure"]),
                  lambda: oracle_history(im, r, n * 2, firsts["history"])):
            v = f()
            if v:
                return [v]
        return []

    return ctx.finish(search=search, oracle_violations=found)


def replay(ctx, obj):
    im = impl()
    if obj.get("kind") in ("convert", "forest", "reent", "sonar", "pressure", "history"):
        v = check_obj(im, obj)
        print("recorded: %s" % obj.get("what"))
        if v is not None:
            print("now:      %s" % v["what"])
            print("VIOLATION property=C18 replay=(replayed)")
            return 1
        print("now:      the clause %r holds on this input" % (obj.get("clause") or obj.get("kind")))
        return 0
    print("replay names broken obligations only: %s" % [b["name"] if isinstance(b, dict) else b
                                                        for b in obj.get("broken_obligations", [])])
    return run(ctx)
