"""C19: Toggle flips once per press; debouncers and rate limiters fire once per period.

Tie to the source (see notes_c19.md): the four real classes are driven with
injected clocks (dyadic floats = ticks/64 for Toggle, ButtonDebouncer and
PeriodicFilter; integer microseconds for SimpleWatchdog), a fake joystick and
a logging handler that counts the watchdog's warnings.  Every return value of
every call of a generated history is recorded and compared, inside Coq, with
the model of coq/theories/Control evaluated on the same history
(work/C19/cases_*.v print the indices of the disagreeing cases).

When something breaks, `search()` looks for a history on which the PROPERTY
itself (stated below in `oracle_*`, over implementation observations only)
fails, shrinks it and returns it for the replay file.
"""
import copy
import glob
import importlib
import json
import logging
import os
import sys
import time as _time

from .common import (CORPUS, coq_Z, coq_bool, coq_list, coq_nat, coq_opt,
                     parse_eval_lists, shards)

TPS = 64                      # clock ticks per second (dyadic floats)
ACCS = ["get", "on", "off", "bool"]
ACC_COQ = {"get": "AGet", "on": "AOn", "off": "AOff", "bool": "ABool"}
KINDS = ["toggle", "dtoggle", "debouncer", "filter", "watchdog"]
SHARD = 1500


# ----------------------------------------------------------------------------
# the implementation under injected clocks
# ----------------------------------------------------------------------------
class _Shim:
    """stands in for a module/class: a few attributes replaced, the rest real"""

    def __init__(self, real, **over):
        self.__dict__["_real"] = real
        self.__dict__.update(over)

    def __getattr__(self, n):
        return getattr(self._real, n)

    def __call__(self, *a, **kw):
        ctor = self.__dict__.get("_ctor")
        return ctor(*a, **kw) if ctor else self._real(*a, **kw)


def fake_timer_class(clock):
    """wpilib.Timer objects (frc/Timer.cpp: start time + accumulated time + running flag) on the injected clock, so that
    code which keeps a Timer instance instead of reading getFPGATimestamp() is driven by the same case times"""

    class FakeTimer:
        def __init__(self):
            self._start, self._acc, self._running = clock(), 0.0, False

        def get(self):
            return self._acc + (clock() - self._start) if self._running else self._acc

        def reset(self):
            self._acc, self._start = 0.0, clock()

        def start(self):
            if not self._running:
                self._start, self._running = clock(), True

        def restart(self):
            if self._running:
                self.stop()
            self.reset()
            self.start()

        def stop(self):
            if self._running:
                self._acc, self._running = self.get(), False

        def hasElapsed(self, period):
            return self.get() >= period

        def advanceIfElapsed(self, period):
            if self.get() >= period:
                self._start += period
                return True
            return False

        def isRunning(self):
            return self._running

        getFPGATimestamp = staticmethod(clock)
        getTimestamp = staticmethod(clock)

    return FakeTimer


class FakeJoystick:
    def __init__(self, button):
        self.button = button
        self.level = False
        self.reads = 0

    def getRawButton(self, n):
        self.reads += 1
        return self.level if n == self.button else False


class LatchJoystick(FakeJoystick):
    """a joystick with the whole button API of wpilib.Joystick: besides the level, the driver station's "pressed / released
    since the last check" latches (shared by every reader of the button, cleared by the read)"""

    def __init__(self, button):
        self.button = button
        self._level = False
        self.reads = 0
        self._pressed = False
        self._released = False

    @property
    def level(self):
        return self._level

    @level.setter
    def level(self, v):
        v = bool(v)
        if v and not self._level:
            self._pressed = True
        if self._level and not v:
            self._released = True
        self._level = v

    def tap(self):
        """the button goes down and up again between two samples"""
        self.level = True
        self.level = False

    def getRawButtonPressed(self, n):
        r, self._pressed = self._pressed and n == self.button, False
        return r

    def getRawButtonReleased(self, n):
        r, self._released = self._released and n == self.button, False
        return r


class _Count(logging.Handler):
    def __init__(self):
        super().__init__(level=logging.DEBUG)
        self.warnings = 0

    def emit(self, record):
        if record.levelno >= logging.WARNING:
            self.warnings += 1


class Env:
    """imports the four modules fresh from $VERIF_REPO and rebinds their clocks"""

    def __init__(self):
        import wpilib
        import time as real_time
        for m in [k for k in sys.modules if k.startswith("robotpy_ext.control.toggle")
                  or k.startswith("robotpy_ext.control.button_debouncer")
                  or k.startswith("robotpy_ext.misc.periodic_filter")
                  or k.startswith("robotpy_ext.misc.simple_watchdog")]:
            del sys.modules[m]
        self.sec = 0.0          # FPGA timestamp / monotonic clock, seconds
        self.us = 0             # FPGA time, microseconds
        timer = _Shim(wpilib.Timer, getFPGATimestamp=lambda: self.sec, getTimestamp=lambda: self.sec,
                      _ctor=fake_timer_class(lambda: self.sec))
        rc = _Shim(wpilib.RobotController, getFPGATime=lambda: self.us)
        self.wp = _Shim(wpilib, Timer=timer, RobotController=rc)
        self.tm = _Shim(real_time, monotonic=lambda: self.sec)
        self.toggle = importlib.import_module("robotpy_ext.control.toggle")
        self.debouncer = importlib.import_module("robotpy_ext.control.button_debouncer")
        self.pfilter = importlib.import_module("robotpy_ext.misc.periodic_filter")
        self.watchdog = importlib.import_module("robotpy_ext.misc.simple_watchdog")
        for mod in (self.toggle, self.debouncer, self.watchdog, self.pfilter):
            for name, val in list(vars(mod).items()):
                if val is wpilib:
                    setattr(mod, name, self.wp)
                elif val is wpilib.Timer:
                    setattr(mod, name, timer)
                elif val is wpilib.RobotController:
                    setattr(mod, name, rc)
                elif val is real_time:
                    setattr(mod, name, self.tm)
                elif val is real_time.monotonic:
                    setattr(mod, name, self.tm.monotonic)
        self.handler = _Count()
        self.root = logging.getLogger()
        self.old_level = self.root.level
        self.root.addHandler(self.handler)
        self.root.setLevel(logging.DEBUG)

    def close(self):
        self.root.removeHandler(self.handler)
        self.root.setLevel(self.old_level)


def _call(f):
    try:
        return f()
    except Exception as e:      # an escaping exception is an observation
        return ("exc", type(e).__name__)


def _b(x):
    return x if isinstance(x, tuple) else bool(x)


def _period_arg(p, as_int):
    return (p // TPS) if (as_int and p % TPS == 0) else p / TPS


def drive_toggle(env, case, probe=False):
    """-> (results, probe violations).  results[k] = what the k-th accessor returned."""
    p = case["period"]
    latch = len(case["h"]) % 2 == 0
    js = LatchJoystick(1) if latch else FakeJoystick(1)
    if p is None:
        tg = _new(lambda: env.toggle.Toggle(js, 1))
    else:
        tg = _new(lambda: env.toggle.Toggle(js, 1, _period_arg(p, case.get("period_int", False))))
    res, probes = [], []
    for k, (t, lvl, acc) in enumerate(case["h"]):
        env.sec = t / TPS
        if latch and not js.level and not lvl and (t + k) % 3 == 0:
            js.tap()         # a tap that falls entirely between two samples: no edge among the samples the toggle takes
        js.level = bool(lvl)
        if probe:
            views = {}
            for a in ACCS:
                c = copy.deepcopy((tg, js))
                views[a] = _b(_call(lambda: _acc(c[0], a)))
            if not (views["on"] is (not views["off"]) and views["get"] is views["on"] and views["bool"] is views["on"]):
                probes.append(("toggle-on-is-not-off", "sample %d: the four accessors taken on copies of the same "
                               "state report get=%r on=%r off=%r bool=%r" % (k, views["get"], views["on"], views["off"], views["bool"])))
        res.append(_b(_call(lambda: _acc(tg, acc))))
    return res, probes


def _acc(tg, acc):
    if acc == "get":
        return tg.get()
    if acc == "on":
        return tg.on
    if acc == "off":
        return tg.off
    return bool(tg)


def drive_debouncer(env, case, probe=False):
    js = FakeJoystick(2)
    bd = _new(lambda: env.debouncer.ButtonDebouncer(js, 2, _period_arg(case["period"], case.get("period_int", False))))
    res = []
    for op in case["h"]:
        if op[0] == "set":
            r = _call(lambda: bd.set_debounce_period(op[1] / TPS))
            res.append(r if isinstance(r, tuple) else None)
        else:
            _, t, lvl, via = op
            env.sec = t / TPS
            js.level = bool(lvl)
            res.append(_b(_call((lambda: bd.get()) if via == "get" else (lambda: bool(bd)))))
    return res, []


def drive_filter(env, case, probe=False):
    f = _new(lambda: env.pfilter.PeriodicFilter(_period_arg(case["period"], case.get("period_int", False)),
                                                bypass_level=case["bypass"]))
    res = []
    # in a logging chain one LogRecord object goes through every filter on its way (the logger's, then each handler's): in
    # every other case a second PeriodicFilter with another period sees each record first -- its verdict is its own business
    other = None
    if (case["period"] + len(case["h"])) % 2 == 0:
        other = env.pfilter.PeriodicFilter(_period_arg(max(0, case["period"] // 3), case.get("period_int", False)),
                                           bypass_level=case["bypass"])
    for t, lvl in case["h"]:
        env.sec = t / TPS
        # one filter object on a handler sees the records of several loggers: whose record it is makes no difference
        rec = logging.makeLogRecord({"levelno": lvl, "levelname": "L%d" % lvl, "msg": "x",
                                     "name": "robot.c%d" % ((t + lvl) % 3) if case["period"] % 2 else "robot"})
        if other is not None:
            _call(lambda: other.filter(rec))
        res.append(_b(_call(lambda: f.filter(rec))))
    return res, []


def drive_watchdog(env, case, probe=False):
    """results: None | bool (isExpired) | int (number of warnings logged by printIfExpired)"""
    env.us = 0
    wd = _new(lambda: env.watchdog.SimpleWatchdog(case["timeout"] / 1e6))
    if hasattr(wd, "_get_time"):
        wd._get_time = lambda: env.us
    res, probes = [], []
    for k, op in enumerate(case["h"]):
        name = op[0]
        if name not in ("disable", "getTimeout"):
            env.us = op[1]
        if name == "reset":
            r = _call(wd.reset)
        elif name == "enable":
            r = _call(wd.enable)
        elif name == "disable":
            r = _call(wd.disable)
        elif name == "setTimeout":
            r = _call(lambda: wd.setTimeout(op[2] / 1e6))
        elif name == "isExpired":
            r = _b(_call(wd.isExpired))
        elif name == "addEpoch":
            before = _b(_call(wd.isExpired)) if probe else None
            r = _call(lambda: wd.addEpoch("e%d" % op[2]))
            if probe:
                after = _b(_call(wd.isExpired))
                if before != after:
                    probes.append(("watchdog-addEpoch-changes-expiry",
                                   "call %d: isExpired() is %r before and %r after addEpoch() at the same clock reading %d us"
                                   % (k, before, after, env.us)))
        elif name == "printIfExpired":
            env.handler.warnings = 0
            r = _call(wd.printIfExpired)
            if not isinstance(r, tuple):
                r = env.handler.warnings
        elif name == "getTime":
            r = _call(wd.getTime)
        elif name == "getTimeout":
            r = _call(wd.getTimeout)
        else:
            raise ValueError(name)
        if name not in ("isExpired", "printIfExpired") and not isinstance(r, tuple):
            r = None
        res.append(r)
    return res, probes


DRIVE = {"toggle": drive_toggle, "debouncer": drive_debouncer, "filter": drive_filter, "watchdog": drive_watchdog}


class _CtorFailed(Exception):
    pass


def _new(f):
    """constructing the object under valid arguments: an exception here is an observation too (every call of the
    history then has nothing to answer with), not a harness failure"""
    try:
        return f()
    except Exception as e:
        raise _CtorFailed(type(e).__name__)


def drive(env, case, probe=False):
    try:
        return DRIVE[case["kind"]](env, case, probe)
    except _CtorFailed as e:
        return [("exc", str(e))] * len(case["h"]), []


def has_exc(res):
    return any(isinstance(x, tuple) for x in res)


# ----------------------------------------------------------------------------
# the property, stated over implementation observations (search/replay only)
# ----------------------------------------------------------------------------
def monotone(ts, start=None):
    prev = start
    for t in ts:
        if prev is not None and t < prev:
            return False
        prev = t
    return True


def oracle_toggle(case, res):
    out = []
    h, p = case["h"], case["period"]
    vals = [(not r) if acc == "off" else r for (t, lvl, acc), r in zip(h, res)]   # the value each sample reported
    if p is None:
        prev, v = False, False
        for k, (t, lvl, acc) in enumerate(h):
            if lvl and not prev:
                v = not v
            prev = bool(lvl)
            if vals[k] is not v:
                out.append(("toggle-parity", "sample %d (%s, button %s): reports value %r, but the samples so far contain "
                            "%s released->pressed edges" % (k, acc, "pressed" if lvl else "released", vals[k],
                                                             "an odd number of" if v else "an even number of")))
                break
    else:
        if monotone([x[0] for x in h], 0):
            last_change, prev = None, False
            for k, (t, lvl, acc) in enumerate(h):
                if vals[k] is not prev:
                    if not lvl:
                        out.append(("dtoggle-change-without-press", "sample %d at tick %d: the value changes to %r while "
                                    "the button reads released" % (k, t, vals[k])))
                        break
                    if last_change is not None and t - last_change < p:
                        out.append(("dtoggle-spacing", "changes at ticks %d and %d are %d ticks apart, less than the "
                                    "debounce period %d" % (last_change, t, t - last_change, p)))
                        break
                    last_change = t
                prev = vals[k]
        # never while the button is held (any clock, any period): the sample after a sample that read the
        # button pressed does not change the value
        prev = False
        for k, (t, lvl, acc) in enumerate(h):
            if vals[k] is not prev and k > 0 and h[k - 1][1]:
                out.append(("dtoggle-change-while-held", "sample %d at tick %d: the value changes to %r although the "
                            "previous sample (tick %d) already read the button pressed%s -- no released->pressed edge"
                            % (k, t, vals[k], h[k - 1][0], " and so does this one" if lvl else "")))
                break
            prev = vals[k]
        # a press is not lost: pressed right after a sample that read released (or first of all), every
        # earlier pressed sample at least p before that released sample (whose reading is >= 0) => the value flips
        prev = False
        for k, (t, lvl, acc) in enumerate(h):
            if lvl and (k == 0 or not h[k - 1][1]):
                quiet_at = h[k - 1][0] if k else 0
                if quiet_at >= 0 and all(quiet_at - u >= p for (u, l2, _) in h[:k] if l2) and vals[k] is prev:
                    out.append(("dtoggle-missed-press", "sample %d at tick %d reads pressed right after %s and every "
                                "earlier pressed sample is at least the period (%d ticks) before that, but the value "
                                "stays %r" % (k, t, ("a released sample at tick %d" % quiet_at) if k else
                                              "construction", p, vals[k])))
                    break
            prev = vals[k]
    return out


def oracle_debouncer(case, res):
    out = []
    p = case["period"]
    mono = monotone([op[1] for op in case["h"] if op[0] == "get"])
    anchor, trues = 0, []
    for k, (op, r) in enumerate(zip(case["h"], res)):
        if op[0] == "set":
            p = op[1]
            continue
        _, t, lvl, via = op
        if r and not lvl:
            out.append(("debouncer-true-while-released", "call %d at tick %d returns True with the button released" % (k, t)))
            break
        if r and mono:
            close = [u for u in trues if not (t - u > p)]
            if close:
                out.append(("debouncer-spacing", "True at ticks %d and %d: %d ticks apart, not more than the period %d"
                            % (close[0], t, t - close[0], p)))
                break
        if lvl and t - anchor > p and not r:
            out.append(("debouncer-liveness", "call %d at tick %d: pressed and %d > period %d ticks after the last True "
                        "(tick %d), but returns False" % (k, t, t - anchor, p, anchor)))
            break
        if r:
            anchor = t
            trues.append(t)
    return out


def oracle_filter(case, res):
    out = []
    p, byp = case["period"], case["bypass"]
    mono = monotone([x[0] for x in case["h"]])
    lows = []
    for k, ((t, lvl), r) in enumerate(zip(case["h"], res)):
        if lvl >= byp and not r:
            out.append(("filter-bypass-suppressed", "record %d at tick %d with level %d >= bypass level %d is filtered out"
                        % (k, t, lvl, byp)))
            break
        if lvl < byp and r:
            if mono:
                close = [u for u in lows if not (t - u > p)]
                if close:
                    out.append(("filter-low-spacing", "records below the bypass level pass at ticks %d and %d: %d ticks "
                                "apart, not more than the period %d" % (close[0], t, t - close[0], p)))
                    break
            lows.append(t)
    return out


def oracle_watchdog(case, res):
    out = []
    timeout = case["timeout"]
    mono = monotone([op[1] for op in case["h"] if op[0] not in ("disable", "getTimeout")])
    fed, warned = None, []
    for k, (op, r) in enumerate(zip(case["h"], res)):
        name = op[0]
        if name in ("reset", "enable"):
            fed = op[1]
        elif name == "setTimeout":
            fed, timeout = op[1], op[2]
        elif name == "isExpired" and fed is not None:
            want = op[1] - fed > timeout
            if r is not want:
                out.append(("watchdog-expiry", "call %d: isExpired() = %r at %d us, %d us after the last reset (%d us) with "
                            "timeout %d us" % (k, r, op[1], op[1] - fed, fed, timeout)))
                break
        elif name == "printIfExpired":
            if r > 1:
                out.append(("watchdog-warning-rate", "call %d: printIfExpired() logged %d warnings in one call" % (k, r)))
                break
            if r and fed is not None and not (op[1] - fed > timeout):
                out.append(("watchdog-warning-without-expiry", "call %d: overrun warning at %d us, only %d us after the last "
                            "reset with timeout %d us" % (k, op[1], op[1] - fed, timeout)))
                break
            # the rate limit is over the whole observed history: [warned] is never cleared, whatever
            # reset()/enable()/setTimeout()/addEpoch() calls lie between two warnings
            if r and mono:
                close = [u for u in warned if not (op[1] - u > 1000000)]
                if close:
                    out.append(("watchdog-warning-rate", "overrun warnings at %d us and %d us: %d us apart, not more than "
                                "one second" % (close[0], op[1], op[1] - close[0])))
                    break
            if r:
                warned.append(op[1])
    return out


ORACLE = {"toggle": oracle_toggle, "debouncer": oracle_debouncer, "filter": oracle_filter, "watchdog": oracle_watchdog}


def violations_of(env, case):
    """run the implementation on the case (with probes) and state the property over what it did"""
    res, probes = drive(env, case, probe=True)
    for k, x in enumerate(res):
        if isinstance(x, tuple):
            return res, [("call-raised", "call %d (%r) raised %s" % (k, case["h"][k], x[1]))]
    return res, list(probes) + ORACLE[case["kind"]](case, res)


def shrink(env, case, clause):
    """drop calls while the same clause of the property still fails"""
    best = case
    changed = True
    while changed:
        changed = False
        for i in range(len(best["h"]) - 1, -1, -1):
            cand = dict(best)
            cand["h"] = best["h"][:i] + best["h"][i + 1:]
            try:
                _, vs = violations_of(env, cand)
            except Exception:
                continue
            if any(c == clause for c, _ in vs):
                best = cand
                changed = True
    return best


# ----------------------------------------------------------------------------
# generators
# ----------------------------------------------------------------------------
PERIODS = [0, 1, 2, 6, 13, 32, 32, 64, 64, 100, 128]


def _times(r, n, p, wild, start_choices):
    t = r.choice(start_choices)
    ts = []
    for _ in range(n):
        ts.append(t)
        k = r.random()
        if wild and k < 0.3:
            t -= r.randrange(0, 2 * abs(p) + 5)
        elif k < 0.15:
            t += 0
        elif k < 0.3:
            t += 1
        elif k < 0.4:
            t += max(p - 1, 0)
        elif k < 0.55:
            t += abs(p)
        elif k < 0.7:
            t += abs(p) + 1
        elif k < 0.85:
            t += r.randrange(0, abs(p) + 2)
        else:
            t += r.randrange(0, 3 * abs(p) + 10)
    return ts


def _levels(r, n):
    lv, cur = [], r.random() < 0.3
    flip = r.choice([0.2, 0.5, 0.8])
    for _ in range(n):
        lv.append(cur)
        if r.random() < flip:
            cur = not cur
    return lv


def gen_toggle(r):
    n = r.choice([0, 1, 2, 3, 5, 8, 8, 12, 16])
    ts = _times(r, n, 10, r.random() < 0.1, [0, 1, 7, 100])
    accs = [r.choice(ACCS) for _ in range(n)] if r.random() < 0.8 else [r.choice(ACCS)] * n
    return {"kind": "toggle", "period": None, "h": [[t, l, a] for t, l, a in zip(ts, _levels(r, n), accs)]}


def gen_dtoggle(r):
    n = r.choice([1, 2, 3, 5, 8, 8, 12, 16])
    p = r.choice(PERIODS) if r.random() < 0.95 else -r.choice([1, 5, 32])
    wild = r.random() < 0.06
    ts = _times(r, n, p, wild, [0, 0, 1, max(p, 0), r.randrange(0, 300)] + ([-3, -abs(p) - 1] if wild else []))
    accs = [r.choice(ACCS) for _ in range(n)]
    return {"kind": "toggle", "period": p, "period_int": r.random() < 0.5,
            "h": [[t, l, a] for t, l, a in zip(ts, _levels(r, n), accs)]}


def gen_dtoggle_grid(r):
    """a periodic poll (robot loop): the grid step divides the debounce period, so samples land exactly one
    period (and k periods) after the press was registered; press-and-hold longer than the period, releases
    around one period, sometimes a jittered sample"""
    p = r.choice([0, 1, 2, 4, 6, 16, 32, 32, 64, 64, 128])
    divs = [d for d in (1, 2, 3, 4, 8, 16, 32, 64, 128) if p and p % d == 0 and p // d <= 8] or [1]
    dt = r.choice(divs + [max(p, 1)])
    per = max(p // dt, 1)                                     # grid steps per period
    t = r.choice([0, 0, 1, dt, 64, r.randrange(0, 300)])
    h, lvl = [], False
    n = r.choice([6, 8, 10, 12, 16, 16])
    seg = 0
    while len(h) < n:
        if seg == 0:
            lvl = not lvl if h or r.random() < 0.7 else lvl
            seg = r.choice([per + 1, per + 2, 2 * per + 1, per, 1, 2]) if lvl else r.choice([per, per + 1, 1, 2, 2 * per])
        h.append([t, lvl, r.choice(ACCS)])
        seg -= 1
        t += dt if r.random() < 0.93 else r.choice([dt + 1, max(dt - 1, 0), 0, p])
    return {"kind": "toggle", "period": p, "period_int": r.random() < 0.5, "h": h}


def gen_dtoggle_any(r):
    return gen_dtoggle_grid(r) if r.random() < 0.3 else gen_dtoggle(r)


def gen_debouncer(r):
    n = r.choice([1, 2, 3, 5, 8, 8, 12, 16])
    p = r.choice(PERIODS) if r.random() < 0.95 else -r.choice([1, 5, 32])
    wild = r.random() < 0.06
    ts = _times(r, n, p, wild, [0, 1, max(p, 0), max(p, 0) + 1, r.randrange(0, 300)] + ([-3] if wild else []))
    lv = [(not x) if r.random() < 0.5 else True for x in _levels(r, n)]      # mostly pressed
    h = []
    for t, l in zip(ts, lv):
        if r.random() < 0.07:
            h.append(["set", r.choice(PERIODS)])
        h.append(["get", t, l, r.choice(["get", "bool"])])
    return {"kind": "debouncer", "period": p, "period_int": r.random() < 0.5, "h": h}


LEVELS = [10, 20, 20, 20, 30, 30, 40, 50, 0, 25, 29, 31]


def gen_filter(r):
    n = r.choice([1, 2, 3, 5, 8, 8, 12, 16])
    p = r.choice(PERIODS) if r.random() < 0.95 else -r.choice([1, 5, 32])
    byp = r.choice([30, 30, 30, 20, 40, 10, 50, 0, 100])
    wild = r.random() < 0.06
    ts = _times(r, n, p, wild, [0, 1, max(p, 0), max(p, 0) + 1, r.randrange(0, 300)] + ([-3] if wild else []))
    lvs = [r.choice(LEVELS + [byp, byp - 1, byp + 1]) for _ in range(n)]
    return {"kind": "filter", "period": p, "period_int": r.random() < 0.5, "bypass": byp,
            "h": [[t, max(l, 0)] for t, l in zip(ts, lvs)]}


TIMEOUTS = [0, 1, 1000, 1001, 1003, 5000, 20000, 20000, 20001, 100000, 1000000, 2500000]
WOPS = ["reset", "enable", "disable", "setTimeout", "isExpired", "isExpired", "isExpired", "addEpoch", "addEpoch",
        "printIfExpired", "printIfExpired", "printIfExpired", "getTime", "getTimeout"]


def gen_watchdog_loop(r):
    """a control loop: feed, work (sometimes longer than the timeout), addEpoch, isExpired, printIfExpired --
    consecutive overruns less than a second apart with a reset()/enable()/setTimeout() in between"""
    to = r.choice([0, 1, 1000, 1001, 5000, 20000, 20000, 20001, 100000])
    t = r.choice([0, 1, 999990, 1000000, 2500000, 5000000, r.randrange(0, 3000000)])
    h = []
    if r.random() < 0.3:
        h.append(["printIfExpired", t])                     # before the first feed
    p_over = r.choice([0.3, 0.6, 1.0])
    for _ in range(r.choice([1, 2, 2, 3, 3, 4, 5])):
        feed = r.choice(["reset", "reset", "reset", "enable", "setTimeout"])
        h.append([feed, t, to] if feed == "setTimeout" else [feed, t])
        if r.random() < 0.4:
            t += r.choice([0, 1, to // 2])
            h.append(["addEpoch", t, r.randrange(5)])
        if r.random() < p_over:
            t += to + r.choice([1, 1, 2, to // 4 + 1, r.randrange(1, 5000)])
        else:
            t += r.choice([0, max(to - 1, 0), to, to // 2])
        if r.random() < 0.4:
            h.append(["isExpired", t])
        h.append(["printIfExpired", t])
        if r.random() < 0.2:
            t += r.choice([999999, 1000000, 1000001, 400000])
            h.append(["printIfExpired", t])
        t += r.choice([0, 1, 10, 1000, 20000])
    return {"kind": "watchdog", "timeout": to, "h": h[:20]}


def gen_watchdog(r):
    if r.random() < 0.4:
        return gen_watchdog_loop(r)
    return gen_watchdog_any(r)


def gen_watchdog_any(r):
    n = r.choice([1, 2, 3, 5, 8, 8, 12, 16])
    to = r.choice(TIMEOUTS)
    wild = r.random() < 0.06
    t = r.choice([0, 1, 5000000, r.randrange(0, 3000000)])
    h = []
    if r.random() < 0.8:
        h.append([r.choice(["reset", "enable"]), t])
    cur_to = to
    for _ in range(n):
        k = r.random()
        if wild and k < 0.25:
            t -= r.randrange(0, 1500000)
        elif k < 0.1:
            t += 0
        elif k < 0.2:
            t += 1
        elif k < 0.3:
            t += max(cur_to - 1, 0)
        elif k < 0.42:
            t += cur_to
        elif k < 0.54:
            t += cur_to + 1
        elif k < 0.6:
            t += 999999
        elif k < 0.68:
            t += 1000000
        elif k < 0.76:
            t += 1000001
        elif k < 0.9:
            t += r.randrange(0, 2 * cur_to + 10)
        else:
            t += r.randrange(0, 3000000)
        name = r.choice(WOPS)
        if name in ("disable", "getTimeout"):
            h.append([name])
        elif name == "setTimeout":
            cur_to = r.choice(TIMEOUTS)
            h.append([name, t, cur_to])
        elif name == "addEpoch":
            h.append([name, t, r.randrange(5)])
        else:
            h.append([name, t])
    return {"kind": "watchdog", "timeout": to, "h": h}


GEN = {"toggle": gen_toggle, "dtoggle": gen_dtoggle_any, "debouncer": gen_debouncer, "filter": gen_filter,
       "watchdog": gen_watchdog}


def edge_cases():
    """boundaries first: exact period / timeout instants, empty, repeated"""
    out = [{"kind": "toggle", "period": None, "h": []}]
    for a in ACCS:
        out.append({"kind": "toggle", "period": None, "h": [[0, False, a], [1, True, a], [2, True, a], [3, False, a], [4, True, a]]})
    for p in (0, 1, 32):
        for d in (p - 1, p, p + 1):
            if d < 0:
                continue
            out.append({"kind": "toggle", "period": p, "h": [[0, False, "get"], [5, True, "on"], [5, False, "off"], [5 + d, False, "bool"],
                                                                 [5 + d, True, "get"], [5 + 2 * d + 1, False, "on"], [5 + 3 * d + 2, True, "off"]]})
            out.append({"kind": "debouncer", "period": p, "h": [["get", 0, True, "get"], ["get", p, True, "bool"], ["get", p + 1, True, "get"],
                                                                    ["get", p + 1 + d, True, "get"], ["get", p + 1 + d, False, "get"],
                                                                    ["get", p + 2 + d, True, "bool"], ["set", 2], ["get", p + 4 + d, True, "get"],
                                                                    ["get", p + 5 + d, True, "get"]]})
            out.append({"kind": "filter", "period": p, "bypass": 30, "h": [[0, 20], [1, 20], [1, 30], [1 + d, 20], [1 + d, 29], [1 + d, 31],
                                                                             [1 + 2 * d, 20], [2 + 2 * d + p, 30], [2 + 2 * d + p, 20]]})
    # press and hold across the end of the steady window: polled every dt ticks with dt | p (a sample exactly
    # one period after the registering press), dt = p +- 1, and period 0; then a release of p ticks and a new press
    for p, dt in ((0, 1), (1, 1), (2, 1), (32, 16), (32, 8), (32, 32), (32, 31), (32, 33), (64, 32), (64, 16)):
        h, t = [[0, False, "get"]], 10
        for k in range(2 * (p // dt) + 3):
            h.append([t, True, ACCS[k % 4]])
            t += dt
        for k in range(p // dt + 1):
            h.append([t, False, ACCS[k % 4]])
            t += dt
        h += [[t, True, "on"], [t + dt, True, "off"]]
        out.append({"kind": "toggle", "period": p, "h": h})
    for to in (0, 1000, 1001, 20000):
        for d in (to - 1, to, to + 1):
            if d < 0:
                continue
            out.append({"kind": "watchdog", "timeout": to, "h": [["isExpired", 0], ["isExpired", 1], ["reset", 5000000], ["isExpired", 5000000 + d],
                                                                   ["addEpoch", 5000000 + d, 1], ["isExpired", 5000000 + d],
                                                                   ["printIfExpired", 5000000 + d], ["printIfExpired", 5000000 + to + 1],
                                                                   ["printIfExpired", 5000000 + to + 1 + 999999], ["printIfExpired", 5000000 + to + 1 + 1000000],
                                                                   ["printIfExpired", 5000000 + to + 1 + 1000001], ["enable", 9000000],
                                                                   ["isExpired", 9000000 + d], ["setTimeout", 9000005, 1001], ["isExpired", 9000005 + 1001],
                                                                   ["isExpired", 9000005 + 1002], ["getTime", 9000006], ["getTimeout"], ["disable"],
                                                                   ["printIfExpired", 9000005 + 1002]]})
    for to in (0, 20000):
        for feed in ("reset", "enable", "setTimeout"):
            for gap in (5, 999999 - to, 1000000 - to):
                f = (lambda t: [feed, t, to]) if feed == "setTimeout" else (lambda t: [feed, t])
                t1 = 5000000 + to + 1
                out.append({"kind": "watchdog", "timeout": to, "h": [["reset", 5000000], ["printIfExpired", t1], f(t1 + gap - 1),
                                                                       ["printIfExpired", t1 + gap + to], ["isExpired", t1 + gap + to],
                                                                       f(t1 + gap + to + 1), ["printIfExpired", t1 + gap + 2 * to + 2]]})
    return out


def load_corpus():
    out = []
    for p in sorted(glob.glob(os.path.join(CORPUS, "C19", "*.json"))):
        try:
            obj = json.load(open(p))
        except Exception:
            continue
        c = obj.get("case", obj)
        if isinstance(c, dict) and c.get("kind") in DRIVE:
            out.append(c)
    return out


def gen_batch(r, total):
    per = max(total // len(KINDS), 1)
    out = []
    for k in KINDS:
        for _ in range(per):
            out.append(GEN[k](r))
    return out


# ----------------------------------------------------------------------------
# emission
# ----------------------------------------------------------------------------
def emit_case(case, res):
    k = case["kind"]
    if k == "toggle":
        h = coq_list(["s %s %s %s" % (coq_Z(t), coq_bool(l), ACC_COQ[a]) for t, l, a in case["h"]])
        return "(%s, %s, %s)" % (coq_opt(case["period"], coq_Z), h, coq_list([coq_bool(x) for x in res]))
    if k == "debouncer":
        h = coq_list([("BSetPeriod %s" % coq_Z(op[1])) if op[0] == "set" else ("BGet %s %s" % (coq_Z(op[1]), coq_bool(op[2])))
                      for op in case["h"]])
        return "(%s, %s, %s)" % (coq_Z(case["period"]), h, coq_list([coq_opt(x, coq_bool) for x in res]))
    if k == "filter":
        h = coq_list(["r %s %s" % (coq_Z(t), coq_Z(l)) for t, l in case["h"]])
        return "(%s, %s, %s, %s)" % (coq_Z(case["period"]), coq_Z(case["bypass"]), h, coq_list([coq_bool(x) for x in res]))
    if k == "watchdog":
        ops, obs, fed = [], [], False
        for op, x in zip(case["h"], res):
            n = op[0]
            if n == "reset":
                ops.append("WReset %s" % coq_Z(op[1]))
            elif n == "enable":
                ops.append("WEnable %s" % coq_Z(op[1]))
            elif n == "disable":
                ops.append("WDisable")
            elif n == "setTimeout":
                ops.append("WSetTimeout %s %s" % (coq_Z(op[1]), coq_Z(op[2])))
            elif n == "isExpired":
                ops.append("WIsExpired %s" % coq_Z(op[1]))
            elif n == "addEpoch":
                ops.append("WAddEpoch %s %s" % (coq_Z(op[1]), coq_nat(op[2])))
            elif n == "printIfExpired":
                ops.append("WPrintIfExpired %s" % coq_Z(op[1]))
            elif n == "getTime":
                ops.append("WGetTime %s" % coq_Z(op[1]))
            else:
                ops.append("WGetTimeout")
            # what the property leaves open is masked on both sides (Corr.wmask)
            if n == "isExpired" and fed:
                obs.append("WE %s" % coq_bool(x))
            elif n == "printIfExpired" and fed:
                obs.append("WP %s" % coq_nat(min(x, 9)))
            else:
                obs.append("WN")
            fed = fed or n in ("reset", "enable", "setTimeout")
        return "(%s, %s, %s)" % (coq_Z(case["timeout"]), coq_list(ops), coq_list(obs))
    raise ValueError(k)


CASE_TYPE = {
    "toggle": ("option Z * list sample * list bool", "toggle_ok"),
    "debouncer": ("Z * list bop * list (option bool)", "deb_ok"),
    "filter": ("Z * Z * list lrec * list bool", "pf_ok"),
    "watchdog": ("Z * list wop * list wobs", "wd_ok"),
}

HEADER = ("From Coq Require Import ZArith List Bool.\n"
          "From RV Require Import Control.Machine Control.Toggle Control.Debounce Control.Filter Control.Watchdog Control.Corr.\n"
          "Import ListNotations.\n")


def cases_file(kind, items):
    ty, ok = CASE_TYPE[kind]
    return (HEADER + "Definition cases : list (%s) :=\n %s.\n" % (ty, coq_list(items).replace("; (", ";\n (")) +
            "Eval vm_compute in (bad_from %s 0 cases).\n" % ok)


def model_says(ctx, case):
    """the model's own results on one case, as printed by Coq (for the report only; must never break the search)"""
    try:
        k = case["kind"]
        n = len(case["h"])
        if k == "watchdog":
            fake = [False if op[0] == "isExpired" else 0 if op[0] == "printIfExpired" else None for op in case["h"]]
        else:
            fake = {"toggle": [False] * n, "debouncer": [None] * n, "filter": [False] * n}[k]
        lit = emit_case(case, fake)
        fn = {"toggle": "let '(p, h, _) := c in toggle_run p h", "debouncer": "let '(p, h, _) := c in deb_run p h",
              "filter": "let '(p, b, h, _) := c in pf_run p b h", "watchdog": "let '(t, h, _) := c in wd_run t h"}[k]
        txt = HEADER + "Definition c : %s := %s.\nEval vm_compute in (%s).\n" % (CASE_TYPE[k][0], lit, fn)
        rc, out = ctx.coq_file("model_says", txt, timeout=120)
        return " ".join(out.split())[:1500] if rc == 0 else "(model evaluation failed)"
    except Exception as e:
        return "(model evaluation failed: %r)" % e


# ----------------------------------------------------------------------------
def classify(case, res):
    """input-distribution keys + is the case non-trivial"""
    k = case["kind"]
    if k == "toggle":
        n_edges = sum(1 for i, x in enumerate(case["h"]) if x[1] and not (case["h"][i - 1][1] if i else False))
        accs = len(set(x[2] for x in case["h"]))
        if case["period"] is None:
            return "toggle", n_edges >= 1 and accs >= 2
        vals = [(not r) if a == "off" else r for (t, l, a), r in zip(case["h"], res)]
        changes = sum(1 for i, v in enumerate(vals) if v is not (vals[i - 1] if i else False))
        return "dtoggle", changes >= 1 and n_edges >= 2
    if k == "debouncer":
        gets = [(op, r) for op, r in zip(case["h"], res) if op[0] == "get"]
        return k, any(r for _, r in gets) and any(op[2] and not r for op, r in gets)
    if k == "filter":
        low = [(x, r) for x, r in zip(case["h"], res) if x[1] < case["bypass"]]
        return k, any(r for _, r in low) and any(not r for _, r in low) and len(low) < len(res)
    exp = [r for op, r in zip(case["h"], res) if op[0] == "isExpired"]
    return k, (True in exp and False in exp) or any(op[0] == "printIfExpired" and r for op, r in zip(case["h"], res))


def make_violation(env, ctx, case, clause, what, shrinked=True):
    if shrinked:
        case = shrink(env, case, clause)
        res, vs = violations_of(env, case)
        for c, w in vs:
            if c == clause:
                what = w
    else:
        res, _ = violations_of(env, case)
    obj = {"kind": "input", "fingerprint": clause, "clause": clause,
           "what": "%s: %s" % (describe(case), what), "case": case,
           "implementation_returned": [list(x) if isinstance(x, tuple) else x for x in res],
           "units": "watchdog times in microseconds; all other clock readings and periods in ticks of 1/64 s"}
    if ctx is not None:
        try:
            obj["model_returns"] = model_says(ctx, case)
        except Exception as e:      # the report text must never hide the failing input
            obj["model_returns"] = "(not available: %r)" % e
    return obj


def describe(case):
    k = case["kind"]
    if k == "toggle":
        return "Toggle(debounce_period=%s ticks)" % case["period"] if case["period"] is not None else "Toggle()"
    if k == "debouncer":
        return "ButtonDebouncer(period=%d ticks)" % case["period"]
    if k == "filter":
        return "PeriodicFilter(period=%d ticks, bypass_level=%d)" % (case["period"], case["bypass"])
    return "SimpleWatchdog(timeout=%d us)" % case["timeout"]


def run(ctx):
    ctx.assumptions.append(
        "C19: clock arithmetic idealised as exact (Z ticks; the run uses dyadic floats = ticks/64 and integer microseconds); "
        "round(timeout*1e6) of the watchdog is not modelled (timeouts are whole microseconds given as the nearest double); "
        "logging as 'a WARNING record reaches a handler'; joystick/clock/logging are the environment of the models")
    ctx.prove()
    # the model functions, regenerated from the current source (fail-closed translator harness/pytr.py)
    from . import c19_translate
    c19_translate.obligation(ctx)
    env = Env()
    try:
        return _run(ctx, env)
    finally:
        env.close()


def _run(ctx, env):
    total = 3000 if ctx.tier == "quick" else 60000
    corpus = load_corpus()
    cases = corpus + edge_cases() + gen_batch(ctx.rng, total)
    by_kind = {k: [] for k in DRIVE}
    raised, nontrivial = [], set()
    for idx, case in enumerate(cases):
        res, _ = drive(env, case)
        key, nt = classify(case, res) if not has_exc(res) else (case["kind"], False)
        ctx.count("kind=%s" % key)
        ctx.count("len=%s" % ("0" if not case["h"] else "1-4" if len(case["h"]) < 5 else "5-9" if len(case["h"]) < 10 else ">=10"))
        if case["kind"] == "toggle":
            for x in case["h"]:
                ctx.count("accessor=%s" % x[2])
        if case["kind"] == "watchdog":
            for x in case["h"]:
                ctx.count("wop=%s" % x[0])
        if has_exc(res):
            raised.append(idx)
            continue
        if nt:
            nontrivial.add(json.dumps(case, sort_keys=True))
        by_kind[case["kind"]].append((idx, emit_case(case, res)))
    ctx.obligation("corr:no call of the four classes raises", not raised,
                   "; ".join("%s -> %r" % (describe(cases[i]), drive(env, cases[i])[0]) for i in raised[:3]))
    items, index_of = [], {}
    for kind in DRIVE:
        for n, sh in enumerate(shards(by_kind[kind], SHARD)):
            name = "cases_%s_%d" % (kind, n)
            items.append((name, cases_file(kind, [lit for _, lit in sh])))
            index_of[name] = [i for i, _ in sh]
    results = ctx.coq_files_parallel(items)
    bad = list(raised)
    for name, _ in items:
        rc, out = results[name]
        lists = parse_eval_lists(out) if rc == 0 else []
        ok = rc == 0 and len(lists) == 1 and lists[0] == []
        ctx.obligation("corr:%s (model run inside Coq == implementation, %d histories)" % (name, len(index_of[name])), ok, out[-1500:])
        if rc == 0 and len(lists) == 1:
            bad += [index_of[name][i] for i in lists[0] if i < len(index_of[name])]
    samples = []
    for kind in ("toggle", "debouncer", "watchdog"):
        for case in cases[len(corpus) + len(edge_cases()):]:
            if case["kind"] == kind and len(case["h"]) >= 5:
                samples.append({"case": case, "implementation_returned": drive(env, case)[0]})
                break
    ctx.coverage.update({
        "evaluations": len(cases),
        "traces_validated_against_impl": len(cases) - len(raised),
        "distinct_nontrivial": len(nontrivial),
        "rule": "histories of 0-16 calls per object: corpus, hand-made boundary histories (exactly period-1/period/period+1, "
                "timeout-1/timeout/timeout+1 us, 999999/1000000/1000001 us between warnings), then seeded random ones per class "
                "(Toggle plain / Toggle debounced / ButtonDebouncer incl. set_debounce_period / PeriodicFilter / SimpleWatchdog, "
                "equal shares; 30% of the debounced Toggle histories are polling grids whose step divides the period, button held "
                "across the end of the steady window and released for about a period), increments drawn around the period, ~6% with clocks going backwards or negative, periods 0-128 "
                "ticks (0-2 s) and a few negative; non-trivial = toggle: >=1 rising edge through >=2 accessors; debounced toggle: "
                ">=1 change and >=2 raw edges; debouncer: a True and a refused press; filter: a passed and a suppressed low record "
                "and a bypass record; watchdog: isExpired both ways or a warning; distinct = distinct histories",
        "samples": samples[:3],
        "exhaustive": False,
        "disagreeing_cases": len(bad),
    })

    def search():
        found = None
        t0 = _time.time()
        # 1. the disagreeing cases themselves (a history on which the implementation agrees with the
        #    model cannot violate a proved clause, so this is where a violation must show up);
        #    one failing history per distinct clause of the property (at most 3 clauses)
        per_clause = {}
        for n, i in enumerate(bad):
            if _time.time() - t0 > 120 or len(per_clause) >= 3 or (per_clause and n >= 300):
                break
            _, vs = violations_of(env, cases[i])
            for clause, what in vs:
                per_clause.setdefault(clause, (cases[i], what))
        if per_clause:
            out = [make_violation(env, ctx if k == 0 else None, case, clause, what)
                   for k, (clause, (case, what)) in enumerate(per_clause.items())]
            out[0]["clauses_failing_on_other_histories"] = [o["what"] for o in out[1:]]
            return out
        # 2. the corpus and a bigger batch from the same generators (10x the tier's volume, time-capped),
        #    with the probes that look at copies of the object's state
        if found is None:
            t0 = _time.time()
            pool = iter(corpus + edge_cases())
            extra = 0
            while found is None and _time.time() - t0 < 240:
                case = next(pool, None)
                if case is None:
                    if extra >= 10 * total:
                        break
                    case = GEN[KINDS[extra % len(KINDS)]](ctx.rng)
                    extra += 1
                try:
                    _, vs = violations_of(env, case)
                except Exception:
                    continue
                if vs:
                    found = (case, vs[0])
        if found is None:
            return []
        case, (clause, what) = found
        return [make_violation(env, ctx, case, clause, what)]

    return ctx.finish(search=search)


def replay(ctx, obj):
    if obj.get("kind") != "input" or "case" not in obj:
        print("replay names broken obligations only: %s" % [b.get("name") if isinstance(b, dict) else b
                                                           for b in obj.get("broken_obligations", [])])
        return run(ctx)
    env = Env()
    try:
        case = obj["case"]
        res, vs = violations_of(env, case)
        print("%s" % describe(case))
        for op, x in zip(case["h"], res):
            print("  %-40r -> %r" % (op, x))
        for clause, what in vs:
            print("  property clause %s fails: %s" % (clause, what))
        if vs:
            print("VIOLATION property=C19 replay=(replayed)")
            return 1
        print("property holds on this history")
        return 0
    finally:
        env.close()
