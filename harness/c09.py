"""C09: tunables are per-instance NetworkTables values at the documented key.

Tie to the source (magicbot/magic_tunable.py as it is in $VERIF_REPO now):
  * type grid, EXHAUSTIVE over the model's own enumeration Model.grid_decls
    (159 defaults x (no hint + 237 hints) = 37842 class statements): the class
    is created with type(), bound when the default fits, and the type string
    read back from NetworkTables is compared with decl_topic inside Coq;
  * histories: generated classes (1-6 tunables over the whole bindable grid,
    subtables, writeDefault both ways, inherited tunables, a private one; class
    HIERARCHIES in which a subclass REDEFINES tunables of its bases -- other
    default / writeDefault / subtable / type, plain attributes over tunables;
    the model resolves dir(cls)/getattr(cls, n) itself: Model.class_members), 1-3
    instances under all owner kinds, pre-published topics, random
    interleavings of attribute writes/reads with writes/reads of an
    INDEPENDENT publisher/subscriber on the same NT instance, re-binding;
    owner classes whose instances can be FALSY (__len__ / __bool__ / a list
    subclass), the truthiness changing inside the history;
    every observation is compared with Model.xrun inside Coq;
  * the ENVIRONMENT of a history (Model section 13, compared with Model.grun): the NT clock is the HAL
    clock, PAUSED and stepped in 40% of the histories (robot tests: everything between two steps carries
    one timestamp); clients that stamp their updates themselves (the same timestamp as the value they
    replace / now / older = stale); topics only clients write, where the timestamps themselves are
    compared with the model's account of ntcore; components that are magicbot StateMachines (the
    library adds current_state, <state>_duration, state_names, state_descriptions; the last two are
    assigned anew on the class by EVERY instance construction); instances constructed and set up one
    after another; class attributes assigned between two setups (`Cls.x = tunable(..)`: replaced,
    added, a plain value in its place);
  * MagicRobot binds components / autonomous modes / itself (one real robot in a
    subprocess), keys compared with Model.owner_key inside Coq;
  * @feedback key/type derivation (reused by C11): feedback_key_cases(ctx).
"""
import importlib
import json
import os
import struct
import subprocess
import sys

from .common import coq_Z, coq_N, coq_nat, coq_bool, coq_list, coq_opt, coq_string, shards, parse_eval_lists, REPO

# string literals are the expensive part of elaborating a cases file: every distinct string of a
# file is defined once (Definition sN := "...") and referred to by name
class StrTab:
    def __init__(self):
        self.names = {}

    def name(self, s):
        if s not in self.names:
            self.names[s] = "s%d" % len(self.names)
        return self.names[s]

    def defs(self):
        return "".join("Definition %s : string := %s.\n" % (n, coq_string(s)) for s, n in self.names.items())


_STRTAB = None


def cs(s):
    """Coq term for the string s (interned when a table is active)."""
    return _STRTAB.name(s) if _STRTAB is not None else coq_string(s)


# ---------------------------------------------------------------------------
# portable values ("pv"): JSON-able, canonical
#   scalars: ["bool",b] ["int",z] ["float",n64] ["str",s] ["bytes",[..]] ["struct",name,[n64..]] ["other"]
#   containers: ["list",[scalar..]] ["tuple",[scalar..]]
# ---------------------------------------------------------------------------
BASES = ["bool", "int", "float", "str", "bytes", "T2", "T3", "other"]
STRUCT_NAME = {"T2": "Translation2d", "T3": "Translation3d"}
STRUCT_ARITY = {"Translation2d": 2, "Translation3d": 3}


def _geom():
    from wpimath import geometry
    return geometry


def struct_cls(name):
    g = _geom()
    return {"Translation2d": g.Translation2d, "Translation3d": g.Translation3d}[name]


def scalar_to_py(s):
    k = s[0]
    if k == "bool":
        return bool(s[1])
    if k == "int":
        return int(s[1])
    if k == "float":
        return f64_to_py(s[1])
    if k == "str":
        return s[1]
    if k == "bytes":
        return bytes(s[1])
    if k == "struct":
        f = list(s[2]) + [0] * (STRUCT_ARITY[s[1]] - len(s[2]))   # the grid's sample struct has two fields
        return struct_cls(s[1])(*[f64_to_py(x) for x in f])
    return None


def to_py(pv):
    if pv[0] == "list":
        return [scalar_to_py(x) for x in pv[1]]
    if pv[0] == "tuple":
        return tuple(scalar_to_py(x) for x in pv[1])
    return scalar_to_py(pv)


def scalar_to_coq(s):
    k = s[0]
    if k == "bool":
        return "(SBool %s)" % coq_bool(s[1])
    if k == "int":
        return "(SInt %s)" % coq_Z(s[1])
    if k == "float":
        return "(SFloat %s)" % coq_Z(s[1])
    if k == "str":
        return "(SStr %s)" % cs(s[1])
    if k == "bytes":
        return "(SBytes %s)" % coq_list([coq_N(x) for x in s[1]])
    if k == "struct":
        return "(SStruct %s %s)" % (cs(s[1]), coq_list([coq_Z(x) for x in s[2]]))
    return "SOther"


def to_coq(pv):
    if pv[0] == "list":
        return "(VList %s)" % coq_list([scalar_to_coq(x) for x in pv[1]])
    if pv[0] == "tuple":
        return "(VTuple %s)" % coq_list([scalar_to_coq(x) for x in pv[1]])
    return "(VScalar %s)" % scalar_to_coq(pv)


def canon(pv):
    return ["list", pv[1]] if pv[0] == "tuple" else pv


def as_topic_value(ts, pv):
    """ORACLE side: the value `pv` a Python program assigns / declares as default, as a value of the
    topic's type `ts` -- the same number: an int (or bool) on a double topic is that float, a bool on
    an int topic 0/1 (Python's numeric tower; the generated ints are exactly representable).  Values of
    the topic's own type, and everything the tower does not cover, are returned as they are."""
    pv = canon(pv)

    def conv(s, base):
        if base == "float" and s[0] in ("int", "bool"):
            return ["float", int(s[1]) * 64]
        if base == "int" and s[0] == "bool":
            return ["int", int(s[1])]
        return s
    if ts not in TS_KIND:
        return pv
    base, arr = TS_KIND[ts]
    if arr and pv[0] == "list":
        return ["list", [conv(e, base) for e in pv[1]]]
    if not arr and pv[0] != "list":
        return conv(pv, base)
    return pv


# Floats: the model's SFloat n stands for n/64 (exact for the values the generator draws; int -> double is 64*z).  Every OTHER
# double -- a near-neighbour of such a value: nextafter, x*(1 +- 1e-12), 0.1 + 0.2 -- enters the model as an opaque, distinct
# value: _FX + its IEEE-754 bit pattern.  The model only ever asks whether two values are the same (latest write wins, exact;
# ntcore's duplicate test is == on the doubles), so the encoding has to be injective, nothing more.
_FX = 1 << 200


def _f64(x):
    import math
    x = float(x)
    if not math.isfinite(x):
        raise ValueError("not a finite float: %r" % x)
    n = x * 64.0
    if math.isfinite(n) and n == int(n) and abs(n) <= 2 ** 62:
        return int(n)
    return _FX + struct.unpack("<Q", struct.pack("<d", x))[0]


def f64_to_py(n):
    if n >= _FX:
        return struct.unpack("<d", struct.pack("<Q", n - _FX))[0]
    return n / 64.0


def show(x):
    """JSON text of an observation / value in which the floats outside the n/64 grid are written as Python writes them"""
    def walk(v):
        if isinstance(v, list):
            if len(v) == 2 and v[0] == "float" and isinstance(v[1], int) and v[1] >= _FX:
                return ["float", "python float %r" % f64_to_py(v[1])]
            return [walk(e) for e in v]
        return v
    return json.dumps(walk(x))


def near_float(r, s):
    """a float scalar pv that is very close to, but not the same as, s"""
    import math
    x = f64_to_py(s[1])
    how = r.randrange(5)
    if how == 0:
        y = math.nextafter(x, math.inf)
    elif how == 1:
        y = math.nextafter(x, -math.inf)
    elif how == 2:
        y = x * (1 + 1e-12)
    elif how == 3:
        y = x * (1 - 1e-12)
    else:
        y = x + 0.1 + 0.2 - 0.3                      # 0.1 + 0.2 is not 0.3
    if y == x or not math.isfinite(y):
        y = math.nextafter(x, math.inf)
    return ["float", _f64(y)]


def near_value(r, pv):
    """pv with (one or all of) its floats moved to a near-neighbour; None when there is no float in it"""
    pv = canon(pv)
    if pv[0] == "float":
        return near_float(r, pv)
    if pv[0] == "list" and pv[1] and all(e[0] == "float" for e in pv[1]):
        k = r.randrange(len(pv[1])) if r.random() < 0.6 else None
        return ["list", [near_float(r, e) if (k is None or j == k) else e for j, e in enumerate(pv[1])]]
    return None


def scalar_from_py(x, base):
    """canonicalise a Python object read from an entry of element type `base`."""
    if base == "bool":
        if isinstance(x, bool) or x in (0, 1):
            return ["bool", bool(x)]
    elif base == "int":
        if isinstance(x, int) and not isinstance(x, bool):
            return ["int", int(x)]
    elif base == "float":
        if isinstance(x, float):
            return ["float", _f64(x)]
    elif base == "str":
        if isinstance(x, str) and all(32 <= ord(c) < 127 for c in x):
            return ["str", x]
    elif base == "bytes":
        if isinstance(x, (bytes, bytearray)):
            return ["bytes", list(x)]
    elif base in ("T2", "T3"):
        cls = struct_cls(STRUCT_NAME[base])
        if isinstance(x, cls):
            f = [x.x, x.y] if base == "T2" else [x.x, x.y, x.z]
            return ["struct", STRUCT_NAME[base], [_f64(v) for v in f]]
    raise ValueError("cannot canonicalise %r as %s" % (x, base))


def from_py(x, base, arr):
    if arr:
        if not isinstance(x, (list, tuple)):
            raise ValueError("not an array: %r" % (x,))
        return ["list", [scalar_from_py(e, base) for e in x]]
    return scalar_from_py(x, base)


# ---- type strings -----------------------------------------------------------
SCALAR_TS = {"bool": "boolean", "int": "int", "float": "double", "str": "string", "bytes": "raw",
             "T2": "struct:Translation2d", "T3": "struct:Translation3d"}
ARRAY_TS = {"bool": "boolean[]", "int": "int[]", "float": "double[]", "str": "string[]",
            "T2": "struct:Translation2d[]", "T3": "struct:Translation3d[]"}
TS_KIND = {}
for _b, _s in SCALAR_TS.items():
    TS_KIND[_s] = (_b, False)
for _b, _s in ARRAY_TS.items():
    TS_KIND[_s] = (_b, True)

NTYPE_COQ = {"boolean": "NBoolean", "int": "NInteger", "double": "NDouble", "string": "NString", "raw": "NRaw",
             "struct:Translation2d": '(NStruct "Translation2d")', "struct:Translation3d": '(NStruct "Translation3d")',
             "boolean[]": "NBooleanArr", "int[]": "NIntegerArr", "double[]": "NDoubleArr", "string[]": "NStringArr",
             "struct:Translation2d[]": '(NStructArr "Translation2d")', "struct:Translation3d[]": '(NStructArr "Translation3d")'}


def base_of_scalar(s):
    if s[0] == "struct":
        return "T2" if s[1] == "Translation2d" else "T3"
    return s[0]


def fits(pv, ts):
    """does the (python form of the) value fit a topic of type string ts exactly?"""
    if ts not in TS_KIND:
        return False
    base, arr = TS_KIND[ts]
    if arr:
        return pv[0] in ("list", "tuple") and all(base_of_scalar(e) == base for e in pv[1])
    return pv[0] not in ("list", "tuple") and base_of_scalar(pv) == base


# ---- type expressions (hints) ----------------------------------------------
#   ["base", b] | ["bare", o] | ["gen", o, [arg..]]  arg: base name or "..."
def base_pytype(b):
    if b in ("T2", "T3"):
        return struct_cls(STRUCT_NAME[b])
    return {"bool": bool, "int": int, "float": float, "str": str, "bytes": bytes, "other": complex}[b]


def hint_to_py(h, flavor=0):
    """flavor 1 prefers typing.List/Tuple/Sequence where typing accepts the form."""
    import typing
    import collections.abc
    if h[0] == "base":
        return base_pytype(h[1])
    if h[0] == "bare":
        return {"list": list, "tuple": tuple, "seq": collections.abc.Sequence}[h[1]]
    o, args = h[1], h[2]
    pargs = tuple(Ellipsis if a == "..." else base_pytype(a) for a in args)
    if not args:
        return typing.List if o == "list" else tuple[()]
    if flavor == 1:
        try:
            if o == "list" and len(pargs) == 1:
                return typing.List[pargs[0]]
            if o == "tuple":
                return typing.Tuple[pargs if len(pargs) > 1 else pargs[0]]
            if o == "seq" and len(pargs) == 1:
                return typing.Sequence[pargs[0]]
        except TypeError:
            pass
    if o == "list":
        return list[pargs if len(pargs) > 1 else pargs[0]]
    if o == "tuple":
        return tuple[pargs if len(pargs) > 1 else pargs[0]]
    return collections.abc.Sequence[pargs[0]]


BASE_COQ = {"bool": "BBool", "int": "BInt", "float": "BFloat", "str": "BStr", "bytes": "BBytes",
            "T2": '(BStruct "Translation2d")', "T3": '(BStruct "Translation3d")', "other": "BOther"}
ORIGIN_COQ = {"list": "OList", "tuple": "OTuple", "seq": "OSeq"}


def hint_to_coq(h):
    if h[0] == "base":
        return "(TBase %s)" % BASE_COQ[h[1]]
    if h[0] == "bare":
        return "(TBare %s)" % ORIGIN_COQ[h[1]]
    return "(TGen %s %s)" % (ORIGIN_COQ[h[1]],
                             coq_list(["AEllipsis" if a == "..." else "(ABase %s)" % BASE_COQ[a] for a in h[2]]))


# ---- the model's grid, re-enumerated in the same order as Model.grid_decls ---
def sample_scalars(b):
    return {"bool": [["bool", True], ["bool", False]], "int": [["int", 3], ["int", 0]],
            "float": [["float", 96], ["float", 0]], "str": [["str", "ab"], ["str", ""]],
            "bytes": [["bytes", [120]], ["bytes", []]], "T2": [["struct", "Translation2d", [64, 128]]],
            "T3": [["struct", "Translation3d", [64, 128]]], "other": [["other"]]}[b]


def grid_defaults():
    out = []
    for b in BASES:
        out += sample_scalars(b)
    out += [["list", []], ["tuple", []]]
    for b in BASES:
        s = sample_scalars(b)[0]
        out += [["list", [s]], ["list", [s, s]], ["tuple", [s]], ["tuple", [s, s]]]
    for b in BASES:
        for c in BASES:
            if b != c:
                out += [["list", [sample_scalars(b)[0], sample_scalars(c)[0]]],
                        ["tuple", [sample_scalars(b)[0], sample_scalars(c)[0]]]]
    return out


def grid_hints():
    out = [["base", b] for b in BASES]
    out += [["bare", "list"], ["bare", "tuple"], ["bare", "seq"], ["gen", "tuple", []], ["gen", "list", []]]
    for b in BASES:
        out += [["gen", "list", [b]], ["gen", "seq", [b]], ["gen", "tuple", [b]], ["gen", "tuple", [b, "..."]],
                ["gen", "tuple", [b, b]], ["gen", "tuple", [b, b, b]], ["gen", "tuple", ["...", b]]]
    for b in BASES:
        for c in BASES:
            if b != c:
                out += [["gen", "tuple", [b, c]], ["gen", "list", [b, c]], ["gen", "tuple", [b, c, "..."]]]
    return out


def grid_decls():
    hs = grid_hints()
    out = []
    for d in grid_defaults():
        out.append((d, None))
        out += [(d, h) for h in hs]
    return out


# ---------------------------------------------------------------------------
# driving the implementation
# ---------------------------------------------------------------------------
def impl():
    """the implementation module from $VERIF_REPO (fresh import per run)."""
    return importlib.import_module("magicbot.magic_tunable")


def nt_inst():
    import ntcore
    return ntcore.NetworkTableInstance.getDefault()


# ---- how a class with tunables is WRITTEN ---------------------------------------
#   form (per tunable, how the hint H is attached):
#     0  x = tunable[H](d)          1  x: ClassVar[tunable[H]] = tunable(d)
#     2  x: tunable[H] = tunable(d) 3  x: H = tunable(d)          4  x: ClassVar[H] = tunable(d)
#   src (per class, how the class statement is produced):
#     0  type(name, bases, ns) with evaluated annotation objects
#     1  a real module: generated source text, exec'd in a fresh module registered in sys.modules
#     2  the same with `from __future__ import annotations` (PEP 563: EVERY annotation is a str)
#   q (per tunable, only in a module): 0 as is, 1 the whole annotation in quotes,
#     2 the argument of the outermost subscript in quotes (ClassVar["tunable[H]"], list["float"])
BASE_SRC = {"bool": "bool", "int": "int", "float": "float", "str": "str", "bytes": "bytes",
            "T2": "Translation2d", "T3": "Translation3d", "other": "complex"}
SRC_HEADER = ("import typing, collections.abc\n"
              "from typing import ClassVar, List, Tuple\n"
              "from collections.abc import Sequence\n"
              "from wpimath.geometry import Translation2d, Translation3d\n")
_SRC_NS = {}


def src_ns():
    """the names a generated module can use in annotations (same as SRC_HEADER provides)."""
    if not _SRC_NS:
        exec(SRC_HEADER, _SRC_NS)
    return _SRC_NS


def hint_src(h, flavor=0, quote_args=False):
    """source text of the hint; evaluates to hint_to_py(h, flavor) (checked by check_hint_sources)."""
    if h[0] == "base":
        return BASE_SRC[h[1]]
    if h[0] == "bare":
        return {"list": "list", "tuple": "tuple", "seq": "Sequence"}[h[1]]
    o, args = h[1], h[2]
    if not args:
        return "typing.List" if o == "list" else "tuple[()]"
    a = ", ".join("..." if x == "..." else (repr(BASE_SRC[x]) if quote_args else BASE_SRC[x]) for x in args)
    if flavor == 1:
        cand = None
        if o == "list" and len(args) == 1:
            cand = "List[%s]" % a
        elif o == "tuple":
            cand = "Tuple[%s]" % a
        elif o == "seq" and len(args) == 1:
            cand = "typing.Sequence[%s]" % a
        if cand is not None:
            try:
                eval(cand, dict(src_ns()))
                return cand
            except TypeError:
                pass
    return {"list": "list[%s]", "tuple": "tuple[%s]", "seq": "Sequence[%s]"}[o] % a


def fwd_quotable(h, form):
    """is there an outermost subscript argument to put in quotes?"""
    if form in (1, 2, 4):
        return True
    return h[0] == "gen" and bool(h[2]) and any(x != "..." for x in h[2])


def ann_src(h, form, flavor, q):
    """source text of the annotation of `x: <ann> = tunable(d)` (forms 1-4)."""
    H = hint_src(h, flavor)
    if q == 2 and fwd_quotable(h, form):
        if form == 1:
            return "ClassVar[%r]" % ("tunable[%s]" % H)
        if form == 2:
            return "tunable[%r]" % H
        if form == 4:
            return "ClassVar[%r]" % H
        return hint_src(h, flavor, quote_args=True)
    full = {1: "ClassVar[tunable[%s]]", 2: "tunable[%s]", 3: "%s", 4: "ClassVar[%s]"}[form] % H
    return repr(full) if q else full


def eff_src(decls, src):
    """quoting needs source text: a type() class with a quoted tunable is written as a module;
    attribute names that are not identifiers can only be set through type()."""
    if not all(d["attr"].isidentifier() and not d["attr"].startswith("__") for d in decls):
        return 0
    if src == 0 and any(d.get("q") and d.get("hint") is not None and d.get("form", 0) != 0 for d in decls):
        return 1
    return src


def spelling(d, src):
    """(classvar, in_tunable, quoting) of the model's Model.spell for this tunable, None = subscript."""
    form = d.get("form", 0)
    if form == 0:
        return None
    q = d.get("q", 0) if src else 0
    if src == 2 or q == 1 or (q == 2 and not fwd_quotable(d["hint"], form)):
        quoting = "QStr"
    elif q == 2:
        quoting = "QFwd"
    else:
        quoting = "QObj"
    return (form in (1, 4), form in (1, 2), quoting)


def spelling_to_coq(sp):
    if sp is None:
        return "SpSubscript"
    return "(SpAnn %s %s %s)" % (sp[2], coq_bool(sp[0]), coq_bool(sp[1]))


# ---- owner classes whose instances can be falsy ---------------------------------
#   tkind (per class): None  an ordinary class (bool(obj) is always True)
#                      "len"  container-like: __len__ returns self._c09_n (0 at creation)
#                      "bool" __bool__ returns self._c09_b (False at creation)
#                      "list" a subclass of list (empty at creation)
#   the methods live on the base-most generated class (inherited when the class is split)
TRUTH_SRC = {"len": ["    _c09_n = 0", "    def __len__(self):", "        return self._c09_n"],
             "bool": ["    _c09_b = False", "    def __bool__(self):", "        return self._c09_b"]}


def truth_ns(tkind):
    if tkind == "len":
        return {"_c09_n": 0, "__len__": lambda self: self._c09_n}
    if tkind == "bool":
        return {"_c09_b": False, "__bool__": lambda self: self._c09_b}
    return {}


def set_truth(obj, tkind, val):
    """change the owner's own state; returns bool(obj) afterwards."""
    if tkind == "len":
        obj._c09_n = int(val)
    elif tkind == "bool":
        obj._c09_b = bool(val)
    elif tkind == "list":
        obj[:] = [None] * int(val)
    return bool(obj)


def truth_initial(tkind):
    return {"len": 0, "list": 0, "bool": False}.get(tkind)


def truth_to_coq(tkind, val):
    if tkind in ("len", "list"):
        return "(TLen %s)" % coq_N(int(val))
    if tkind == "bool":
        return "(TBool %s)" % coq_bool(bool(val))
    return "TPlain"


def truth_is_falsy(tkind, val):
    return tkind is not None and not val


def describe_truth(tkind, val):
    if tkind is None:
        return "ordinary owner"
    if tkind == "bool":
        return "owner class defines __bool__, now %r" % bool(val)
    return "owner class %s, now len %d" % ("defines __len__" if tkind == "len" else "is a list subclass", int(val))


# ---- class hierarchies with REDEFINED tunables ---------------------------------
#   hier = {"levels": [[member..]..]   a chain of classes, base-most first, the last one is the class itself
#           "mixin":  [member..]|None  a second base of the most derived class: class C(<chain base>, Mixin)}
#   member = a tunable declaration (dict with "default") or {"attr": name, "plain": pv} (name = <a plain value>)
#   cls.__mro__ = the class, its chain of bases (most derived first), then the mixin
def is_plain(m):
    return "plain" in m


def hier_mro(h):
    """the bodies in cls.__mro__ order (as the model takes them)."""
    return list(reversed(h["levels"])) + ([h["mixin"]] if h.get("mixin") is not None else [])


def hier_tunables(h):
    """every tunable declaration written anywhere in the hierarchy (the shadowed ones included)."""
    return [m for body in hier_mro(h) for m in body if not is_plain(m)]


def effective_decls(h):
    """ORACLE side, from Python's attribute semantics (not from the model): the attribute A of an
    instance is what the most derived class that assigns A says; a class of the chain overrides its
    bases, every class of the chain overrides the mixin (the last base).  Returns the tunables."""
    ns = {}
    for body in ([h["mixin"]] if h.get("mixin") is not None else []) + list(h["levels"]):
        for m in body:
            ns[m["attr"]] = m                       # a later (more derived) assignment replaces it
    return sorted((m for m in ns.values() if not is_plain(m)), key=lambda d: d["attr"])


def shadowed_members(h):
    """the members that are NOT what the class resolves their name to."""
    eff = {}
    for body in ([h["mixin"]] if h.get("mixin") is not None else []) + list(h["levels"]):
        for m in body:
            eff[m["attr"]] = m
    return [m for body in hier_mro(h) for m in body if eff[m["attr"]] is not m]


def tunable_kwargs(d):
    kw = {}
    if d.get("wd") is not None:
        kw["writeDefault"] = d["wd"]
    if d.get("subtable") is not None:
        kw["subtable"] = d["subtable"]
    return kw


def shared_object(mt, pool, d):
    """the tunable OBJECT of a declaration that carries "obj": created once per history (by the first
    class body that binds it) and bound by every declaration with the same "obj" number, each under its
    own attribute name -- `default_kp = tunable(0.5)` at module level, `intake_kp = default_kp` in one
    class, `shooter_kp = default_kp` in another.  A subscript hint (form 0) is part of the object."""
    if d["obj"] not in pool:
        default = to_py(d["default"])
        h = d.get("hint")
        if h is not None and d.get("form", 0) == 0:
            pool[d["obj"]] = mt.tunable[hint_to_py(h, d.get("flavor", 0))](default, **tunable_kwargs(d))
        else:
            pool[d["obj"]] = mt.tunable(default, **tunable_kwargs(d))
    return pool[d["obj"]]


def describe_shared(d):
    """source text that creates the shared object of declaration d."""
    h = d.get("hint")
    args = json.dumps(d["default"])
    if d.get("wd") is not None:
        args += ", writeDefault=%r" % bool(d["wd"])
    if d.get("subtable") is not None:
        args += ", subtable=%r" % d["subtable"]
    if h is not None and d.get("form", 0) == 0:
        return "tunable[%s](%s)" % (hint_src(h, d.get("flavor", 0)), args)
    return "tunable(%s)" % args


# ---- components that are magicbot StateMachines -----------------------------------
#   sm = {"states": [{"name": n, "first": bool, "dur": None | scalar pv, "doc": None | str}..]}
#   class C(StateMachine) with one @state / @timed_state method per entry.  The library itself
#   gives such a class more tunables (all in the subtable "state"): StateMachine.current_state,
#   <name>_duration per timed state (writeDefault=False; set on the class by the state's
#   __set_name__), and state_names / state_descriptions, which EVERY instance construction
#   assigns anew on the class (cls.state_names = tunable(..)).
SM_HEADER = "from magicbot.state_machine import StateMachine, state, timed_state\n"


def sm_decls(sm):
    """the tunables the library adds to such a class (marked "sm"; not written in the class body)."""
    def mk(attr, kind, default, wd, how):
        return {"attr": attr, "kind": kind, "default": default, "hint": None, "form": 0, "flavor": 0, "q": 0,
                "subtable": "state", "wd": wd, "sm": how}
    out = [mk("current_state", ["str", False], ["str", ""], None, "base")]
    for st in sm["states"]:
        if st.get("dur") is not None:
            out.append(mk(st["name"] + "_duration", [st["dur"][0], False], st["dur"], False, "dur"))
    out.append(mk("state_names", ["str", True], ["list", [["str", st["name"]] for st in sm["states"]]], None, "names"))
    out.append(mk("state_descriptions", ["str", True], ["list", [["str", st.get("doc") or ""] for st in sm["states"]]], None, "names"))
    return out


def sm_source(sm, env, nvar):
    lines = []
    for st in sm["states"]:
        if st.get("dur") is not None:
            var = "_d%d" % nvar[0]
            nvar[0] += 1
            env[var] = to_py(st["dur"])
            lines.append("    @timed_state(duration=%s%s)" % (var, ", first=True" if st.get("first") else ""))
        else:
            lines.append("    @state(first=True)" if st.get("first") else "    @state")
        lines.append("    def %s(self):" % st["name"])
        lines.append("        %s" % (repr(st["doc"]) if st.get("doc") else "pass"))
    return lines


def class_source(decls, name, split, src, tkind=None, hier=None, mkobj=None, sm=None):
    """(source text, {default variable: object}) of the module defining class `name`.
    mkobj(d): the shared tunable object of a declaration with "obj" (None: only for printing).
    sm: the class is a magicbot StateMachine with these states (see sm_decls)."""
    env = {}
    lines = []
    nvar = [0]
    decls = [d for d in decls if "sm" not in d]

    def body(cname, bases, ds, root):
        if root and tkind == "list":
            bases = ["list"] + bases
        if root and sm is not None:
            bases = ["StateMachine"] + bases
        lines.append("class %s%s:" % (cname, "(%s)" % ", ".join(bases) if bases else ""))
        if root and tkind in TRUTH_SRC:
            lines.extend(TRUTH_SRC[tkind])
        elif not ds and not (root and sm is not None):
            lines.append("    pass")
        if root and sm is not None:
            lines.extend(sm_source(sm, env, nvar))
        for d in ds:
            var = "_d%d" % nvar[0]
            nvar[0] += 1
            if is_plain(d):
                env[var] = to_py(d["plain"])
                lines.append("    %s = %s" % (d["attr"], var))
                continue
            h, form = d.get("hint"), d.get("form", 0)
            if "obj" in d:
                # a module-level tunable object, bound here under this class's own name for it
                var = "_shared%d" % d["obj"]
                env[var] = mkobj(d) if mkobj is not None else "<%s>" % describe_shared(d)
                if h is None or form == 0:
                    lines.append("    %s = %s" % (d["attr"], var))
                else:
                    lines.append("    %s: %s = %s" % (d["attr"], ann_src(h, form, d.get("flavor", 0), d.get("q", 0)), var))
                continue
            env[var] = to_py(d["default"])
            args = var
            if d.get("wd") is not None:
                args += ", writeDefault=%r" % bool(d["wd"])
            if d.get("subtable") is not None:
                args += ", subtable=%r" % d["subtable"]
            if h is None:
                lines.append("    %s = tunable(%s)" % (d["attr"], args))
            elif form == 0:
                lines.append("    %s = tunable[%s](%s)" % (d["attr"], hint_src(h, d.get("flavor", 0)), args))
            else:
                lines.append("    %s: %s = tunable(%s)" % (d["attr"], ann_src(h, form, d.get("flavor", 0), d.get("q", 0)), args))
        lines.append("")

    if hier is not None:
        levels = hier["levels"]
        if hier.get("mixin") is not None:
            body(name + "Mixin", [], hier["mixin"], False)
        for k, ds in enumerate(levels):
            last = k == len(levels) - 1
            bases = [] if k == 0 else [name + "L%d" % (k - 1)]
            if last and hier.get("mixin") is not None:
                bases = bases + [name + "Mixin"]
            body(name if last else name + "L%d" % k, bases, ds, k == 0)
    elif split:
        body(name + "Base", [], decls[:split], True)
        body(name, [name + "Base"], decls[split:], False)
    else:
        body(name, [], decls, True)
    head = ("from __future__ import annotations\n" if src == 2 else "") + SRC_HEADER + (SM_HEADER if sm is not None else "")
    return head + "\n" + "\n".join(lines), env


_MODN = [0]
_KEEP_MODULES = [False]     # a robot process: MagicRobot evaluates the components' annotations again (injection), the
                            # user's module stays imported, as it is in a real program


def make_class_src(mt, decls, name, split, src, tkind=None, hier=None, pool=None, sm=None):
    """the class statement as it stands in a user's module (typing.get_type_hints resolves string
    annotations in sys.modules[cls.__module__].__dict__: the module is registered while it runs)."""
    import types
    pool = {} if pool is None else pool
    text, env = class_source(decls, name, split, src, tkind, hier, mkobj=lambda d: shared_object(mt, pool, d), sm=sm)
    _MODN[0] += 1
    modname = "c09gen_%d" % _MODN[0]
    mod = types.ModuleType(modname)
    mod.__dict__.update(env)
    mod.__dict__["tunable"] = mt.tunable
    sys.modules[modname] = mod
    try:
        exec(compile(text, "<%s>" % modname, "exec"), mod.__dict__)
    finally:
        if not _KEEP_MODULES[0]:
            del sys.modules[modname]
    return mod.__dict__[name]


def make_class(mt, decls, name="Gen", split=0, src=0, tkind=None, hier=None, pool=None, sm=None):
    """a class with the tunables `decls` (dict: attr default hint form flavor q subtable wd [obj]);
    the first `split` of them live on a base class (dir(cls) must find them); tkind: how bool()
    of an instance is computed (see TRUTH_SRC); hier: the class is a hierarchy with redefinitions
    (then `decls` is what it resolves to and is not used to build it); pool: the shared tunable
    objects of the history (declarations with the same "obj" bind ONE object, see shared_object)."""
    import typing
    pool = {} if pool is None else pool
    decls = [d for d in decls if "sm" not in d]
    src = eff_src(hier_tunables(hier) if hier is not None else decls, src)
    if sm is not None:
        src = max(1, src)                            # the states are methods: written as source text
    if src:
        return make_class_src(mt, decls, name, split, src, tkind, hier, pool, sm)

    def ns_of(ds):
        ns, ann = {}, {}
        for d in ds:
            if is_plain(d):
                ns[d["attr"]] = to_py(d["plain"])
                continue
            kw = tunable_kwargs(d)
            default = to_py(d["default"])
            h = d.get("hint")
            shared = shared_object(mt, pool, d) if "obj" in d else None
            if h is None:
                ns[d["attr"]] = shared if shared is not None else mt.tunable(default, **kw)
                continue
            ph = hint_to_py(h, d.get("flavor", 0))
            form = d.get("form", 0)
            if form == 0:
                ns[d["attr"]] = shared if shared is not None else mt.tunable[ph](default, **kw)
            else:
                ns[d["attr"]] = shared if shared is not None else mt.tunable(default, **kw)
                ann[d["attr"]] = (typing.ClassVar[mt.tunable[ph]] if form == 1 else
                                  mt.tunable[ph] if form == 2 else
                                  typing.ClassVar[ph] if form == 4 else ph)
        if ann:
            ns["__annotations__"] = ann
        return ns

    bases = (list,) if tkind == "list" else (object,)
    if hier is not None:
        levels = hier["levels"]
        mixin = type(name + "Mixin", (object,), ns_of(hier["mixin"])) if hier.get("mixin") is not None else None
        cls = None
        for k, ds in enumerate(levels):
            last = k == len(levels) - 1
            b = bases if cls is None else (cls,)
            if last and mixin is not None:
                b = tuple(x for x in b if x is not object) + (mixin,)
            ns = dict(truth_ns(tkind), **ns_of(ds)) if k == 0 else ns_of(ds)
            cls = type(name if last else name + "L%d" % k, b, ns)
        return cls
    if split:
        bases = (type(name + "Base", bases, dict(truth_ns(tkind), **ns_of(decls[:split]))),)
        return type(name, bases, ns_of(decls[split:]))
    return type(name, bases, dict(truth_ns(tkind), **ns_of(decls)))


def check_hint_sources():
    """harness self-check: the generated source text of every hint of the grid evaluates to the
    object hint_to_py builds (both flavors), and the quoted-argument form to the same origin."""
    bad = []
    ns = dict(src_ns())
    for h in grid_hints():
        for fl in (0, 1):
            try:
                if eval(hint_src(h, fl), ns) != hint_to_py(h, fl):
                    bad.append([h, fl])
            except Exception as e:
                bad.append([h, fl, repr(e)])
    return bad


def doc_key(prefix, cname, subtable, attr):
    """the DOCUMENTED key (harness side, used to address topics independently)."""
    p = "/%s" % cname if prefix is None else "/%s/%s" % (prefix, cname)
    if subtable:
        return "%s/%s/%s" % (p, subtable, attr)
    return "%s/%s" % (p, attr)


def nt_read(key):
    """independent generic subscriber: None or [type string, pv]."""
    inst = nt_inst()
    t = inst.getTopic(key)
    ts = t.getTypeString()
    if not t.exists() or ts == "":
        return None
    sub = t.genericSubscribe()
    v = sub.get()
    if not v.isValid():
        return [ts, ["other"]]
    raw = v.value()
    if ts not in TS_KIND:
        return [ts, ["other"]]
    base, arr = TS_KIND[ts]
    try:
        if base in ("T2", "T3"):
            n = STRUCT_ARITY[STRUCT_NAME[base]]
            raw = bytes(raw)
            if len(raw) % (8 * n):
                raise ValueError("struct size")
            items = [["struct", STRUCT_NAME[base], [_f64(x) for x in struct.unpack_from("<%dd" % n, raw, o)]]
                     for o in range(0, len(raw), 8 * n)]
            if arr:
                return [ts, ["list", items]]
            if len(items) != 1:
                raise ValueError("struct count")
            return [ts, items[0]]
        return [ts, from_py(raw, base, arr)]
    except ValueError:
        return [ts, ["other"]]


# ---- the NT clock ---------------------------------------------------------------
# ntcore stamps every value with its clock: the wall clock, or -- once the HAL is initialised, as in
# every robot program, simulation and pyfrc test -- the HAL clock, which can be PAUSED and stepped
# (hal.simulation.pauseTiming / stepTiming): everything between two steps then carries one and the
# same timestamp.  The HAL clock starts near zero, i.e. far behind the wall clock, and ntcore drops a
# value that is stamped older than the one a topic holds: the HAL is initialised before the first
# NetworkTables value of the process is written.
_HAL = [False]


def init_clock():
    if not _HAL[0]:
        import hal
        hal.initialize(500, 0)
        _HAL[0] = True


def nt_now():
    import ntcore
    return ntcore._now()


def nt_stamp(key):
    """the timestamp of the value the topic holds, as an independent subscriber sees it (0: the topic
    has no value, or only a default)."""
    t = nt_inst().getTopic(key)
    if not t.exists():
        return 0
    v = t.genericSubscribe().get()
    return int(v.time()) if v.isValid() else 0


class NtWriter:
    """independent publishers on the same NT instance, kept alive by the caller."""

    def __init__(self):
        self.pubs = {}

    def write(self, key, ts, pv, sel=None):
        """sel: how the client stamps the update -- None: it leaves that to ntcore; "now": its own
        reading of the NT clock; "same": the timestamp of the value the topic holds right now (two
        updates for one camera frame, a value re-sent with its original time); "older": one
        microsecond before that (a stale update: ntcore drops it).  Returns False when there is no
        older timestamp to use (nothing is sent then)."""
        import ntcore
        inst = nt_inst()
        base, arr = TS_KIND[ts]
        k = (key, ts)
        t = 0
        if sel == "now":
            t = nt_now()
        elif sel in ("same", "older"):
            t = nt_stamp(key)
            if sel == "older":
                if t <= 1:
                    return False
                t -= 1
        if base in ("T2", "T3"):
            cls = struct_cls(STRUCT_NAME[base])
            if k not in self.pubs:
                self.pubs[k] = (inst.getStructArrayTopic(key, cls) if arr else inst.getStructTopic(key, cls)).publish()
            self.pubs[k].set(to_py(canon(pv)), t)
            return True
        if k not in self.pubs:
            self.pubs[k] = inst.getTopic(key).genericPublish(ts)
        V = ntcore.Value
        mk = {("bool", False): V.makeBoolean, ("int", False): V.makeInteger, ("float", False): V.makeDouble,
              ("str", False): V.makeString, ("bytes", False): V.makeRaw,
              ("bool", True): V.makeBooleanArray, ("int", True): V.makeIntegerArray,
              ("float", True): V.makeDoubleArray, ("str", True): V.makeStringArray}[(base, arr)]
        self.pubs[k].set(mk(to_py(canon(pv)), t))
        return True


# ---- the grid ---------------------------------------------------------------
# the ways a grid point is written: (form, ann); ann -> (src, q)
ANN_MODES = {0: (0, 0), 1: (1, 0), 2: (2, 0), 3: (1, 1), 4: (1, 2), 5: (2, 1)}
# quoting needs an annotation: the subscript form only varies in how the class statement is produced
GRID_COMBOS = [(0, 0), (0, 1), (0, 2)] + [(f, a) for a in range(6) for f in (1, 2, 3, 4)]


def grid_decl(d, h, form, flavor, ann):
    src, q = ANN_MODES[ann]
    return {"attr": "x", "default": d, "hint": h, "form": form, "flavor": flavor, "q": q}, src


def grid_observe(mt, idx, d, h, form, flavor, ann=0):
    """GRaise | GCreated | GBound <type string read back from NT>"""
    decl, src = grid_decl(d, h, form, flavor, ann)
    try:
        cls = make_class(mt, [decl], "Grid%d" % idx, 0, src)
    except Exception as e:
        return ["raise", type(e).__name__]
    # which topic does the documented table promise?  bind only when the default fits it
    ts = doc_topic(d, h)
    if ts is None or not fits(d, ts):
        return ["created"]
    cname = "g%d_%d" % (idx, form)
    obj = cls()
    try:
        mt.setup_tunables(obj, cname)
    except Exception as e:
        return ["setupraise", type(e).__name__]
    r = nt_read("/components/%s/x" % cname)
    if r is None:
        return ["bound", ""]
    return ["bound", r[0]]


def gobs_to_coq(g):
    if g[0] == "raise":
        return "GRaise"
    if g[0] == "created":
        return "GCreated"
    if g[0] == "bound":
        return "(GBound %s)" % cs(g[1])
    return '(GBound "setup raised")'


# ---- the documented table (oracle side, written from the property text) ------
def doc_array(b):
    return ARRAY_TS.get(b)


def doc_hint(h):
    if h[0] == "base":
        return SCALAR_TS.get(h[1])
    if h[0] == "bare" or not h[2]:
        return None
    o, args = h[1], h[2]
    if args[0] == "...":
        return None
    if o == "tuple":
        homog = all(a == args[0] for a in args)
        ellip = len(args) == 2 and args[1] == "..."
        if not (homog or ellip):
            return None
    return doc_array(args[0])


def doc_topic(d, h):
    """type string promised for default d and hint h, None = not supported."""
    # the default itself must be publishable unless it is an empty sequence
    if d[0] in ("list", "tuple"):
        if d[1] and doc_array(base_of_scalar(d[1][0])) is None:
            return None
    elif d[0] == "other":
        return None
    if h is not None:
        return doc_hint(h)
    if d[0] in ("list", "tuple"):
        return doc_array(base_of_scalar(d[1][0])) if d[1] else None
    return SCALAR_TS.get(base_of_scalar(d))


# ---------------------------------------------------------------------------
# histories
#   case = {"classes": [[decl..]..], "split": [n..], "insts": [class index..],
#           "ops": [["setup",i,prefix,cname] | ["pyw",i,attr,pv] | ["pyr",i,attr]
#                   | ["ntw",key,ts,pv] | ["ntr",key]
#                   | ["truth",i,n or b]   the owner's own state changes: len(obj) = n / bool(obj) = b],
#           "tkind": [None|"len"|"bool"|"list" per class]   (absent: ordinary classes)}
# ---------------------------------------------------------------------------
KINDS = [(b, False) for b in ["bool", "int", "float", "str", "bytes", "T2", "T3"]] + \
        [(b, True) for b in ["bool", "int", "float", "str", "T2", "T3"]]
STR_POOL = ["", "a", "ab", "x y", "a/b", "get_", "Z9", "q\"uote", "0"]


def gen_scalar(r, base):
    if base == "bool":
        return ["bool", r.random() < 0.5]
    if base == "int":
        return ["int", r.choice([0, 1, -1, 2, 7, 255, -(2 ** 40), 2 ** 53 + 1, r.randrange(-1000, 1000)])]
    if base == "float":
        return ["float", r.choice([0, 64, -64, 96, 1, -3, 2 ** 30, r.randrange(-6400, 6400)])]
    if base == "str":
        return ["str", r.choice(STR_POOL)]
    if base == "bytes":
        return ["bytes", [r.randrange(256) for _ in range(r.choice([0, 1, 2, 4]))]]
    n = 2 if base == "T2" else 3
    return ["struct", STRUCT_NAME[base], [r.choice([0, 64, -32, 640, r.randrange(-999, 999)]) for _ in range(n)]]


def gen_value(r, kind, allow_empty=True, pyform=False, as_default=False):
    base, arr = kind
    if not arr:
        return gen_scalar(r, base)
    # pyntcore's StructArrayEntry.get() hands back the entry's DEFAULT when the stored array is
    # empty (ntcore behaviour, see notes_c09.md): empty struct arrays are only used as defaults
    if base in ("T2", "T3") and not as_default:
        allow_empty = False
    n = r.choice([0, 1, 1, 2, 3] if allow_empty else [1, 1, 2, 3])
    return ["tuple" if (pyform and r.random() < 0.4) else "list", [gen_scalar(r, base) for _ in range(n)]]


def gen_hint(r, kind, need):
    base, arr = kind
    if not arr:
        if need or r.random() < 0.25:
            return ["base", base]
        return None
    if not need and r.random() < 0.45:
        return None
    return r.choice([["gen", "list", [base]], ["gen", "seq", [base]], ["gen", "tuple", [base, "..."]],
                     ["gen", "tuple", [base, base]], ["gen", "tuple", [base]], ["gen", "tuple", [base, base, base]]])


SMALL_INTS = [0, 0, 1, 1, -1, 2, 3, 7, 40, -5, 100, 255]


def gen_int_literal(r, kind):
    """an int-valued literal where the topic type (from the hint) is double / double[]"""
    if not kind[1]:
        return ["int", r.choice(SMALL_INTS)]
    return [r.choice(["list", "list", "tuple"]), [["int", r.choice(SMALL_INTS)] for _ in range(r.choice([1, 1, 2, 3]))]]


def literal_is_int(d):
    """a tunable of a double / double[] topic (by its hint) whose default literal is int-valued"""
    if d["kind"][0] != "float":
        return False
    v = d["default"]
    if d["kind"][1]:
        return bool(v[1]) and v[1][0][0] == "int"
    return v[0] == "int"


def gen_decl(r, attr, kind=None):
    kind = kind or r.choice(KINDS)
    default = gen_value(r, kind, pyform=True, as_default=True)
    if kind[1] and kind[0] in ("T2", "T3") and default[1] and r.random() < 0.5:
        default = [default[0], []]               # (an empty struct-array default reads back as itself)
    empty_seq = kind[1] and not default[1]
    literal_int = False
    if kind[0] == "float" and r.random() < 0.4:
        # the topic type comes from the HINT, the default is merely a convenient literal of another
        # numeric type:  kp: float = tunable(0),  gains = tunable[list[float]]([1, 2])
        default = gen_int_literal(r, kind)
        empty_seq, literal_int = False, True
    hint = gen_hint(r, kind, empty_seq or literal_int)
    return {"attr": attr, "kind": list(kind), "default": default, "hint": hint,
            "form": r.randrange(5), "flavor": r.randrange(2), "q": r.choice([0, 0, 0, 1, 2]),
            "subtable": gen_subtable(r),
            "wd": r.choice([True, True, False, None])}


# subtable strings: the documented key is plain concatenation  <owner table> + "/" + subtable + "/" + name,
# WHATEVER characters the subtable contains -- it is not a filesystem path: a leading slash does not make it
# absolute, a trailing / doubled slash is not collapsed, "." and ".." are not resolved
SUBTABLES_PLAIN = ["cfg", "s/t", "x", "cfg/inner"]
SUBTABLES_STRUCTURED = ["/pid", "limits/", "/abs/", "a//b", ".", "..", "cfg/../x", "./cfg", "/", "//", "s/t/", "/s/t",
                        "../cfg", "x/.", " ", "a b"]


def gen_subtable(r):
    k = r.random()
    if k < 0.45:
        return None
    if k < 0.52:
        return ""
    if k < 0.75:
        return r.choice(SUBTABLES_PLAIN)
    return r.choice(SUBTABLES_STRUCTURED)


def subtable_shape(s):
    if s is None:
        return "none"
    if s == "":
        return "empty"
    shape = []
    if s.startswith("/"):
        shape.append("leading slash")
    if s.endswith("/") and len(s) > 1:
        shape.append("trailing slash")
    if "//" in s:
        shape.append("doubled slash")
    if any(c in (".", "..") for c in s.split("/")):
        shape.append("dot component")
    if " " in s:
        shape.append("blank")
    if not shape:
        shape.append("nested" if "/" in s else "plain")
    return "+".join(shape)


PLAIN_POOL = [["int", 3], ["float", 96], ["str", "plain"], ["bool", True], ["int", 0]]


def gen_hier(r, ds, tag):
    """a class hierarchy that RESOLVES to the tunables `ds` and in which names are redefined:
    a chain of 1-3 classes (+ a mixin as last base of the most derived class); every tunable of
    `ds` is defined in one class of the MRO; below it (further down the MRO) the same name may be
    declared again -- another default, writeDefault flag, sometimes another subtable / type -- and
    is shadowed; some names are a tunable in a base and a plain attribute in a subclass (not a
    tunable of the class), or the other way round."""
    depth = r.choice([1, 2, 2, 2, 3])
    mixin = depth == 1 or r.random() < 0.3
    nmro = depth + (1 if mixin else 0)
    mro = [[] for _ in range(nmro)]                 # position 0 = the class itself
    for d in ds:
        p = r.randrange(nmro)
        if r.random() < 0.5:
            p = min(p, r.randrange(nmro))           # redefinitions need room below
        mro[p].append(d)
        for q in range(p + 1, nmro):
            if r.random() >= (0.6 if q == p + 1 else 0.35):
                continue
            if r.random() < 0.12:
                mro[q].append({"attr": d["attr"], "plain": r.choice(PLAIN_POOL)})
                continue
            kind = tuple(d["kind"]) if r.random() < 0.85 else r.choice(KINDS)
            v = gen_decl(r, d["attr"], kind)
            if r.random() < 0.75:
                v["subtable"] = d["subtable"]
            if canon(v["default"]) == canon(d["default"]) and r.random() < 0.8:
                v["wd"] = False if d["wd"] is not False else True
            if r.random() < 0.35:                   # the flag is what differs
                v["wd"] = False if d["wd"] is not False else r.choice([True, None])
            mro[q].append(v)
    # names the class does NOT resolve to a tunable: a base declares a tunable, a subclass
    # assigns a plain value under the same name
    for g in range(r.choice([0, 0, 1, 1, 2])):
        if nmro < 2:
            break
        attr = "ghost%d_%s" % (g, tag)
        p = r.randrange(nmro - 1)
        mro[p].append({"attr": attr, "plain": r.choice(PLAIN_POOL)})
        v = gen_decl(r, attr)
        mro[r.randrange(p + 1, nmro)].append(v)
    # an annotation is inherited by an un-annotated redefinition (typing.get_type_hints merges the
    # MRO of the defining class); with the same element type and shape it resolves to the same
    # topic type as the default alone, with another one it would not: there the base definition
    # carries its hint as a subscript (outside the modelled domain otherwise, see notes_c09.md)
    for q in range(nmro):
        for x in mro[q]:
            if is_plain(x) or x.get("hint") is None or x.get("form", 0) == 0:
                continue
            for p in range(q):
                if mixin and q == nmro - 1 and p != 0:
                    continue                        # only the most derived class has the mixin as a base
                for y in mro[p]:
                    if not is_plain(y) and y["attr"] == x["attr"] and y.get("hint") is None and y["kind"] != x["kind"]:
                        x["form"] = 0
    for body in mro:
        r.shuffle(body)
    h = {"levels": list(reversed(mro[:depth])), "mixin": mro[depth] if mixin else None}
    return h


ATTR_POOL = ["x", "y", "gain", "kP", "speed", "limits", "name", "x_", "xy", "flag"]
SHARED_ATTR_POOL = ["kp", "intake_kp", "shooter_kp", "drive_kp", "preset", "Zlimit", "breaker", "a_cur"]
NAME_POOL = ["a", "ab", "a_b", "b", "Mode A", "robot", "components", "x"]


SM_STATE_POOL = ["idle", "eject", "spin_up", "fire", "jam"]


def gen_sm(r, tag):
    """the states of a StateMachine component: 1-3 states, the first one `first=True`, timed ones with a
    float (sometimes int) duration, some with a docstring."""
    names = r.sample(SM_STATE_POOL, r.choice([1, 2, 2, 3]))
    states = []
    for j, nm in enumerate(names):
        dur = None
        if r.random() < (0.25 if j == 0 else 0.6):
            dur = r.choice([["float", 128], ["float", 32], ["float", r.randrange(1, 640)], ["int", 2]])
        states.append({"name": "%s_%s" % (nm, tag), "first": j == 0, "dur": dur,
                       "doc": r.choice([None, None, "does %s" % nm])})
    return {"states": states}


def gen_assigned(r, attr, kind):
    """a tunable assigned to a class attribute AFTER the class statement (`Cls.attr = tunable(d)`): no
    __set_name__ call, so no hint; the default must be non-empty for the type to be known."""
    d = gen_decl(r, attr, kind)
    d["hint"], d["form"], d["q"] = None, 0, 0
    d["default"] = gen_value(r, tuple(d["kind"]), allow_empty=False, pyform=True, as_default=True)
    while d["default"] in (["str", ""], ["bytes", []]):   # ('' and b'' are empty sequences too)
        d["default"] = gen_value(r, tuple(d["kind"]), allow_empty=False, pyform=True, as_default=True)
    return d


def gen_case(r, tag):
    """one history; `tag` makes every topic name of the case unique in the NT instance."""
    ncls = r.choice([1, 1, 2, 2, 3])
    classes, split, srcs, tkinds, hiers = [], [], [], [], []
    used = []
    # the environment (Model section 13): the clock, client timestamps, classes that change
    paused = r.random() < 0.4                       # the history runs under the paused (stepped) HAL clock
    stamping = r.random() < 0.5                     # clients stamp (some of) their updates themselves
    mutating = r.random() < 0.3                     # class attributes are assigned between setups
    with_sm = r.random() < 0.25                     # one class is a magicbot StateMachine
    for c in range(ncls):
        srcs.append(r.choice([0, 1, 2, 2]))
        tkinds.append(r.choice([None, None, None, None, "len", "len", "bool", "list"]))
        n = r.choice([1, 2, 3, 4, 5, 6] if ncls < 3 else [1, 2, 3])
        attrs = r.sample(ATTR_POOL, n)
        used.append(set(attrs))
        ds = [gen_decl(r, "%s_%s" % (a, tag)) for a in attrs]
        if r.random() < 0.3:
            ds.append(gen_decl(r, "_hidden_%s" % tag))
        classes.append(ds)
    # SHARED tunable objects: one object (a module-level preset) bound by two or more classes of the
    # history, by each under a name of its own (sometimes the same name), at most once per class
    if ncls >= 2 and r.random() < 0.6 and not (mutating or with_sm):
        for obj in range(r.choice([1, 1, 2])):
            proto = gen_decl(r, "?")
            annotated = proto["hint"] is not None and r.random() < 0.6
            same_name = r.random() < 0.2
            a0 = r.choice(SHARED_ATTR_POOL)
            for c in r.sample(range(ncls), r.choice([2, 2, ncls])):
                free = [a for a in SHARED_ATTR_POOL if a not in used[c]]
                a = a0 if (same_name and a0 not in used[c]) else r.choice(free)
                used[c].add(a)
                d = json.loads(json.dumps(proto))
                d["attr"], d["obj"] = "%s_%s" % (a, tag), obj
                if proto["hint"] is not None:
                    # the hint is part of the object (a subscript) or every class annotates its own name
                    d["form"] = r.randrange(1, 5) if annotated else 0
                    d["q"] = r.choice([0, 0, 0, 1, 2]) if annotated else 0
                classes[c].append(d)
    if any("obj" in d for ds in classes for d in ds):
        # (histories with shared tunable objects go through Model.prog_class; they keep the plain environment)
        paused = stamping = False
    sms = [None] * ncls
    smc = r.randrange(ncls) if with_sm else None
    for c in range(ncls):
        ds = classes[c]
        if c == smc:
            # class Cls(StateMachine): the library adds current_state, <state>_duration, state_names, state_descriptions
            sms[c] = gen_sm(r, tag)
            tkinds[c] = None
            srcs[c] = r.choice([1, 2])
            ds.extend(sm_decls(sms[c]))
            ds.sort(key=lambda d: d["attr"])
            hiers.append(None)
            split.append(0)
            continue
        ds.sort(key=lambda d: d["attr"])            # dir(cls) order
        if r.random() < 0.4:
            hiers.append(gen_hier(r, ds, tag))
            split.append(0)
        else:
            hiers.append(None)
            split.append(r.randrange(len(ds)) if r.random() < 0.3 else 0)
    ninst = r.choice([1, 2, 2, 3])
    insts = [r.randrange(ncls) for _ in range(ninst)]
    if smc is not None and r.random() < 0.8:
        insts[0] = smc
    if ninst >= 2 and r.random() < 0.6:
        insts[1] = insts[0]                         # two instances of one class
    # instances constructed one after another, each right before it is first used (a fresh component per
    # unit test; absent: all of them up front, the way MagicRobot does it)
    lazy = ninst >= 2 and r.random() < (0.7 if smc is not None else 0.4) and not any("obj" in d for ds in classes for d in ds)

    def gen_name():
        # names handed to setup_tunables are plain strings too (MODE_NAME of an autonomous mode, the cname of a
        # unit test): 25% carry slashes / dots -- they go into the key as they are
        nm = r.choice(NAME_POOL)
        if r.random() < 0.75:
            return "%s%s" % (nm, tag)
        return r.choice(["%s/in", "/%s", "%s/", "a//%s", "./%s", "%s/..", "..%s", "%s.", "%s/in/", "Two Steps/%s"]) % tag

    def gen_owner():
        k = r.random()
        if k < 0.4:
            return ("components", gen_name())
        if k < 0.65:
            return ("autonomous", gen_name())
        if k < 0.85:
            return (None, "robot")
        if k < 0.93:
            return (None, gen_name())
        return ("pfx%s" % tag, r.choice(NAME_POOL + ["a/b", "x/", "/x", ".."]))

    owner_cls = {}
    # the classes as they are NOW (class attributes are assigned while the history runs)
    cur = [{d["attr"]: d for d in classes[c]} for c in range(ncls)]
    claimed = {}                                    # documented key -> type string

    def claim(owner, c, decls=None):
        """a topic has one type: with slashes in names and subtables two (owner, subtable) pairs can spell the
        same key (name "n", subtable "in/x"  and  name "n/in", subtable "x") -- fine for one tunable type (the
        owners then share the topic, as documented), a type conflict inside ntcore otherwise: not generated"""
        ks = {}
        for d in (cur[c].values() if decls is None else decls):
            if not d["attr"].startswith("_"):
                ks[doc_key(owner[0], owner[1], d["subtable"], d["attr"])] = (ARRAY_TS if d["kind"][1] else SCALAR_TS)[d["kind"][0]]
        if len(ks) < sum(1 for d in (cur[c].values() if decls is None else decls) if not d["attr"].startswith("_")):
            return False                            # two tunables of the class at one key
        if any(claimed.get(k, t) != t for k, t in ks.items()):
            return False
        claimed.update(ks)
        return True

    def fresh_owner(i):
        # a topic has one type: an owner path is only ever used by instances of one class
        # (a type conflict between two classes is ntcore's business, not the model's)
        while True:
            o = gen_owner()
            if sms[insts[i]] is not None and tag not in "%s/%s" % o:
                continue                            # (current_state .. carry no tag: the owner path must)
            if owner_cls.get(o, insts[i]) == insts[i] and claim(o, insts[i]):
                owner_cls[o] = insts[i]
                return o

    owners = [fresh_owner(i) for i in range(ninst)]
    if ninst >= 2 and insts[0] == insts[1] and r.random() < 0.2:
        owners[1] = owners[0]                       # same name: the instances share (documented)
    ops = []
    bound = {}                                      # i -> (prefix, cname)
    known_keys = []                                 # (key, ts, kind)
    can_be_falsy = [i for i in range(ninst) if tkinds[insts[i]] is not None]
    ver = [dict() for _ in range(ncls)]             # attr -> how often the class attribute was assigned
    bver = {}                                       # i -> {attr: ver at its last setup}
    made = set() if lazy else set(range(ninst))
    nadded = [0]

    def need(i):
        """instance i is about to be used: construct it first"""
        if i not in made:
            made.add(i)
            ops.append(["new", i])
            if sms[insts[i]] is not None:
                for a in ("state_names", "state_descriptions"):
                    ver[insts[i]][a] = ver[insts[i]].get(a, 0) + 1

    if not lazy:
        for i in range(ninst):
            if sms[insts[i]] is not None:
                for a in ("state_names", "state_descriptions"):
                    ver[insts[i]][a] = ver[insts[i]].get(a, 0) + 1

    readers = {}                                    # key -> [(instance, attr)] bound to it
    holds = {}                                      # float topics: key -> the value it (probably) holds now

    def note(key, ts, pv):
        if ts in ("double", "double[]"):
            holds[key] = as_topic_value(ts, pv)

    def maybe_near(key, v):
        """20% of the writes to a float topic: a value very close to, but not the same as, what the topic holds"""
        if key in holds and r.random() < 0.2:
            return near_value(r, holds[key]) or v
        return v

    def do_setup(i, owner):
        need(i)
        ops.append(["setup", i, owner[0], owner[1]])
        bound[i] = owner
        bver[i] = {a: ver[insts[i]].get(a, 0) for a in cur[insts[i]]}
        for d in cur[insts[i]].values():
            if not d["attr"].startswith("_"):
                kk = doc_key(owner[0], owner[1], d["subtable"], d["attr"])
                readers.setdefault(kk, []).append((i, d["attr"]))
                if d["kind"][0] == "float" and (d["wd"] is not False or kk not in holds):
                    note(kk, (ARRAY_TS if d["kind"][1] else SCALAR_TS)["float"], d["default"])

    def pick_decl(i):
        """a tunable of instance i's class; mostly one the instance is bound to as the class has it now"""
        ds = list(cur[insts[i]].values()) or classes[insts[i]]
        livek = [d for d in ds if i in bver and bver[i].get(d["attr"]) == ver[insts[i]].get(d["attr"], 0)]
        return r.choice(livek if (livek and r.random() < 0.9) else ds)

    def gen_stamp():
        if not stamping or r.random() < 0.4:
            return []
        return [r.choice(["same", "same", "same", "now", "now", "older"])]

    # topics no tunable is bound to, written by clients only: here the TIMESTAMPS are compared too (`ntt`; under
    # the paused clock they are reproducible) -- that ties the model's account of ntcore (stale updates dropped,
    # duplicates keep their timestamp) to ntcore itself.  On topics the library writes the timestamps are not
    # compared: the property does not say how a tunable stamps its writes.
    free_keys = []
    if paused or stamping:
        for j in range(r.choice([1, 1, 2])):
            kind = r.choice(KINDS)
            free_keys.append(("/client%s/k%d" % (tag, j), (ARRAY_TS if kind[1] else SCALAR_TS)[kind[0]], kind))
    free_vals = {}

    def gen_free():
        key, ts, kind = r.choice(free_keys)
        k = r.random()
        if k < 0.55:
            if key in free_vals and r.random() < 0.25:
                v = free_vals[key]                  # the same value again: a duplicate
            else:
                v = gen_value(r, kind)
            free_vals[key] = v
            return ["ntw", key, ts, v] + gen_stamp()
        return ["ntt", key] if (paused and k < 0.85) else ["ntr", key]

    def gen_truth(i):
        # falsy is where an owner differs from an ordinary object: it is the common state
        # (every such owner is created falsy, and most setups / reads happen while it is)
        if tkinds[insts[i]] == "bool":
            return ["truth", i, r.random() < 0.3]
        return ["truth", i, r.choice([0, 0, 0, 1, 2, 5])]

    def keys_of(i, owner):
        out = []
        for d in cur[insts[i]].values():
            if d["attr"].startswith("_"):
                continue
            ts = (ARRAY_TS if d["kind"][1] else SCALAR_TS)[d["kind"][0]]
            out.append((doc_key(owner[0], owner[1], d["subtable"], d["attr"]), ts, tuple(d["kind"])))
        return out

    def ghost_keys_of(i, owner):
        """keys at which a definition the class does NOT resolve its name to would be published
        (shadowed under another subtable / shadowed by a plain attribute): nothing may appear there"""
        h = hiers[insts[i]]
        if h is None:
            return []
        real = set(k for k, _, _ in keys_of(i, owner))
        out = []
        for m in shadowed_members(h):
            if is_plain(m) or m["attr"].startswith("_"):
                continue
            k = doc_key(owner[0], owner[1], m["subtable"], m["attr"])
            if k not in real and k not in out:
                out.append(k)
        return out

    ghost_keys = []
    # before any setup: reads of unbound instances, pre-published topics
    for i in range(ninst):
        if r.random() < 0.2:
            d = r.choice(classes[insts[i]])
            need(i)
            ops.append(["pyr", i, d["attr"]])
        for key, ts, kind in keys_of(i, owners[i]):
            if r.random() < 0.35:
                ops.append(["ntw", key, ts, gen_value(r, kind)] + gen_stamp())
                known_keys.append((key, ts, kind))
                # the value that is there before setup may be a PERSISTENT one (saved by the dashboard, restored from
                # networktables.json), or carry other topic properties: writeDefault decides all the same
                x = r.random()
                if x < 0.4:
                    ops.append(["ntflag", key, "persistent"])
                elif x < 0.55:
                    ops.append(["ntflag", key, r.choice(["retained", "cached"])])
    pending = list(range(ninst))
    r.shuffle(pending)
    nops = r.randrange(6, 28)
    while nops > 0 or pending:
        nops -= 1
        if can_be_falsy and r.random() < 0.12:
            i = r.choice(can_be_falsy)
            need(i)
            ops.append(gen_truth(i))
            continue
        if paused and r.random() < 0.1:
            ops.append(["tick", r.choice([20000, 20000, 5000, 1, 1, 0])])
            continue
        if free_keys and r.random() < 0.12:
            ops.append(gen_free())
            continue
        if pending and (not bound or r.random() < 0.35):
            i = pending.pop()
            do_setup(i, owners[i])
            known_keys += keys_of(i, owners[i])
            ghost_keys += ghost_keys_of(i, owners[i])
            continue
        if not bound:
            continue
        if mutating and r.random() < 0.07:
            # `Cls.attr = tunable(..)` between two setups: replace a tunable of the class (same topic type: the
            # instances that are re-bound keep their topics), add one, or put a plain value in its place --
            # mostly followed by the setup of an instance of that class
            c = insts[r.choice(list(bound))]
            # (pyntcore: a struct-array entry hands back its DEFAULT while the stored array is empty, see
            # notes_c09.md -- a struct-array tunable whose default is empty keeps that default)
            pub = [d for d in cur[c].values() if not d["attr"].startswith("_") and d.get("sm") != "names"
                   and not (d["kind"][1] and d["kind"][0] in ("T2", "T3") and not d["default"][1])]
            how = r.random()
            if how < 0.65 and pub:
                old = r.choice(pub)
                m = gen_assigned(r, old["attr"], tuple(old["kind"]))
                if r.random() < 0.7:
                    m["subtable"] = old["subtable"]
            elif how < 0.9 or not pub:
                nadded[0] += 1
                m = gen_assigned(r, "added%d_%s" % (nadded[0], tag), None)
            else:
                m = {"attr": r.choice(pub)["attr"], "plain": r.choice(PLAIN_POOL)}
            if not is_plain(m) and not all(claim(o, c, [m]) for o, oc in list(owner_cls.items()) if oc == c):
                continue                            # (would put two types on one topic)
            ops.append(["clsset", c, m])
            ver[c][m["attr"]] = ver[c].get(m["attr"], 0) + 1
            if is_plain(m):
                cur[c].pop(m["attr"], None)
            else:
                cur[c][m["attr"]] = m
            if r.random() < 0.8:
                cands = [i for i in range(ninst) if insts[i] == c]
                i = r.choice(cands)
                if i in pending:
                    pending.remove(i)
                elif r.random() < 0.6:
                    owners[i] = fresh_owner(i)      # (else: bound again under the name it has)
                do_setup(i, owners[i])
                known_keys += keys_of(i, owners[i])
                ghost_keys += ghost_keys_of(i, owners[i])
            continue
        if ghost_keys and r.random() < 0.05:
            ops.append(["ntr", r.choice(ghost_keys)])
            continue
        k = r.random()
        i = r.choice(list(bound) if r.random() < 0.95 else list(range(ninst)))
        need(i)
        d = pick_decl(i)
        if k < 0.33:
            if d["kind"][0] == "float" and r.random() < 0.12:
                ops.append(["pyw", i, d["attr"], gen_int_literal(r, tuple(d["kind"]))])   # an int on a double topic
            elif literal_is_int(d) and r.random() < 0.5:
                # default literal of another numeric type than the topic: a value ONLY the topic's type can hold
                frac = ["float", r.choice([48, 1, -3, 33, r.randrange(-640, 640) * 2 + 1])]
                ops.append(["pyw", i, d["attr"], frac if not d["kind"][1] else ["list", [frac] + [gen_scalar(r, "float") for _ in range(r.choice([0, 1]))]]])
            else:
                ops.append(["pyw", i, d["attr"], gen_value(r, tuple(d["kind"]), pyform=True)])
            if d["kind"][0] == "float" and i in bound:
                kk = doc_key(bound[i][0], bound[i][1], d["subtable"], d["attr"])
                ops[-1][3] = maybe_near(kk, ops[-1][3])
                note(kk, (ARRAY_TS if d["kind"][1] else SCALAR_TS)["float"], ops[-1][3])
                if r.random() < 0.3:
                    ops.append(["pyr", i, d["attr"]])
        elif k < 0.63:
            ops.append(["pyr", i, d["attr"]])
        elif k < 0.78 and known_keys:
            key, ts, kind = r.choice(known_keys)
            ops.append(["ntw", key, ts, maybe_near(key, gen_value(r, kind))] + gen_stamp())
            if not (len(ops[-1]) > 4 and ops[-1][4] == "older"):
                note(key, ts, ops[-1][3])
            if r.random() < 0.08:
                ops.append(["ntflag", key, r.choice(["persistent", "persistent", "retained", "cached"])])
            if key in readers and r.random() < 0.35:
                ops.append(["pyr"] + list(r.choice(readers[key])))   # the dashboard changes a value, the component reads it next
        elif k < 0.95 and known_keys:
            key, ts, kind = r.choice(known_keys)
            if r.random() < 0.1:                    # a near miss: nothing may live there
                key = r.choice([key + "/" + (d["subtable"] or "cfg"), key.rsplit("/", 1)[0], key + "_"])
            ops.append(["ntr", key])
        elif i in bound:
            owners[i] = fresh_owner(i)              # re-bind under another name
            do_setup(i, owners[i])
            known_keys += keys_of(i, owners[i])
            ghost_keys += ghost_keys_of(i, owners[i])
    # closing reads: every attribute of every instance, every known key
    for i in range(ninst):
        need(i)
        if i in can_be_falsy and r.random() < 0.5:
            ops.append(gen_truth(i))
        for d in list(cur[insts[i]].values()):
            if r.random() < 0.5:
                ops.append(["pyr", i, d["attr"]])
    for key, ts, kind in known_keys[:8]:
        if r.random() < 0.5:
            ops.append(["ntr", key])
    for key, ts, kind in free_keys:
        ops.append(["ntt", key] if paused else ["ntr", key])
    for key in ghost_keys[:6]:
        if r.random() < 0.5:
            ops.append(["ntr", key])
    case = {"tag": tag, "classes": classes, "split": split, "src": srcs, "tkind": tkinds, "insts": insts, "ops": ops}
    if any(h is not None for h in hiers):
        case["hier"] = hiers
    if paused:
        case["clock"] = "paused"
    if lazy:
        case["lazy"] = True
    if smc is not None:
        case["sm"] = sms
    return case


def case_src(case, k):
    """how class k of the history is written (absent in old corpus files: type())."""
    return (case.get("src") or [0] * len(case["classes"]))[k]


def case_tkind(case, k):
    """how bool() of an instance of class k is computed (absent in old corpus files: ordinary)."""
    return (case.get("tkind") or [None] * len(case["classes"]))[k]


def case_hier(case, k):
    """the class hierarchy of class k when it is written with redefinitions (else None: the class
    is `classes[k]`, the first `split[k]` of them on a base class)."""
    return (case.get("hier") or [None] * len(case["classes"]))[k]


def case_sm(case, k):
    """the states of class k when it is a magicbot StateMachine (else None)."""
    return (case.get("sm") or [None] * len(case["classes"]))[k]


def case_all_decls(case, k):
    """every tunable declaration WRITTEN for class k."""
    h = case_hier(case, k)
    return hier_tunables(h) if h is not None else [d for d in case["classes"][k] if "sm" not in d]


def case_eff_src(case, k):
    es = eff_src(case_all_decls(case, k), case_src(case, k))
    return max(1, es) if case_sm(case, k) is not None else es


# ---- the ENVIRONMENT of a history (Model section 13) --------------------------------
#   case["clock"] = "paused": the history runs under the paused HAL clock; ["tick", us] steps it
#       (absent: the clock runs; every operation gets a later timestamp than the one before)
#   ["ntw", key, ts, pv, sel]  a client update that carries a timestamp of the client's own choosing
#       (sel = "same" | "now" | "older", see NtWriter.write)
#   ["ntt", key]               an independent subscriber looks at the topic's timestamp
#   ["clsset", k, member]      `Cls_k.attr = tunable(..)` / `= <plain value>` executed between two setups
#   case["lazy"] = True + ["new", i]: instance i is constructed by that op (absent: all instances are
#       constructed up front, in order); constructing an instance of a StateMachine class (case["sm"])
#       assigns cls.state_names / cls.state_descriptions anew
def is_env(case):
    return bool(case.get("robot") or case.get("clock") or case.get("lazy") or any(x is not None for x in (case.get("sm") or []))
                or any(op[0] in ("tick", "ntt", "clsset", "new") or (op[0] == "ntw" and len(op) > 4) for op in case["ops"]))


def annotate(case):
    """Walks the history.  Returns (info, valid): info[n] for op n =
         setup  -> {"decls": the tunables the class has at that moment}
         pyr/pyw -> {"state": "live" | "unbound" | "stale" | "nodecl", "decl": the tunable as it was when the instance was set up}
       "live": the instance is set up and the class still binds the name to the object it was set up with;
       "unbound": the instance is not set up (or the name is private): the property leaves it open, the model
       says AttributeError/KeyError; "stale": the class attribute was assigned after the instance was set up
       (the instance holds no entry for the new object) -- the property speaks of tunables "after the owner is
       set up": masked on both sides.
       valid = every instance is constructed before it is used."""
    ncls = len(case["classes"])
    cur = [{d["attr"]: d for d in case["classes"][k]} for k in range(ncls)]
    ver = [dict() for _ in range(ncls)]
    constructed = set()
    bound = {}
    valid = True

    def construct(i):
        constructed.add(i)
        k = case["insts"][i]
        if case_sm(case, k) is not None:
            for a in ("state_names", "state_descriptions"):
                ver[k][a] = ver[k].get(a, 0) + 1

    if not case.get("lazy"):
        for i in range(len(case["insts"])):
            construct(i)
    info = []
    for op in case["ops"]:
        inf = {}
        if op[0] == "new":
            if op[1] in constructed:
                valid = False
            construct(op[1])
        elif op[0] == "clsset":
            k, m = op[1], op[2]
            ver[k][m["attr"]] = ver[k].get(m["attr"], 0) + 1
            if is_plain(m):
                cur[k].pop(m["attr"], None)
            else:
                cur[k][m["attr"]] = m
        elif op[0] in ("setup", "pyr", "pyw", "truth"):
            i = op[1]
            k = case["insts"][i]
            if i not in constructed:
                valid = False
            if op[0] == "setup":
                inf["decls"] = sorted(cur[k].values(), key=lambda d: d["attr"])
                bound[i] = {a: (d, ver[k].get(a, 0)) for a, d in cur[k].items() if not a.startswith("_")}
            elif op[0] in ("pyr", "pyw"):
                a = op[2]
                if i not in bound or a.startswith("_"):
                    inf["state"] = "unbound"
                    if i in bound and ver[k].get(a, 0) != 0 and a not in bound[i]:
                        inf["state"] = "stale"       # (a private name assigned later: nothing to say either)
                else:
                    e = bound[i].get(a)
                    if e is not None and a in cur[k] and ver[k].get(a, 0) == e[1]:
                        inf["state"], inf["decl"] = "live", e[0]
                    elif e is None and ver[k].get(a, 0) == 0:
                        inf["state"] = "nodecl"      # never a tunable of the class: AttributeError
                    else:
                        inf["state"] = "stale"
        info.append(inf)
    return info, valid


def refresh_case(case):
    """classes[k] of a class written as a hierarchy = the tunables it resolves to (oracle side)."""
    for k in range(len(case["classes"])):
        h = case_hier(case, k)
        if h is not None:
            case["classes"][k] = effective_decls(h)
            case["split"][k] = 0
    return case


def inst_tkind(case, i):
    return case_tkind(case, case["insts"][i])


def truth_states(case):
    """per op: the truthiness state (kind, value) of every instance BEFORE the op."""
    cur = [truth_initial(inst_tkind(case, i)) for i in range(len(case["insts"]))]
    out = []
    for op in case["ops"]:
        out.append(list(cur))
        if op[0] == "truth" and inst_tkind(case, op[1]) is not None:
            cur[op[1]] = op[2]
    return out


def exec_case(mt, case):
    """run the history against the implementation; returns one observation per op."""
    paused = case.get("clock") == "paused"
    if paused:
        import hal.simulation
        init_clock()
        hal.simulation.pauseTiming()
    try:
        return exec_case_clocked(mt, case, paused)
    finally:
        if paused:
            hal.simulation.resumeTiming()


def exec_case_clocked(mt, case, paused):
    keep = []                                       # keeps every entry / publisher alive
    pool = {}                                       # the shared tunable objects of this history
    info, valid = annotate(case)
    if not valid:
        return [["bad", "harness: an instance is used before it is constructed"]] * len(case["ops"])
    try:
        clss = [make_class(mt, ds, "Cls%d" % k, case["split"][k], case_src(case, k), case_tkind(case, k), case_hier(case, k), pool,
                           case_sm(case, k))
                for k, ds in enumerate(case["classes"])]
    except Exception as e:
        return [["classraise", type(e).__name__, str(e)[:120]]] * len(case["ops"])
    base = nt_now() if paused else None             # timestamps are recorded relative to the start
    try:
        objs = [None if case.get("lazy") else clss[c]() for c in case["insts"]]
    except Exception as e:
        return [["bad", "constructing an instance raised %s: %s" % (type(e).__name__, str(e)[:80])]] * len(case["ops"])
    runner = OpRunner(mt, case, paused, clss, objs, info, base)
    obs = [runner.run(n, op) for n, op in enumerate(case["ops"])]
    keep.append(runner)
    return obs


class OpRunner:
    """executes the operations of a history one by one against the implementation (from wherever it is
    called: the harness's own loop, or a component's execute() inside a MagicRobot pass)."""

    def __init__(self, mt, case, paused, clss, objs, info, base):
        self.mt, self.case, self.paused, self.clss, self.objs, self.info, self.base = mt, case, paused, clss, objs, info, base
        self.writer = NtWriter()
        self.keep = []
        self.count = 0

    def run(self, n, op):
        try:
            o = self._run(n, op)
        except Exception as e:                      # anything unexpected is an observation too
            o = ["bad", "%s: %s" % (type(e).__name__, str(e)[:80])]
        self.count += 1
        return o

    def _run(self, n, op):
        mt, case, objs, clss, info, paused = self.mt, self.case, self.objs, self.clss, self.info, self.paused
        if op[0] == "new":
            objs[op[1]] = clss[case["insts"][op[1]]]()
            return ["done"]
        if op[0] == "tick":
            if paused:
                import hal.simulation
                hal.simulation.stepTiming(int(op[1]))
            return ["done"]
        if op[0] == "ntflag":
            # a client sets a PROPERTY of the topic (the flags a dashboard offers per entry): "persistent" (ntcore keeps the
            # value when the publisher goes / saves it), "retained", "cached": none of them is an input of the property
            t = nt_inst().getTopic(op[1])
            {"persistent": t.setPersistent, "retained": t.setRetained, "cached": t.setCached}[op[2]](True)
            return ["done"]
        if op[0] == "ntt":
            t = nt_stamp(op[1])
            return ["stamp", 0 if t == 0 else t - self.base + CLOCK0] if paused else ["any"]
        if op[0] == "clsset":
            m = op[2]
            if is_plain(m):
                setattr(clss[op[1]], m["attr"], to_py(m["plain"]))
            else:                                    # (no __set_name__ call: the type comes from the default)
                setattr(clss[op[1]], m["attr"], mt.tunable(to_py(m["default"]), **tunable_kwargs(m)))
            return ["done"]
        if op[0] == "truth":
            # no library call: the owner's own state changes (an ordinary class has none)
            tk = inst_tkind(case, op[1])
            if tk is None:
                return ["done"]
            if set_truth(objs[op[1]], tk, op[2]) == (not truth_is_falsy(tk, op[2])):
                return ["done"]
            return ["bad", "harness: bool(owner) did not follow its state"]
        if op[0] in ("pyw", "pyr") and info[n]["state"] in ("unbound", "stale"):
            # not a bound tunable (instance not set up, private name, or the class attribute was
            # assigned after the instance was set up): the property leaves the behaviour open -> masked
            try:
                if op[0] == "pyw":
                    setattr(objs[op[1]], op[2], to_py(op[3]))
                else:
                    getattr(objs[op[1]], op[2])
            except Exception:
                pass
            return ["any"]
        if op[0] == "setup":
            self.keep.append(dict(objs[op[1]].__dict__))          # old entries stay published
            try:
                if op[2] == "components" and self.count % 2:
                    mt.setup_tunables(objs[op[1]], op[3])    # default prefix argument
                else:
                    mt.setup_tunables(objs[op[1]], op[3], op[2])
                return ["setup", True]
            except Exception as e:
                return ["setup", False, type(e).__name__]
        if op[0] == "pyw":
            try:
                setattr(objs[op[1]], op[2], to_py(op[3]))
                return ["wrote"]
            except (AttributeError, KeyError) as e:
                return ["err", type(e).__name__]
        if op[0] == "pyr":
            try:
                v = getattr(objs[op[1]], op[2])
            except (AttributeError, KeyError) as e:
                return ["err", type(e).__name__]
            d = info[n].get("decl")
            if isinstance(v, mt.tunable):
                return ["self"]                              # the descriptor object came back
            try:
                return ["val", from_py(v, d["kind"][0], d["kind"][1])]
            except (ValueError, TypeError):
                return ["bad", repr(v)]
        if op[0] == "ntw":
            sent = self.writer.write(op[1], op[2], op[3], op[4] if len(op) > 4 else None)
            return ["wrote"] if sent else ["skipped"]
        if op[0] == "ntr":
            return ["nt", nt_read(op[1])]
        return ["bad", "harness: unknown op %r" % (op[0],)]


CLOCK0 = 1000                                       # the model's clock at the start of a history


def obs_to_coq(o):
    if o[0] == "setup":
        return "(OSetup %s)" % coq_bool(o[1])
    if o[0] == "wrote":
        return "OWrote"
    if o[0] == "val":
        return "(OVal %s)" % to_coq(o[1])
    if o[0] == "err":
        return "OErr"
    if o[0] == "any":
        return "OAny"
    if o[0] == "self":
        return "OSelf"
    if o[0] == "done":
        return "ODone"
    if o[0] == "stamp":
        return "(OStamp %s)" % coq_Z(o[1])
    if o[0] == "nt":
        if o[1] is None:
            return "(ONt None)"
        ts = o[1][0] if all(32 <= ord(c) < 127 for c in o[1][0]) else "?"
        return "(ONt (Some (%s, %s)))" % (cs(ts), to_coq(o[1][1]))
    return "OBad"


def decl_to_coq(d, src=0):
    """the declaration as WRITTEN: the model resolves the hint from the spelling
    (Model.set_name_hint: __orig_class__ / get_type_hints / ClassVar, tunable unwrapping)."""
    if d.get("hint") is None:
        hint = "(set_name_hint (mksrc None None))"
    else:
        hint = "(set_name_hint (spell %s %s))" % (spelling_to_coq(spelling(d, src)), hint_to_coq(d["hint"]))
    return "(mkdecl %s %s %s %s %s)" % (
        cs(d["attr"]), to_coq(d["default"]), hint,
        coq_opt(d.get("subtable"), coq_string), coq_bool(d.get("wd") is not False))


def case_has_shared(case):
    return any("obj" in m for k in range(len(case["classes"])) for m in case_all_decls(case, k))


def program_to_coq(case):
    """the classes of a history with SHARED tunable objects as a Model.program: the objects (shared
    ones once), the class statements in execution order with what each binds under which name (and
    annotation), and per class the positions of the statements of its MRO.  The model computes the
    hint behind every object's _topic_type (last __set_name__ call), resolves dir/getattr and takes
    the NAME from the class, the rest from the object (Model.prog_class)."""
    objs, shared, stmts, mros = [], {}, [], []

    def obind(m, es):
        if is_plain(m):
            return "(OPlain %s)" % cs(m["attr"])
        if m.get("hint") is None:
            orig, ann = "None", "None"
        else:
            sp = "(spell %s %s)" % (spelling_to_coq(spelling(m, es)), hint_to_coq(m["hint"]))
            orig, ann = "(s_orig %s)" % sp, "(s_ann %s)" % sp
        if "obj" in m and m["obj"] in shared:
            oid = shared[m["obj"]]
        else:
            oid = len(objs)
            objs.append("(mktobj %s %s %s %s)" % (to_coq(m["default"]), orig, coq_opt(m.get("subtable"), coq_string),
                                                 coq_bool(m.get("wd") is not False)))
            if "obj" in m:
                shared[m["obj"]] = oid
        return "(OTun %s %s %s)" % (cs(m["attr"]), coq_nat(oid), ann)

    def stmt(body, es):
        stmts.append(coq_list([obind(m, es) for m in body]))
        return len(stmts) - 1

    for k, ds in enumerate(case["classes"]):
        es = case_eff_src(case, k)
        h = case_hier(case, k)
        if h is not None:                           # executed: mixin, then the chain base-most first
            mix = stmt(h["mixin"], es) if h.get("mixin") is not None else None
            lv = [stmt(body, es) for body in h["levels"]]
            mros.append(list(reversed(lv)) + ([mix] if mix is not None else []))
        elif case["split"][k]:
            base = stmt(ds[:case["split"][k]], es)
            mros.append([stmt(ds[case["split"][k]:], es), base])
        else:
            mros.append([stmt(ds, es)])
    ixs = [coq_list([coq_nat(i) for i in m]) for m in mros]
    return "(mkprog %s %s)" % (coq_list(objs), coq_list(stmts)), ixs


def member_to_coq(m, es):
    return "(MPlain %s)" % cs(m["attr"]) if is_plain(m) else "(MTun %s)" % decl_to_coq(m, es)


def class_mro_to_coq(case, k):
    """class k as the model takes it: [vars(c) for c in cls.__mro__] as the class statements leave it."""
    es = case_eff_src(case, k)
    ds = case["classes"][k]
    h = case_hier(case, k)
    sm = case_sm(case, k)
    if h is not None:
        bodies = hier_mro(h)
    elif sm is not None:
        # the class body + the <state>_duration tunables the states' __set_name__ puts on the class;
        # StateMachine itself declares current_state; state_names / state_descriptions arrive with the
        # first instance construction (GClassAssign)
        bodies = [[d for d in ds if d.get("sm") in (None, "dur")], [d for d in ds if d.get("sm") == "base"]]
    elif case["split"][k]:
        bodies = [ds[case["split"][k]:], ds[:case["split"][k]]]
    else:
        bodies = [ds]
    return coq_list([coq_list([member_to_coq(m, es) for m in body]) for body in bodies])


SEL_COQ = {"same": "SSame", "now": "SNow", "older": "SOlder"}


def env_case_to_coq(case, obs):
    """a history in the environment of Model section 13: (classes, clock at the start, (gops, observations)).
    Operations on a tunable whose class attribute was assigned after the instance was set up ("stale", see
    annotate) are left out on both sides."""
    if case_has_shared(case):
        raise ValueError("shared tunable objects in a history with a changing environment: not generated")
    info, valid = annotate(case)
    ops, out = [], []

    def construct(i):
        k = case["insts"][i]
        if case_sm(case, k) is not None:
            for d in case["classes"][k]:
                if d.get("sm") == "names":
                    ops.append("GClassAssign %s %s" % (coq_nat(k), member_to_coq(d, 0)))
                    out.append("ODone")

    for i in range(len(case["insts"])):
        tk = inst_tkind(case, i)
        if tk is not None:
            ops.append("GX (XSetTruth %s %s)" % (coq_nat(i), truth_to_coq(tk, truth_initial(tk))))
            out.append("ODone")
    if not case.get("lazy"):
        for i in range(len(case["insts"])):
            construct(i)
    for n, (op, o) in enumerate(zip(case["ops"], obs)):
        if op[0] == "setup":
            ops.append("GSetupOf %s %s %s %s" % (coq_nat(op[1]), coq_nat(case["insts"][op[1]]), coq_opt(op[2], coq_string), cs(op[3])))
        elif op[0] in ("pyw", "pyr"):
            if info[n].get("state") == "stale" or not valid:
                continue
            if op[0] == "pyw":
                ops.append("GX (XOp (PyWrite %s %s %s))" % (coq_nat(op[1]), cs(op[2]), to_coq(op[3])))
            else:
                ops.append("GX (XOp (PyRead %s %s))" % (coq_nat(op[1]), cs(op[2])))
        elif op[0] == "ntw":
            if len(op) > 4:
                if o == ["skipped"]:
                    continue                         # no older timestamp to use: nothing was sent
                ops.append("GNtWriteAt %s %s %s %s" % (cs(op[1]), NTYPE_COQ[op[2]], to_coq(op[3]), SEL_COQ[op[4]]))
            else:
                ops.append("GX (XOp (NtWrite %s %s %s))" % (cs(op[1]), NTYPE_COQ[op[2]], to_coq(op[3])))
        elif op[0] == "ntr":
            ops.append("GX (XOp (NtRead %s))" % cs(op[1]))
        elif op[0] == "truth":
            ops.append("GX (XSetTruth %s %s)" % (coq_nat(op[1]), truth_to_coq(inst_tkind(case, op[1]), op[2])))
        elif op[0] == "ntflag":
            if o == ["done"]:
                continue                             # a topic property: not an input of the model
            ops.append("GTick 0")
        elif op[0] == "tick":
            ops.append("GTick %s" % coq_Z(op[1]))
        elif op[0] == "ntt":
            ops.append("GNtStamp %s" % cs(op[1]))
        elif op[0] == "clsset":
            # (setattr does not call __set_name__: no hint reaches the tunable)
            m = op[2] if is_plain(op[2]) else dict(op[2], hint=None)
            ops.append("GClassAssign %s %s" % (coq_nat(op[1]), member_to_coq(m, 0)))
        elif op[0] == "new":
            if o == ["done"]:
                construct(op[1])
            else:
                ops.append("GTick 0")
                out.append(obs_to_coq(o))
            continue
        out.append(obs_to_coq(o))
    classes = coq_list([class_mro_to_coq(case, k) for k in range(len(case["classes"]))])
    return "(%s, %s, (%s, %s))" % (classes, coq_Z(CLOCK0), coq_list(ops), coq_list(out))


def case_to_coq(case, obs):
    if case_has_shared(case):
        prog, ixs = program_to_coq(case)
        lets = "let pr := %s in " % prog + "".join("let c%d := prog_class_list pr %s in " % (k, x) for k, x in enumerate(ixs))
        guard = "prog_in_model pr %s" % coq_list(ixs)
    else:
        lets, guard = None, "true"

    def class_to_coq(k, ds):
        es = case_eff_src(case, k)
        h = case_hier(case, k)
        if h is None:
            return coq_list([decl_to_coq(d, es) for d in ds])
        # the hierarchy as written: the MODEL resolves dir(cls) / getattr(cls, n) (Model.class_members)
        return "(class_members %s)" % coq_list([
            coq_list(["(MPlain %s)" % cs(m["attr"]) if is_plain(m) else "(MTun %s)" % decl_to_coq(m, es) for m in body])
            for body in hier_mro(h)])

    if lets is None:
        lets = "".join("let c%d := %s in " % (k, class_to_coq(k, ds)) for k, ds in enumerate(case["classes"]))
    ops = []
    pre = []
    # creation of the owner objects: an instance of a class with __len__ / __bool__ starts falsy
    for i in range(len(case["insts"])):
        tk = inst_tkind(case, i)
        if tk is not None:
            ops.append("XSetTruth %s %s" % (coq_nat(i), truth_to_coq(tk, truth_initial(tk))))
            pre.append("ODone")
    for op in case["ops"]:
        if op[0] == "ntflag":
            continue                                 # a topic property: not an input of the model
        if op[0] == "setup":
            ops.append("XOp (Setup %s c%d %s %s)" % (coq_nat(op[1]), case["insts"][op[1]],
                                                    coq_opt(op[2], coq_string), cs(op[3])))
        elif op[0] == "pyw":
            ops.append("XOp (PyWrite %s %s %s)" % (coq_nat(op[1]), cs(op[2]), to_coq(op[3])))
        elif op[0] == "pyr":
            ops.append("XOp (PyRead %s %s)" % (coq_nat(op[1]), cs(op[2])))
        elif op[0] == "ntw":
            ops.append("XOp (NtWrite %s %s %s)" % (cs(op[1]), NTYPE_COQ[op[2]], to_coq(op[3])))
        elif op[0] == "truth":
            tk = inst_tkind(case, op[1])
            ops.append("XSetTruth %s %s" % (coq_nat(op[1]), truth_to_coq(tk, op[2])))
        else:
            ops.append("XOp (NtRead %s)" % cs(op[1]))
    return "(%s(%s, (%s, %s)))" % (lets, guard, coq_list(ops), coq_list(pre + [obs_to_coq(o) for op, o in zip(case["ops"], obs) if op[0] != "ntflag"]))


CASES_HEADER = ("From Coq Require Import String List Bool ZArith NArith.\n"
                "From RV Require Import Tunable.Model Tunable.Compare.\n"
                "Import ListNotations.\nOpen Scope string_scope.\n")


def cases_file(pairs):
    """two lists per file: the histories of sections 6-12 (Model.xrun) and the histories in the environment of
    section 13 (Model.grun); cases_index(pairs) maps the positions of the two `bad` lists back."""
    global _STRTAB
    _STRTAB = StrTab()
    try:
        body = ";\n ".join(case_to_coq(c, o) for c, o in pairs if not is_env(c))
        ebody = ";\n ".join(env_case_to_coq(c, o) for c, o in pairs if is_env(c))
        defs = _STRTAB.defs()
    finally:
        _STRTAB = None
    return (CASES_HEADER + defs + "Definition cases : list (bool * (list xop * list obs)) :=\n [%s].\n"
            "Definition ecases : list (list (list classbody) * Z * (list gop * list obs)) :=\n [%s].\n"
            "Eval vm_compute in (bad_from ghist_ok 0 cases).\n"
            "Eval vm_compute in (bad_from envhist_ok 0 ecases).\n" % (body, ebody))


def cases_index(pairs):
    """(positions in `pairs` of the plain histories, of the environment histories), in file order."""
    return ([i for i, (c, _) in enumerate(pairs) if not is_env(c)], [i for i, (c, _) in enumerate(pairs) if is_env(c)])


# ---------------------------------------------------------------------------
# the property, stated over implementation observations (oracle for the search;
# NOT the deciding method)
# ---------------------------------------------------------------------------
def oracle_case(case, obs):
    """first clause of C09 that the observations of this history violate, or None."""
    topics = {}                                     # documented key -> [type string, pv]
    bind = {}                                       # instance -> {attr: (key, ts)}
    truths = truth_states(case)
    info, valid = annotate(case)
    if not valid:
        return None                                 # not a history (an instance used before it exists)

    def owner_state(n, i):
        return describe_truth(inst_tkind(case, i), truths[n][i])

    for n, (op, o) in enumerate(zip(case["ops"], obs)):
        def fail(fp, what):
            return {"kind": "input", "fingerprint": fp, "op_index": n, "op": op, "observed": o,
                    "what": "op %d %s: %s" % (n, json.dumps(op), what)}
        if o[0] == "classraise":
            # the class statement itself raised: every tunable of the history's classes has a
            # documented topic type (default or hint, however the hint is written)?
            unsupported = [d["attr"] for ds in case["classes"] for d in ds if doc_topic(d["default"], d["hint"]) is None]
            if not unsupported:
                v = fail("c09-supported-type-rejected", "")
                v["what"] = ("defining the class raised %s (%s); every tunable in it has a documented topic type "
                             "(from its default or its type hint): %s" % (o[1], o[2] if len(o) > 2 else "", describe_classes(case)))
                return v
            return fail("c09-unusable", "class with unsupported tunables %s: %r" % (unsupported, o))
        if o[0] == "bad":
            return fail("c09-unusable", "implementation produced %r" % (o,))
        if op[0] in ("truth", "tick", "ntt", "new", "clsset", "ntflag"):
            continue                                 # the owner's own state, the clock, a timestamp, the class: no clause of C09 involved
        if op[0] in ("pyw", "pyr") and info[n]["state"] != "live":
            continue                                 # not bound / the class attribute was assigned after the setup: the property does not say
        if op[0] == "setup":
            if o != ["setup", True]:
                return fail("c09-setup-raises", "setup_tunables raised %s for a class of supported tunables (%s)"
                            % (o[2:], owner_state(n, op[1])))
            b = {}
            for d in info[n]["decls"]:               # the tunables the class has at this moment
                if d["attr"].startswith("_"):
                    continue
                key = doc_key(op[2], op[3], d["subtable"], d["attr"])
                ts = doc_topic(d["default"], d["hint"])
                if d["wd"] is not False or key not in topics:
                    topics[key] = [ts, as_topic_value(ts, d["default"])]
                b[d["attr"]] = (key, ts)
            bind[op[1]] = b
        elif op[0] == "pyw":
            e = bind.get(op[1], {}).get(op[2])
            if e is None:
                pass                                 # not bound: the property does not say
            else:
                if o[0] != "wrote":
                    return fail("c09-write-raises", "attribute assignment raised %r (%s)" % (o, owner_state(n, op[1])))
                topics[e[0]] = [e[1], as_topic_value(e[1], op[3])]
        elif op[0] == "pyr":
            e = bind.get(op[1], {}).get(op[2])
            if e is None:
                pass
            else:
                want = topics[e[0]][1]
                if o != ["val", want]:
                    got = "the tunable object itself (not a value)" if o == ["self"] else show(o)
                    return fail("c09-read-not-latest",
                                "attribute read gives %s, the latest value written to its topic %s (from either side, "
                                "or the default at setup) is %s; %s" % (got, e[0], show(want), owner_state(n, op[1])))
        elif op[0] == "ntw":
            # an update the client stamps OLDER than the value the topic holds is not the latest value
            # (ntcore drops it); stamped "now" or "the same" it is
            if not (len(op) > 4 and op[4] == "older"):
                topics[op[1]] = [op[2], canon(op[3])]
        elif op[0] == "ntr":
            want = topics.get(op[1])
            if o != ["nt", want]:
                # (a topic where the property puts none is reported under its own fingerprint: the
                # search prefers a failure of a clause about a documented key)
                return fail("c09-topic-at-documented-key" if want is not None else "c09-topic-outside-documented-keys",
                            "an independent subscriber at %s sees %s, the property (documented key, topic type, "
                            "writeDefault, latest write) requires %s" % (op[1], show(o[1]), show(want)))
    return None


def shared_defs(case):
    """the module-level definitions of the shared tunable objects of the history (first binder wins,
    as in shared_object)."""
    seen, out = set(), []
    for k in range(len(case["classes"])):
        h = case_hier(case, k)
        bodies = (([h["mixin"]] if h.get("mixin") is not None else []) + list(h["levels"])) if h is not None else [case["classes"][k]]
        for body in bodies:
            for m in body:
                if "obj" in m and m["obj"] not in seen:
                    seen.add(m["obj"])
                    out.append("_shared%d = %s" % (m["obj"], describe_shared(m)))
    return out


def describe_decl(d, src):
    """one line: the tunable as written."""
    h, form = d.get("hint"), d.get("form", 0)
    if "obj" in d:
        if h is None or form == 0:
            return "%s = _shared%d" % (d["attr"], d["obj"])
        return "%s: %s = _shared%d" % (d["attr"], ann_src(h, form, d.get("flavor", 0), d.get("q", 0) if src else 0), d["obj"])
    if h is None:
        return "%s = tunable(%s)" % (d["attr"], json.dumps(d["default"]))
    if form == 0:
        return "%s = tunable[%s](%s)" % (d["attr"], hint_src(h, d.get("flavor", 0)), json.dumps(d["default"]))
    return "%s: %s = tunable(%s)" % (d["attr"], ann_src(h, form, d.get("flavor", 0), d.get("q", 0) if src else 0),
                                     json.dumps(d["default"]))


def describe_classes(case):
    out = []
    for k, ds in enumerate(case["classes"]):
        src = case_eff_src(case, k)
        how = {0: "type()", 1: "module", 2: "module with `from __future__ import annotations`"}[src]
        tk = case_tkind(case, k)
        if tk is not None:
            how += {"len": ", defines __len__", "bool": ", defines __bool__", "list": ", subclass of list"}[tk]
        h = case_hier(case, k)
        sm = case_sm(case, k)
        if sm is not None:
            how += ", class Cls%d(StateMachine) with states %s" % (k, ", ".join(
                "%s%s%s" % (st["name"], " (first)" if st.get("first") else "",
                            " timed %s" % json.dumps(st["dur"]) if st.get("dur") is not None else "") for st in sm["states"]))
        if h is not None:
            out.append("[%s] %s" % (how, describe_hier(h, "Cls%d" % k, src)))
        else:
            out.append("[%s] %s" % (how, "; ".join(describe_member(d, src) for d in ds if "sm" not in d)))
    sd = shared_defs(case)
    return ("module level: %s || " % "; ".join(sd) if sd else "") + " | ".join(out)


def describe_member(m, src):
    if is_plain(m):
        return "%s = %s (not a tunable)" % (m["attr"], json.dumps(m["plain"]))
    if "obj" in m:
        return describe_decl(m, src)
    extra = "".join(", %s=%s" % (k2, json.dumps(m[k1])) for k1, k2 in (("wd", "writeDefault"), ("subtable", "subtable"))
                    if m.get(k1) is not None)
    return describe_decl(m, src)[:-1] + extra + ")"


def describe_hier(h, name, src):
    """one line per class of the hierarchy, base-most first."""
    parts = []
    if h.get("mixin") is not None:
        parts.append("class %sMixin: %s" % (name, "; ".join(describe_member(m, src) for m in h["mixin"]) or "pass"))
    n = len(h["levels"])
    for k, body in enumerate(h["levels"]):
        last = k == n - 1
        bases = ([] if k == 0 else ["%sL%d" % (name, k - 1)]) + ([name + "Mixin"] if last and h.get("mixin") is not None else [])
        parts.append("class %s%s: %s" % (name if last else "%sL%d" % (name, k), "(%s)" % ", ".join(bases) if bases else "",
                                         "; ".join(describe_member(m, src) for m in body) or "pass"))
    return " / ".join(parts)


def strip_case(case):
    """drop generator-only fields (keeps the JSON replay small and stable)."""
    return json.loads(json.dumps(case))


def shrink_case(mt, case, fresh_tag, budget=220):
    """greedy: drop ops, then declarations, while the oracle still reports the same fingerprint."""
    def retag(c, tag):
        return json.loads(json.dumps(c).replace(c.get("tag", "\0"), tag)) if c.get("tag") else c

    def failing(c):
        c2 = retag(c, fresh_tag())
        v = oracle_case(c2, exec_case(mt, c2))
        return v

    v0 = failing(case)
    if v0 is None:
        return case, None
    fp = v0["fingerprint"]
    best = case
    changed = True
    while changed and budget > 0:
        changed = False
        for k in range(len(best["ops"]) - 1, -1, -1):
            if budget <= 0:
                break
            cand = dict(best)
            cand["ops"] = best["ops"][:k] + best["ops"][k + 1:]
            budget -= 1
            v = failing(cand)
            if v is not None and v["fingerprint"] == fp:
                best, changed = cand, True
        for ci, ds in enumerate(best["classes"]):
            for k in range(len(ds) - 1, -1, -1):
                if len(ds) <= 1 or budget <= 0:
                    break
                attr = ds[k]["attr"]
                if any(op[0] in ("pyw", "pyr") and op[2] == attr and best["insts"][op[1]] == ci for op in best["ops"]):
                    continue
                if "sm" in ds[k] or any(op[0] == "clsset" and op[1] == ci and op[2]["attr"] == attr for op in best["ops"]):
                    continue                         # (comes with the StateMachine / is assigned later on)
                cand = json.loads(json.dumps(best))
                del cand["classes"][ci][k]
                cand["split"] = [0] * len(cand["classes"])
                hc = case_hier(cand, ci)
                if hc is not None:                   # every definition of the name goes
                    hc["levels"] = [[m for m in b if m["attr"] != attr] for b in hc["levels"]]
                    if hc.get("mixin") is not None:
                        hc["mixin"] = [m for m in hc["mixin"] if m["attr"] != attr]
                    refresh_case(cand)
                budget -= 1
                v = failing(cand)
                if v is not None and v["fingerprint"] == fp:
                    best, changed = cand, True
                    ds = best["classes"][ci]
    # the hierarchy: is it needed at all; which shadowed definitions are needed?
    for ci in range(len(best["classes"])):
        if case_hier(best, ci) is None:
            continue
        if budget > 0:
            cand = json.loads(json.dumps(best))
            cand["hier"][ci] = None                  # the class written flat: what it resolves to
            budget -= 1
            v = failing(cand)
            if v is not None and v["fingerprint"] == fp:
                best = cand
                continue
        for m in shadowed_members(case_hier(best, ci)):
            if budget <= 0:
                break
            cand = json.loads(json.dumps(best))
            hc = cand["hier"][ci]
            for body in hc["levels"] + ([hc["mixin"]] if hc.get("mixin") is not None else []):
                if m in body:
                    body.remove(m)
                    break
            refresh_case(cand)
            budget -= 1
            v = failing(cand)
            if v is not None and v["fingerprint"] == fp:
                best = cand
        # names no operation touches: drop the members that are not tunables of the class at all
        hb = case_hier(best, ci)
        live = set(d["attr"] for d in best["classes"][ci])
        if budget > 0 and any(m["attr"] not in live for b in hier_mro(hb) for m in b):
            cand = json.loads(json.dumps(best))
            hc = cand["hier"][ci]
            hc["levels"] = [[m for m in b if m["attr"] in live] for b in hc["levels"]]
            if hc.get("mixin") is not None:
                hc["mixin"] = [m for m in hc["mixin"] if m["attr"] in live]
            budget -= 1
            v = failing(cand)
            if v is not None and v["fingerprint"] == fp:
                best = cand
        # empty classes of the chain / an empty mixin
        hb = case_hier(best, ci)
        if budget > 0 and (any(not b for b in hb["levels"]) or hb.get("mixin") == []):
            cand = json.loads(json.dumps(best))
            hc = cand["hier"][ci]
            hc["levels"] = [b for b in hc["levels"] if b] or [[]]
            if hc.get("mixin") == []:
                hc["mixin"] = None
            budget -= 1
            v = failing(cand)
            if v is not None and v["fingerprint"] == fp:
                best = cand
    # the environment: is the paused clock needed, the clients' own timestamps, the construction order,
    # the StateMachine base class?
    def attempt(cand):
        nonlocal best, budget
        if budget <= 0:
            return False
        budget -= 1
        v = failing(cand)
        if v is not None and v["fingerprint"] == fp:
            best = cand
            return True
        return False

    if best.get("clock"):
        cand = json.loads(json.dumps(best))
        cand.pop("clock")
        cand["ops"] = [op for op in cand["ops"] if op[0] not in ("tick", "ntt")]
        attempt(cand)
    for k in range(len(best["ops"])):
        if best["ops"][k][0] == "ntw" and len(best["ops"][k]) > 4:
            cand = json.loads(json.dumps(best))
            cand["ops"][k] = cand["ops"][k][:4]
            attempt(cand)
    if best.get("lazy"):
        cand = json.loads(json.dumps(best))
        cand.pop("lazy")
        cand["ops"] = [op for op in cand["ops"] if op[0] != "new"]
        attempt(cand)
    for ci in range(len(best["classes"])):
        if case_sm(best, ci) is None:
            continue
        cand = json.loads(json.dumps(best))
        gone = set(d["attr"] for d in cand["classes"][ci] if "sm" in d)
        cand["sm"][ci] = None
        cand["classes"][ci] = [d for d in cand["classes"][ci] if "sm" not in d]
        cand["ops"] = [op for op in cand["ops"]
                       if not (op[0] in ("pyw", "pyr") and cand["insts"][op[1]] == ci and op[2] in gone)
                       and not (op[0] == "clsset" and op[1] == ci and op[2]["attr"] in gone)]
        if not attempt(cand):
            # fewer states?
            for j in range(len(case_sm(best, ci)["states"]) - 1, 0, -1):
                cand = json.loads(json.dumps(best))
                st = cand["sm"][ci]["states"].pop(j)
                own = [d for d in cand["classes"][ci] if "sm" not in d]
                gone = set([st["name"] + "_duration"])
                cand["classes"][ci] = sorted(own + sm_decls(cand["sm"][ci]), key=lambda d: d["attr"])
                cand["ops"] = [op for op in cand["ops"]
                               if not (op[0] in ("pyw", "pyr") and cand["insts"][op[1]] == ci and op[2] in gone)
                               and not (op[0] == "clsset" and op[1] == ci and op[2]["attr"] in gone)]
                attempt(cand)
    # the owner's truthiness: is a class with __len__ / __bool__ needed for the failure?
    for ci in range(len(best["classes"])):
        if budget <= 0 or case_tkind(best, ci) is None:
            continue
        cand = json.loads(json.dumps(best))
        cand["tkind"] = [case_tkind(best, k) for k in range(len(best["classes"]))]
        cand["tkind"][ci] = None
        cand["ops"] = [op for op in cand["ops"] if not (op[0] == "truth" and cand["insts"][op[1]] == ci)]
        budget -= 1
        v = failing(cand)
        if v is not None and v["fingerprint"] == fp:
            best = cand
    # shared tunable objects: is the sharing needed for the failure (every binder its own object)?
    if budget > 0 and case_has_shared(best):
        cand = json.loads(json.dumps(best))
        for k in range(len(cand["classes"])):
            for m in list(case_all_decls(cand, k)) + list(cand["classes"][k]):
                m.pop("obj", None)
        budget -= 1
        v = failing(cand)
        if v is not None and v["fingerprint"] == fp:
            best = cand
    # the spelling: is the way the class / the hint is written needed for the failure?
    for ci in range(len(best["classes"])):
        for simpler in (0, 1):
            if budget <= 0 or case_src(best, ci) <= simpler:
                continue
            cand = json.loads(json.dumps(best))
            cand["src"] = [case_src(best, k) for k in range(len(best["classes"]))]
            cand["src"][ci] = simpler
            budget -= 1
            v = failing(cand)
            if v is not None and v["fingerprint"] == fp:
                best = cand
                break
        hb = case_hier(best, ci)
        if hb is not None:
            where = [(bi, mi) for bi, b in enumerate(hb["levels"] + ([hb["mixin"]] if hb.get("mixin") is not None else []))
                     for mi, m in enumerate(b) if not is_plain(m)]
            for bi, mi in where:
                for field in ("q", "form", "flavor"):
                    hb = case_hier(best, ci)
                    m = (hb["levels"] + ([hb["mixin"]] if hb.get("mixin") is not None else []))[bi][mi]
                    if budget <= 0 or not m.get(field) or "obj" in m:
                        continue
                    cand = json.loads(json.dumps(best))
                    hc = cand["hier"][ci]
                    (hc["levels"] + ([hc["mixin"]] if hc.get("mixin") is not None else []))[bi][mi][field] = 0
                    refresh_case(cand)
                    budget -= 1
                    v = failing(cand)
                    if v is not None and v["fingerprint"] == fp:
                        best = cand
            continue
        for k in range(len(best["classes"][ci])):
            for field in ("q", "form", "flavor"):
                if budget <= 0 or not best["classes"][ci][k].get(field) or "obj" in best["classes"][ci][k]:
                    continue
                cand = json.loads(json.dumps(best))
                cand["classes"][ci][k][field] = 0
                budget -= 1
                v = failing(cand)
                if v is not None and v["fingerprint"] == fp:
                    best = cand
    # instances no operation mentions, classes no instance uses (renumbered)
    used = sorted(set(op[1] for op in best["ops"] if op[0] in ("setup", "pyw", "pyr", "truth", "new")))
    if budget > 0 and used and len(used) < len(best["insts"]):
        cand = json.loads(json.dumps(best))
        ren = {i: n for n, i in enumerate(used)}
        cand["insts"] = [best["insts"][i] for i in used]
        for op in cand["ops"]:
            if op[0] in ("setup", "pyw", "pyr", "truth", "new"):
                op[1] = ren[op[1]]
        budget -= 1
        v = failing(cand)
        if v is not None and v["fingerprint"] == fp:
            best = cand
    usedc = sorted(set(best["insts"]))
    if budget > 0 and len(usedc) < len(best["classes"]):
        cand = json.loads(json.dumps(best))
        ren = {c: n for n, c in enumerate(usedc)}
        for field in ("classes", "split", "src", "tkind", "hier", "sm"):
            if cand.get(field) is not None:
                cand[field] = [cand[field][c] for c in usedc]
        cand["insts"] = [ren[c] for c in best["insts"]]
        cand["ops"] = [op for op in cand["ops"] if not (op[0] == "clsset" and op[1] not in ren)]
        for op in cand["ops"]:
            if op[0] == "clsset":
                op[1] = ren[op[1]]
        budget -= 1
        v = failing(cand)
        if v is not None and v["fingerprint"] == fp:
            best = cand
    c2 = retag(best, fresh_tag())
    return c2, oracle_case(c2, exec_case(mt, c2))


def oracle_grid(d, h, g):
    want = doc_topic(d, h)
    if g[0] == "raise":
        if want is not None:
            return ("c09-supported-type-rejected",
                    "tunable(%s) with hint %s raises %s; the documented topic type is %s" % (json.dumps(d), json.dumps(h), g[1], want))
    elif want is None:
        return ("c09-unsupported-accepted",
                "tunable(%s) with hint %s is accepted; the documented table has no topic type for it" % (json.dumps(d), json.dumps(h)))
    elif g[0] == "setupraise":
        return ("c09-setup-raises", "tunable(%s) with hint %s cannot be bound: %s" % (json.dumps(d), json.dumps(h), g[1]))
    elif g[0] == "bound" and g[1] != want:
        return ("c09-topic-type", "tunable(%s) with hint %s is published as %r; the documented topic type is %r"
                % (json.dumps(d), json.dumps(h), g[1], want))
    return None


# ---------------------------------------------------------------------------
# @feedback: key and topic type derivation of collect_feedbacks (also used by C11)
#   fcase = {"name","explicit","ann","prefix","cname","value"}
# ---------------------------------------------------------------------------
FB_NAMES = ["get_x", "getx", "x", "get_", "_private", "get_get_y", "_get_z", "Get_q", "get_a_b",
            "target_get_x", "get", "get_get_"]
FB_EXPLICIT = [None, "k", "", "get_k", "sub/k"]


def fb_value_for(r, ann):
    """a value the getter returns: fits the annotation when there is a documented topic for it."""
    ts = doc_hint(ann) if ann is not None else None
    if ts is not None and ts in TS_KIND:
        return gen_value(r, TS_KIND[ts])
    return gen_value(r, r.choice([("bool", False), ("int", False), ("float", False), ("str", False), ("bytes", False),
                                  ("bool", True), ("int", True), ("float", True), ("str", True)]), allow_empty=False)


def exec_fcase(mt, fc, flavor=0):
    inst = nt_inst()
    val = to_py(fc["value"])

    def getter(self):
        return val
    getter.__name__ = fc["name"]
    getter.__qualname__ = "FbComp." + fc["name"]
    if fc["ann"] is not None:
        getter.__annotations__ = {"return": hint_to_py(fc["ann"], flavor)}
    try:
        m = mt.feedback(getter) if fc["explicit"] is None else mt.feedback(key=fc["explicit"])(getter)
        cls = type("FbComp", (object,), {fc["name"]: m})
    except Exception as e:
        return ["bad", "decorator: %s" % type(e).__name__]
    pfx = "/%s/" % fc["cname"] if fc["prefix"] is None else "/%s/%s/" % (fc["prefix"], fc["cname"])
    if inst.getTopics(pfx):
        return ["bad", "prefix %s not clean" % pfx]
    obj = cls()
    try:
        fbs = mt.collect_feedbacks(obj, fc["cname"], fc["prefix"])
    except Exception as e:
        return ["raise", type(e).__name__]
    if len(fbs) != 1:
        return ["bad", "%d feedbacks collected" % len(fbs)]
    before = {t.getName(): t.getTypeString() for t in inst.getTopics(pfx)}
    method, setter = fbs[0]
    try:
        setter(method())
    except Exception as e:
        after = dict(before)
        if not after:
            return ["bad", "setter raised %s and nothing is published" % type(e).__name__]
    after = {t.getName(): t.getTypeString() for t in inst.getTopics(pfx)}
    if len(after) != 1 or not set(before) <= set(after):
        return ["bad", "topics under %s: %r -> %r" % (pfx, before, after)]
    key = list(after)[0]
    return ["topic", key, before.get(key), after[key]]


def fobs_to_coq(o):
    if o[0] == "raise":
        return "FRaise"
    if o[0] == "topic" and all(32 <= ord(c) < 127 for c in o[1]):
        return "(FTopic %s %s %s)" % (cs(o[1]), coq_opt(o[2], cs), coq_opt(o[3], cs))
    return "FBad"


def oracle_fcase(fc, o):
    """C11's key / topic type clause on one getter."""
    if fc["explicit"] is not None:
        key = fc["explicit"]
    elif fc["name"].startswith("get_"):
        key = fc["name"][len("get_"):]
    else:
        key = fc["name"]
    want_key = ("/%s/%s" % (fc["cname"], key)) if fc["prefix"] is None else "/%s/%s/%s" % (fc["prefix"], fc["cname"], key)
    want_ts = doc_hint(fc["ann"]) if fc["ann"] is not None else None
    def v(fp, what):
        return {"kind": "feedback", "fingerprint": fp, "fcase": fc, "observed": o,
                "what": "@feedback %s(key=%r) -> %s on %s: %s" % (fc["name"], fc["explicit"], json.dumps(fc["ann"]), fc["cname"], what)}
    if o[0] == "raise":
        if want_ts == "raw":
            return None       # `-> bytes` is not among the hints C11 lists; collect_feedbacks raises (reported, see notes)
        return v("c11-collect-raises", "collect_feedbacks raised %s" % o[1])
    if o[0] != "topic":
        return v("c11-unusable", "observation %r" % (o,))
    if o[1] != want_key:
        return v("c11-key", "published at %r, the documented key is %r" % (o[1], want_key))
    if want_ts is not None and want_ts != "raw" and (o[2] != want_ts or o[3] != want_ts):
        return v("c11-topic-type", "topic type %r/%r, the return type hint requires %r" % (o[2], o[3], want_ts))
    return None


def gen_fcases(ctx, tag0="f"):
    r = ctx.rng
    hints = [None] + grid_hints()
    out = []
    n = 0
    # every name shape x explicit key, annotation rotating through the whole grid
    reps = 1 if ctx.tier == "quick" else 4
    for _ in range(reps):
        for name in FB_NAMES:
            for ex in FB_EXPLICIT:
                ann = hints[n % len(hints)] if n % 3 else r.choice([None, ["base", "int"], ["gen", "seq", ["float"]]])
                out.append({"name": name, "explicit": ex, "ann": ann})
                n += 1
    # every annotation of the grid once (thorough: with every explicit-key choice)
    for ann in hints:
        for ex in (FB_EXPLICIT if ctx.tier == "thorough" else [r.choice(FB_EXPLICIT)]):
            out.append({"name": r.choice(FB_NAMES), "explicit": ex, "ann": ann})
    for k, fc in enumerate(out):
        if k % 7 == 3:
            # the robot itself: collect_feedbacks(self, "robot", None).  Generic NetworkTableEntry
            # handles are never released, so "/robot/" is only clean once per process: later cases
            # use the same prefix=None path with a unique name
            fc["prefix"], fc["cname"] = None, ("robot" if k == 3 else "robot%s%d" % (tag0, k))
        elif k % 7 == 5:
            fc["prefix"], fc["cname"] = "autonomous", "%s%d" % (tag0, k)
        else:
            fc["prefix"], fc["cname"] = "components", "%s%d" % (tag0, k)
        fc["value"] = fb_value_for(r, fc["ann"])
    return out


def fcases_file(pairs):
    global _STRTAB
    _STRTAB = StrTab()
    try:
        rows = []
        for fc, o in pairs:
            rows.append("(fb_match %s %s %s %s %s %s %s)" % (
                coq_opt(fc["prefix"], cs), cs(fc["cname"]), coq_opt(fc["explicit"], cs), cs(fc["name"]),
                coq_opt(fc["ann"], hint_to_coq), to_coq(fc["value"]), fobs_to_coq(o)))
        defs = _STRTAB.defs()
    finally:
        _STRTAB = None
    return (CASES_HEADER + defs + "Definition rows : list bool :=\n [%s].\n"
            "Eval vm_compute in (bad_from (fun b : bool => b) 0 rows).\n" % ";\n ".join(rows))


def feedback_key_cases(ctx, prefix="fb"):
    """Correspondence of the feedback key / topic type derivation (Model.fb_key, fb_topic_key,
    fb_publisher) with collect_feedbacks of $VERIF_REPO.  Records obligations `corr:<prefix>_*` on
    ctx; returns (fcases, observations, bad indices) so a caller can run its own oracle."""
    mt = impl()
    fcs = gen_fcases(ctx, tag0=prefix)
    obs = []
    for k, fc in enumerate(fcs):
        o = exec_fcase(mt, fc, flavor=k % 2)
        obs.append(o)
        ctx.count("fb:name=%s" % fc["name"])
        ctx.count("fb:explicit=%s" % ("none" if fc["explicit"] is None else repr(fc["explicit"])))
        ctx.count("fb:obs=%s" % o[0])
    pairs = list(zip(fcs, obs))
    items = [("%s_%d" % (prefix, k), fcases_file(sh)) for k, sh in enumerate(shards(pairs, 400))]
    res = ctx.coq_files_parallel(items)
    bad = []
    for k, (name, _) in enumerate(items):
        rc, out = res[name]
        lists = parse_eval_lists(out) if rc == 0 else []
        ok = rc == 0 and len(lists) == 1 and lists[0] == []
        ctx.obligation("corr:%s (fb_key / fb_topic_key / fb_publisher == collect_feedbacks)" % name, ok, out[-1500:])
        if rc == 0 and lists and lists[0]:
            bad += [k * 400 + i for i in lists[0]]
    return fcs, obs, bad


# ---------------------------------------------------------------------------
# MagicRobot binds components, autonomous modes and itself (one real robot, own process)
# ---------------------------------------------------------------------------
ROBOT_SRC = '''
import json, sys, typing
import magicbot, ntcore
from magicbot import tunable
PRESET = tunable(0.25)      # ONE tunable object, bound by three classes under three names
class Comp:
    gainC09 = tunable(3)
    kpC09 = PRESET
    kfC09: float = tunable(0)       # a double topic (hint) with an int default literal
    idsC09: "typing.Sequence[int]" = tunable(())
    flagC09 = tunable(True, subtable="cfg")
    def execute(self): pass
class Hopper:
    """container-like component: empty (falsy) all the time"""
    capC09 = tunable(5)
    hop_kpC09 = PRESET
    def __init__(self): self.balls = []
    def __len__(self): return len(self.balls)
    def execute(self): pass
class R(magicbot.MagicRobot):
    left: Comp
    right: Comp
    hopper: Hopper
    topC09 = tunable("x")
    drive_kpC09 = PRESET
    limC09 = tunable[tuple[float, ...]]((), subtable="s/t")
    def createObjects(self): pass
r = R(); r.robotInit()
inst = ntcore.NetworkTableInstance.getDefault()
r.left.gainC09 = 9
r.hopper.capC09 = 6
r.left.kfC09 = 0.75
r.left.kpC09 = 0.5
out = {"topics": sorted([t.getName(), t.getTypeString()] for t in inst.getTopics() if "C09" in t.getName()),
       "left": r.left.gainC09, "right": r.right.gainC09, "hopper": repr(r.hopper.capC09), "hopper_falsy": not r.hopper,
       "kf": [repr(r.left.kfC09), repr(r.right.kfC09)],
       "kp": [r.left.kpC09, r.right.kpC09, r.hopper.hop_kpC09, r.drive_kpC09]}
print("C09JSON" + json.dumps(out))
'''
MODE_SRC = '''from __future__ import annotations
from magicbot import AutonomousStateMachine, state, tunable
class ModeA(AutonomousStateMachine):
    MODE_NAME = "Mode A"
    speedC09 = tunable(0.5)
    ratesC09: list[float] = tunable([])
    burstC09 = tunable([1, 2], subtable="cfg")
    @state(first=True)
    def go(self): pass
'''
ROBOT_EXPECT = [  # (owner, subtable, attr, ntype)
    ('(OComponent "left")', "None", "gainC09", "NInteger"), ('(OComponent "right")', "None", "gainC09", "NInteger"),
    ('(OComponent "left")', '(Some "cfg")', "flagC09", "NBoolean"), ('(OComponent "right")', '(Some "cfg")', "flagC09", "NBoolean"),
    ("ORobot", "None", "topC09", "NString"), ("ORobot", '(Some "s/t")', "limC09", "NDoubleArr"),
    ('(OAutonomous "Mode A")', "None", "speedC09", "NDouble"), ('(OAutonomous "Mode A")', '(Some "cfg")', "burstC09", "NIntegerArr"),
    # string annotations: a quoted hint in the component, a postponed one (PEP 563) in the mode's module
    ('(OComponent "left")', "None", "idsC09", "NIntegerArr"), ('(OComponent "right")', "None", "idsC09", "NIntegerArr"),
    ('(OAutonomous "Mode A")', "None", "ratesC09", "NDoubleArr"),
    # a container-like component whose instance is falsy
    ('(OComponent "hopper")', "None", "capC09", "NInteger"),
    # one tunable object under three names in three classes; a float hint over an int literal
    ('(OComponent "left")', "None", "kpC09", "NDouble"), ('(OComponent "right")', "None", "kpC09", "NDouble"),
    ('(OComponent "hopper")', "None", "hop_kpC09", "NDouble"), ("ORobot", "None", "drive_kpC09", "NDouble"),
    ('(OComponent "left")', "None", "kfC09", "NDouble"), ('(OComponent "right")', "None", "kfC09", "NDouble"),
]
ROBOT_DOC = {"/components/left/gainC09": "int", "/components/right/gainC09": "int",
             "/components/left/cfg/flagC09": "boolean", "/components/right/cfg/flagC09": "boolean",
             "/robot/topC09": "string", "/robot/s/t/limC09": "double[]",
             "/autonomous/Mode A/speedC09": "double", "/autonomous/Mode A/cfg/burstC09": "int[]",
             "/components/left/idsC09": "int[]", "/components/right/idsC09": "int[]",
             "/autonomous/Mode A/ratesC09": "double[]", "/components/hopper/capC09": "int",
             "/components/left/kpC09": "double", "/components/right/kpC09": "double", "/components/hopper/hop_kpC09": "double",
             "/robot/drive_kpC09": "double", "/components/left/kfC09": "double", "/components/right/kfC09": "double"}


def robot_values_ok(rob):
    """left.gain = 9 reaches only left; the empty (falsy) hopper reads back what was assigned"""
    return (rob["left"] == 9 and rob["right"] == 3 and rob.get("hopper") == "6" and rob.get("hopper_falsy") is True
            # left.kf = 0.75 on `kf: float = tunable(0)` reads 0.75 (right keeps 0.0); left.kp = 0.5 on the shared
            # preset reaches only left's own topic
            and rob.get("kf") == ["0.75", "0.0"] and rob.get("kp") == [0.5, 0.25, 0.25, 0.25])


def run_robot(work):
    d = os.path.join(work, "robotproj")
    os.makedirs(os.path.join(d, "autonomous"), exist_ok=True)
    open(os.path.join(d, "robot_c09.py"), "w").write(ROBOT_SRC)
    open(os.path.join(d, "autonomous", "__init__.py"), "w").write("")
    open(os.path.join(d, "autonomous", "mode_a.py"), "w").write(MODE_SRC)
    env = dict(os.environ)
    env["PYTHONPATH"] = REPO
    try:
        p = subprocess.run([sys.executable, "robot_c09.py"], cwd=d, env=env, stdout=subprocess.PIPE,
                           stderr=subprocess.STDOUT, text=True, timeout=120)
    except subprocess.TimeoutExpired:
        return None, "timeout"
    for line in p.stdout.splitlines():
        if line.startswith("C09JSON"):
            return json.loads(line[len("C09JSON"):]), p.stdout[-800:]
    return None, p.stdout[-1500:]


def robot_file(out):
    obs = coq_list(["(%s, %s)" % (coq_string(k), coq_string(ts)) for k, ts in out["topics"]])
    exp = coq_list(["(%s, %s, %s, %s)" % (o, s, coq_string(a), t) for o, s, a, t in ROBOT_EXPECT])
    return (CASES_HEADER +
            "Definition observed : list (string * string) := %s.\n"
            "Definition expected : list (owner * option string * string * ntype) := %s.\n"
            "Definition found (e : owner * option string * string * ntype) : bool :=\n"
            "  let '(o, s, a, t) := e in\n"
            "  existsb (fun kt => String.eqb (fst kt) (owner_key o s a) && String.eqb (snd kt) (type_string t)) observed.\n"
            "Eval vm_compute in (bad_from found 0 expected ++ (if Nat.eqb (length observed) (length expected) then [] else [99%%nat]))%%list.\n"
            % (obs, exp))


# ---------------------------------------------------------------------------
# accesses made from INSIDE the framework's own loop functions
#   A loop case is a history (same fields as above, always an environment history) whose instances are the
#   COMPONENTS of one real MagicRobot (own process: a robot is built once per process):
#     case["robot"] = True, case["names"][i] = attribute name of component i (bound as /components/<name>),
#     case["passes"] = ["enabled" | "periodics", ..]   pass p is robot.teleopPeriodic(); robot._enabled_periodic()
#                                                     resp. robot._do_periodics() (the body of the disabled loop)
#     case["where"][n] = where op n is executed:
#         ["pre"]            before the robot exists (a dashboard value that is already there)
#         ["init"]           the setup op of a component: done by robotInit() itself
#         ["between", p]     by the harness, before pass p (p = number of passes: after the last one)
#         ["teleop", p]      inside the robot's teleopPeriodic() of pass p
#         ["execute", p, i]  inside component i's execute() during _enabled_periodic() of pass p
#         ["feedback", p, i] inside a @feedback getter of component i during _do_periodics() of pass p
#   The ops are listed in execution order; NT-client writes issued from inside a pass go through a separate
#   publisher (the dashboard).  For the model and the oracle the history is the flat list: whatever framework
#   function an access is made from, it is an access like any other (Proofs: loop_structure_irrelevant).
# ---------------------------------------------------------------------------
def loop_worker(path):
    """own process: builds the robot, runs the passes, prints the observations."""
    case = json.load(open(path))
    ops, where = case["ops"], case["where"]
    obs = [None] * len(ops)

    def out():
        print("C09LOOP" + json.dumps([o if o is not None else ["bad", "harness: the operation was never reached"] for o in obs]))
        sys.stdout.flush()

    init_clock()
    import hal.simulation
    import magicbot
    mt = impl()
    _KEEP_MODULES[0] = True
    paused = case.get("clock") == "paused"
    info, valid = annotate(case)
    pool = {}
    try:
        clss = [make_class(mt, ds, "Cls%d" % k, case["split"][k], case_src(case, k), case_tkind(case, k), case_hier(case, k), pool)
                for k, ds in enumerate(case["classes"])]
    except Exception as e:
        obs[:] = [["classraise", type(e).__name__, str(e)[:120]]] * len(ops)
        return out()
    if paused:
        hal.simulation.pauseTiming()
    objs = [None] * len(case["insts"])
    runner = OpRunner(mt, case, paused, clss, objs, info, nt_now() if paused else None)
    state = {"pass": None}

    def group(kind, i=None):
        for n, op in enumerate(ops):
            w = where[n]
            if w[0] == kind and (len(w) < 2 or w[1] == state["pass"]) and (i is None or w[2] == i):
                obs[n] = runner.run(n, op)

    def execute(self):
        group("execute", self._c09_index)

    def get_c09probe(self):
        group("feedback", self._c09_index)
        return 0

    for cls in clss:
        cls.execute = execute
        cls.get_c09probe = mt.feedback(get_c09probe)

    def teleopPeriodic(self):
        group("teleop")

    group("pre")
    try:
        R = type("C09LoopRobot", (magicbot.MagicRobot,), {
            "__annotations__": {nm: clss[c] for nm, c in zip(case["names"], case["insts"])},
            "createObjects": lambda self: None, "teleopPeriodic": teleopPeriodic})
        robot = R()
        robot.robotInit()
        for i, nm in enumerate(case["names"]):
            objs[i] = getattr(robot, nm)
            objs[i]._c09_index = i
        order = [nm for nm, _ in robot._components]
    except Exception as e:
        obs[:] = [["bad", "the robot does not come up: %s: %s" % (type(e).__name__, str(e)[:100])]] * len(ops)
        return out()
    if order != list(case["names"]):
        obs[:] = [["bad", "harness: components execute in the order %r" % (order,)]] * len(ops)
        return out()
    for n, op in enumerate(ops):
        if where[n][0] == "init":
            obs[n] = ["setup", True] if isinstance(getattr(objs[op[1]], "_tunables", None), dict) else ["setup", False, "not bound by robotInit"]
    for p, kind in enumerate(list(case["passes"]) + [None]):
        state["pass"] = p
        group("between")
        try:
            if kind == "enabled":
                robot.teleopPeriodic()
                robot._enabled_periodic()
            elif kind == "periodics":
                robot._do_periodics()
        except Exception as e:
            for n in range(len(ops)):
                if obs[n] is None and len(where[n]) > 1 and where[n][1] == p:
                    obs[n] = ["bad", "the pass raised %s: %s" % (type(e).__name__, str(e)[:80])]
    out()


def exec_loop_case(work, case, slot=0):
    """runs a loop case in a process of its own; returns one observation per op."""
    d = os.path.join(work, "loop_%d" % slot)
    os.makedirs(d, exist_ok=True)
    path = os.path.join(d, "case.json")
    json.dump(case, open(path, "w"))
    env = dict(os.environ)
    root = os.path.dirname(os.path.dirname(os.path.abspath(__file__)))
    env["PYTHONPATH"] = REPO + os.pathsep + root
    try:
        p = subprocess.run([sys.executable, "-c", "from harness import c09; c09.loop_worker(%r)" % path], cwd=d, env=env,
                           stdout=subprocess.PIPE, stderr=subprocess.STDOUT, text=True, timeout=120)
    except subprocess.TimeoutExpired:
        return [["bad", "the robot process did not finish"]] * len(case["ops"])
    for line in p.stdout.splitlines():
        if line.startswith("C09LOOP"):
            return json.loads(line[len("C09LOOP"):])
    return [["bad", "the robot process died: %s" % p.stdout[-300:]]] * len(case["ops"])


def exec_loop_cases(work, cases):
    from concurrent.futures import ThreadPoolExecutor
    with ThreadPoolExecutor(max_workers=8) as ex:
        return list(ex.map(lambda kc: exec_loop_case(work, kc[1], kc[0]), enumerate(cases)))


def gen_loop_case(r, tag):
    """components of a real MagicRobot that assign and read their tunables from inside execute() / a @feedback
    getter / the robot's teleopPeriodic(), interleaved with dashboard writes issued during the same pass
    (from an earlier component's execute(), from teleopPeriodic) and between passes."""
    ncls = r.choice([1, 1, 2])
    classes, split, srcs, tkinds, hiers = [], [], [], [], []
    for c in range(ncls):
        srcs.append(r.choice([0, 1, 2]))
        tkinds.append(r.choice([None, None, None, "len", "bool"]))
        ds = sorted((gen_decl(r, "%s_%s" % (a, tag)) for a in r.sample(ATTR_POOL, r.choice([1, 2, 3]))), key=lambda d: d["attr"])
        classes.append(ds)
        hiers.append(gen_hier(r, ds, tag) if r.random() < 0.25 else None)
        split.append(0 if hiers[-1] is not None or r.random() < 0.7 else r.randrange(len(ds)))
    ncomp = r.choice([1, 2, 2, 3])
    insts = [r.randrange(ncls) for _ in range(ncomp)]
    names = ["c%d_%s" % (i, tag) for i in range(ncomp)]
    paused = r.random() < 0.5
    stamping = r.random() < 0.4
    ops, where = [], []

    def add(op, w):
        ops.append(op)
        where.append(w)

    keys = []                                        # (key, ts, kind, i, attr)
    for i in range(ncomp):
        for d in classes[insts[i]]:
            if not d["attr"].startswith("_"):
                keys.append((doc_key("components", names[i], d["subtable"], d["attr"]),
                             (ARRAY_TS if d["kind"][1] else SCALAR_TS)[d["kind"][0]], tuple(d["kind"]), i, d["attr"]))
    for key, ts, kind, i, a in keys:
        if r.random() < 0.25:
            add(["ntw", key, ts, gen_value(r, kind)], ["pre"])       # the dashboard's value is already there
            if r.random() < 0.4:
                add(["ntflag", key, r.choice(["persistent", "persistent", "retained"])], ["pre"])
    for i in range(ncomp):
        add(["setup", i, "components", names[i]], ["init"])

    def stamp():
        return [r.choice(["same", "now", "now"])] if stamping and r.random() < 0.5 else []

    holds = {}

    def nearish(key, ts, v):
        if ts in ("double", "double[]"):
            if key in holds and r.random() < 0.25:
                v = near_value(r, holds[key]) or v
            holds[key] = as_topic_value(ts, v)
        return v

    def some_ops(w, me, n):
        """n ops at location w; `me`: the component whose code runs (None: the robot's / the harness's)"""
        k = 0
        while k < n:
            k += 1
            key, ts, kind, i, a = r.choice(keys)
            if me is not None and r.random() < 0.75:
                key, ts, kind, i, a = r.choice([x for x in keys if x[3] == me] or keys)   # mostly its own tunables
            x = r.random()
            if x < 0.22:
                # the dashboard changes a value during the pass, the component then assigns the same tunable and reads it
                add(["ntw", key, ts, nearish(key, ts, gen_value(r, kind))] + stamp(), w)
                if paused and r.random() < 0.3:
                    add(["tick", r.choice([1, 5000])], w)
                add(["pyw", i, a, nearish(key, ts, gen_value(r, kind, pyform=True))], w)
                add(["pyr", i, a], w)
            elif x < 0.45:
                add(["pyw", i, a, nearish(key, ts, gen_value(r, kind, pyform=True))], w)
            elif x < 0.7:
                add(["pyr", i, a], w)
            elif x < 0.82:
                add(["ntw", key, ts, nearish(key, ts, gen_value(r, kind))] + stamp(), w)
            elif x < 0.92 or not paused:
                add(["ntr", key], w)
            else:
                add(["tick", r.choice([1, 5000, 20000])], w)

    passes = []
    for p in range(r.randrange(3, 8)):
        kind = "enabled" if r.random() < 0.8 else "periodics"
        passes.append(kind)
        some_ops(["between", p], None, r.choice([0, 0, 1, 2]))
        if paused and r.random() < 0.6:
            add(["tick", 20000], ["between", p])
        if kind == "enabled":
            some_ops(["teleop", p], None, r.choice([0, 0, 1]))
            for i in range(ncomp):
                some_ops(["execute", p, i], i, r.choice([0, 1, 2, 3]))
        for i in range(ncomp):
            some_ops(["feedback", p, i], i, r.choice([0, 0, 1]))
    for key, ts, kind, i, a in keys:
        if r.random() < 0.6:
            add(["pyr", i, a], ["between", len(passes)])
        if r.random() < 0.4:
            add(["ntr", key], ["between", len(passes)])
    case = {"tag": tag, "robot": True, "classes": classes, "split": split, "src": srcs, "tkind": tkinds, "insts": insts,
            "names": names, "passes": passes, "ops": ops, "where": where}
    if any(h is not None for h in hiers):
        case["hier"] = hiers
    if paused:
        case["clock"] = "paused"
    return case


def shrink_loop_case(work, case, v0, budget=24):
    """greedy and coarse (every attempt is a robot process): whole passes, then single operations."""
    fp = v0["fingerprint"]
    best = case

    def failing(c):
        c2 = retag(c, fresh_tag())
        v = oracle_case(c2, exec_loop_case(work, c2, 99))
        return v is not None and v["fingerprint"] == fp

    def without(c, pred):
        keep = [n for n in range(len(c["ops"])) if not pred(n)]
        c2 = dict(c)
        c2["ops"] = [c["ops"][n] for n in keep]
        c2["where"] = [c["where"][n] for n in keep]
        return c2

    for p in range(len(best["passes"]), -1, -1):
        if budget <= 0:
            break
        if not any(len(w) > 1 and w[1] == p for w in best["where"]):
            continue
        cand = without(best, lambda n: len(best["where"][n]) > 1 and best["where"][n][1] == p)
        budget -= 1
        if failing(cand):
            best = cand
    for n in range(len(best["ops"]) - 1, -1, -1):
        if budget <= 0:
            break
        if best["where"][n][0] == "init":
            continue
        cand = without(best, lambda m: m == n)
        budget -= 1
        if failing(cand):
            best = cand
    # components no operation mentions, classes no component uses
    used = sorted(set(op[1] for op, w in zip(best["ops"], best["where"]) if w[0] != "init" and op[0] in ("pyw", "pyr", "truth"))
                  | set(w[2] for w in best["where"] if len(w) > 2))
    if used and len(used) < len(best["insts"]):
        ren = {i: n for n, i in enumerate(used)}
        cand = without(best, lambda n: best["where"][n][0] == "init" and best["ops"][n][1] not in ren)
        cand = json.loads(json.dumps(cand))
        cand["insts"] = [best["insts"][i] for i in used]
        cand["names"] = [best["names"][i] for i in used]
        for op in cand["ops"]:
            if op[0] in ("setup", "pyw", "pyr", "truth"):
                op[1] = ren[op[1]]
        for w in cand["where"]:
            if len(w) > 2:
                w[2] = ren[w[2]]
        if failing(cand):
            best = cand
    usedc = sorted(set(best["insts"]))
    if len(usedc) < len(best["classes"]):
        cand = json.loads(json.dumps(best))
        for field in ("classes", "split", "src", "tkind", "hier"):
            if cand.get(field) is not None:
                cand[field] = [cand[field][c] for c in usedc]
        cand["insts"] = [usedc.index(c) for c in best["insts"]]
        if failing(cand):
            best = cand
    return best


def describe_where(w):
    return {"pre": "before the robot exists", "init": "robotInit()", "between": "between the passes",
            "teleop": "in teleopPeriodic()", "execute": "in execute() during _enabled_periodic()",
            "feedback": "in a @feedback getter during _do_periodics()"}[w[0]] + (
        "" if len(w) < 2 else " [pass %d%s]" % (w[1], "" if len(w) < 3 else ", component %d" % w[2]))


def violation_of_loop_case(work, case):
    c = retag(case, fresh_tag())
    v = oracle_case(c, exec_loop_case(work, c, 98))
    if v is None:
        return None
    c = retag(shrink_loop_case(work, c, v), fresh_tag())
    o = exec_loop_case(work, c, 98)
    v2 = oracle_case(c, o)
    if v2 is None:
        return None
    v2["case"] = strip_case(c)
    v2["observations"] = o
    v2["what"] += ("   [a real MagicRobot with components %s; passes %s; %s: %s]   [classes: %s]" % (
        ", ".join("%s: Cls%d" % (nm, k) for nm, k in zip(c["names"], c["insts"])), json.dumps(c["passes"]),
        "NT clock paused, stepped by the `tick` ops" if c.get("clock") == "paused" else "NT clock running",
        " ".join("%s@%s" % (json.dumps(op), "/".join(str(x) for x in w)) for op, w in zip(c["ops"], c["where"]) if w[0] != "init"),
        describe_classes(c)))
    return v2


# ---------------------------------------------------------------------------
# run / search / replay
# ---------------------------------------------------------------------------
_TAGS = [0]


def fresh_tag():
    _TAGS[0] += 1
    return "q%dz" % _TAGS[0]


def retag(case, tag):
    if not case.get("tag"):
        return case
    c = json.loads(json.dumps(case).replace(case["tag"], tag))
    c["tag"] = tag
    return c


def grid_file(observed, pattern):
    """pattern: the (form, ann) combos the points were written in, point i uses pattern[i % len]."""
    global _STRTAB
    _STRTAB = StrTab()
    try:
        chunks = [coq_list([gobs_to_coq(g) for g in ch]) for ch in shards(observed, 2000)]
        defs = _STRTAB.defs()
    finally:
        _STRTAB = None
    body = "".join("Definition o%d : list gobs := %s.\n" % (k, c) for k, c in enumerate(chunks))
    cat = " ++ ".join("o%d" % k for k in range(len(chunks)))
    sps = []
    for form, ann in pattern:
        src, q = ANN_MODES[ann]
        # (the hint-dependent fallback of q=2 is QStr in the model: same resolution)
        sps.append(spelling_to_coq(None if form == 0 else
                                   (form in (1, 4), form in (1, 2), "QStr" if (src == 2 or q == 1) else "QFwd" if q == 2 else "QObj")))
    return (CASES_HEADER + defs + body +
            "Definition observed : list gobs := (%s)%%list.\n"
            "Definition pattern : list spelling := %s.\n"
            "Eval vm_compute in (bad_grid grid_decls observed).\n"
            "Eval vm_compute in (bad_grid_src pattern grid_decls observed).\n" % (cat, coq_list(sps)))


def is_nontrivial(case, obs):
    kinds = set(op[0] for op in case["ops"])
    nset = sum(1 for op in case["ops"] if op[0] == "setup")
    return nset >= 2 and {"pyw", "pyr", "ntw", "ntr"} <= kinds


def load_corpus(ctx):
    d = os.path.join(os.path.dirname(os.path.dirname(os.path.abspath(__file__))), "corpus", ctx.pid)
    out = []
    if os.path.isdir(d):
        for f in sorted(os.listdir(d)):
            if f.endswith(".json"):
                try:
                    obj = json.load(open(os.path.join(d, f)))
                except ValueError:
                    continue
                if "case" in obj:
                    out.append(refresh_case(obj["case"]))
    return out


def violation_of_case(mt, case, shrink=True):
    c = retag(case, fresh_tag())
    v = oracle_case(c, exec_case(mt, c))
    if v is None:
        return None
    if shrink:
        c2, v2 = shrink_case(mt, c, fresh_tag)
        if v2 is not None:
            c, v = c2, v2
    v["case"] = strip_case(c)
    v["observations"] = exec_case(mt, retag(c, fresh_tag()))
    if any(case_hier(c, k) is not None for k in range(len(c["classes"]))) or case_has_shared(c) \
            or any(literal_is_int(d) for ds in c["classes"] for d in ds if "kind" in d) or is_env(c) \
            or any(d.get("subtable") for ds in c["classes"] for d in ds):
        v["what"] += "   [classes: %s]" % describe_classes(c)
    if is_env(c):
        v["what"] += "   [history: %s]" % describe_env(c)
    return v


def describe_op(op):
    if op[0] != "clsset":
        return json.dumps(op)
    m = op[2]
    if is_plain(m):
        return '["clsset", "Cls%d.%s = %s"]' % (op[1], m["attr"], json.dumps(m["plain"]))
    return '["clsset", "Cls%d.%s = tunable(%s%s%s)"]' % (
        op[1], m["attr"], json.dumps(m["default"]), "" if m.get("wd") is None else ", writeDefault=%r" % m["wd"],
        "" if m.get("subtable") is None else ", subtable=%r" % m["subtable"])


def describe_env(c):
    """one line: the environment of the history and its operations."""
    parts = ["NT clock paused, stepped by the `tick` ops (every operation in between carries the same timestamp)"
             if c.get("clock") == "paused" else "NT clock running"]
    if c.get("lazy"):
        parts.append("instances constructed by the `new` ops")
    if any(op[0] == "ntw" and len(op) > 4 for op in c["ops"]):
        parts.append("5th field of an `ntw` op = the timestamp the client gives its update (same: that of the value the topic holds; now; older)")
    return "; ".join(parts) + ": " + " ".join(describe_op(op) for op in c["ops"][:12])


def env_counters(ctx, c):
    """input distribution of the environment dimensions (Model section 13)."""
    info, _ = annotate(c)
    paused = c.get("clock") == "paused"
    ctx.count("history=%s" % ("environment (Model.grun)" if is_env(c) else "plain (Model.xrun)"))
    ctx.count("clock=%s" % ("paused, stepped" if paused else "running"))
    ctx.count("construction=%s" % ("one by one (`new` ops)" if c.get("lazy") else "all up front"))
    for k in range(len(c["classes"])):
        if case_sm(c, k) is not None:
            ni = sum(1 for ci in c["insts"] if ci == k)
            ctx.count("class=StateMachine subclass, %d state(s), %d instance(s)%s" % (
                len(case_sm(c, k)["states"]), ni, ", constructed one by one" if c.get("lazy") and ni > 1 else ""))
    # reads that follow a client update which carries the very timestamp of the value the instance read last
    # (a duplicate value keeps the old timestamp in ntcore: not tracked here, the counter is approximate)
    stamp_id, nt_writes, last_read, key_of_attr = {}, {}, {}, {}
    tick = 0
    nsetup = collections_counter()
    for n, op in enumerate(c["ops"]):
        now_id = ("t", tick) if paused else ("n", n)
        if op[0] == "tick":
            tick += 1 if op[1] else 0
            ctx.count("tick=%s" % ("0" if not op[1] else "1us" if op[1] == 1 else ">=5ms"))
        elif op[0] == "ntw":
            sel = op[4] if len(op) > 4 else None
            ctx.count("ntw:stamp=%s" % (sel or "left to ntcore"))
            if sel != "older":
                if sel != "same" or op[1] not in stamp_id:
                    stamp_id[op[1]] = now_id
                nt_writes[op[1]] = nt_writes.get(op[1], 0) + 1
        elif op[0] == "setup":
            nsetup[c["insts"][op[1]]] += 1
            key_of_attr[op[1]] = {d["attr"]: doc_key(op[2], op[3], d["subtable"], d["attr"]) for d in info[n]["decls"]}
            for d in info[n]["decls"]:
                if d["wd"] is not False:
                    stamp_id[key_of_attr[op[1]][d["attr"]]] = now_id
            if any(o2[0] == "clsset" and o2[1] == c["insts"][op[1]] for o2 in c["ops"][:n]):
                ctx.count("setup:after a class attribute was assigned (%s setup of an instance of the class)"
                          % ("first" if nsetup[c["insts"][op[1]]] == 1 else "a later"))
        elif op[0] == "clsset":
            m = op[2]
            was = any(d["attr"] == m["attr"] for d in c["classes"][op[1]]) or any(
                o2[0] == "clsset" and o2[1] == op[1] and o2[2]["attr"] == m["attr"] for o2 in c["ops"][:n])
            ctx.count("clsset=%s" % ("plain value over a tunable" if is_plain(m) else "tunable replaced" if was else "tunable added"))
        elif op[0] in ("pyr", "pyw"):
            ctx.count("%s:%s" % (op[0], {"live": "bound tunable", "unbound": "not bound (masked)", "nodecl": "no such attribute",
                                         "stale": "class attribute assigned after the setup (masked)"}[info[n]["state"]]))
            if info[n]["state"] == "live":
                key = key_of_attr.get(op[1], {}).get(op[2])
                if op[0] == "pyr":
                    lr = last_read.get((op[1], op[2]))
                    if lr is not None and lr[0] == key and lr[1] == stamp_id.get(key) and nt_writes.get(key, 0) > lr[2]:
                        ctx.count("pyr:after a client update stamped like the value this instance read last")
                    last_read[(op[1], op[2])] = (key, stamp_id.get(key), nt_writes.get(key, 0))
                else:
                    stamp_id[key] = now_id
                    last_read.pop((op[1], op[2]), None)


def collections_counter():
    import collections
    return collections.Counter()


FAMILY_FILES = ["Tunable/Model.v", "Tunable/Proofs.v", "Tunable/Compare.v", "Tunable/SrcTunable.v", "Tunable/SrcTunableProofs.v"]


def ensure_built():
    """compile the family's files when their .vo is missing or stale (they are built by `make` once
    they are listed in _CoqProject; until then, and after somebody's `make clean`, by hand)."""
    from . import common
    log = ""
    with common.BuildLock():
        listed = open(os.path.join(common.COQ, "_CoqProject")).read()
        prev = 0
        for f in FAMILY_FILES:
            v = os.path.join(common.THEORIES, f)
            vo = v + "o"
            if "theories/" + f in listed:
                continue
            if not os.path.exists(vo) or os.path.getmtime(vo) < max(os.path.getmtime(v), prev):
                rc, out = common.sh("timeout 600 coqc -Q theories %s theories/%s 2>&1" % (common.LOGICAL, f), cwd=common.COQ, timeout=660)
                log += out
                if rc != 0:
                    return False, log
            prev = os.path.getmtime(vo)
    return True, log


def run(ctx):
    ok, log = ensure_built()
    ctx.obligation("make:Tunable family compiles", ok, log[-1500:])
    ctx.assumptions.append(
        "C09: ntcore modelled as a finite map key -> (type, value); type conflicts on an existing topic, values that "
        "do not fit the topic type, unpublishing and the network are ntcore behaviour outside the model; "
        "bool(owner) modelled as TPlain | TLen n | TBool b (classes defining both __bool__ and __len__, or a __bool__/"
        "__len__ that raises or has side effects, are outside the generated domain); "
        "the hint enters the model as it is WRITTEN (subscript / annotation H, tunable[H], ClassVar[..]; evaluated, "
        "postponed by `from __future__ import annotations`, quoted, quoted argument) and Model.set_name_hint resolves it; "
        "a string annotation is identified with the expression it denotes (its names resolve in the module namespace "
        "typing.get_type_hints evaluates it in; unresolvable names, annotations inherited from a base class and a "
        "quoted subscript tunable['H'](..) are outside the generated domain); "
        "a class hierarchy enters the model as its MRO [vars(k) for k in cls.__mro__] (chain + mixin generated; C3 linearisation is not "
        "computed by the model); an un-annotated redefinition whose base annotates the same name with ANOTHER type is outside the generated "
        "domain (it inherits the base's hint through typing.get_type_hints, see notes_c09.md); "
        "floats restricted to multiples of 1/64, strings to ASCII; pyntcore's StructArrayEntry.get() returns the "
        "entry default for an EMPTY stored array (observed, not /repo code): empty struct arrays are only generated as defaults")
    ctx.assumptions.append(
        "C09 (environment, Model section 13): ntcore's treatment of timestamps -- an update stamped older than the value a topic holds is "
        "dropped, a duplicate keeps the old timestamp, setDefault stores timestamp 0, time=0 means now -- is ntcore behaviour recorded from "
        "observation (validated by the correspondence under the paused HAL clock: `ntt` ops); the NT clock is the HAL clock (initialised before "
        "the first NT value of the process), paused and stepped in 40% of the histories; client timestamps from the future (later python-side "
        "writes are then dropped by ntcore) are not generated; an attribute of a class assigned after an instance was set up is not a bound "
        "tunable of that instance (reads/writes of it raise KeyError on the unchanged library): masked on both sides until the instance is set up again")
    ctx.prove()
    # the tie to the source: __get__ / __set__ / the body of setup_tunables / the type tables translated from $VERIF_REPO's
    # magic_tunable.py as it is now (fail-closed) and proved equal to the model's functions (harness/c09_translate.py)
    from . import c09_translate
    c09_translate.obligation(ctx)
    try:
        init_clock()
        mt = impl()
    except Exception as e:
        ctx.obligation("impl:magicbot.magic_tunable imports", False, repr(e))
        return ctx.finish()
    quick = ctx.tier != "thorough"

    # ---- @feedback key / type (shared with C11) -----------------------
    fcs, fobs, fbad = feedback_key_cases(ctx)

    # ---- the type grid, exhaustive over Model.grid_decls ---------------
    badsrc = check_hint_sources()
    ctx.obligation("harness:generated hint source text evaluates to the hint object (all grid hints, both flavors)",
                   not badsrc, json.dumps(badsrc[:5]))
    grid = grid_decls()
    # quick: one pass, point i written in combo GRID_COMBOS[i % 27]; thorough: one pass per combo
    passes = [GRID_COMBOS] if quick else [[c] for c in GRID_COMBOS]
    gobs_all, gbad = [], []

    def grid_point(pi, idx):
        form, ann = passes[pi][idx % len(passes[pi])]
        return form, (idx // 4 + pi) % 2, ann

    for pi in range(len(passes)):
        observed = []
        for idx, (d, h) in enumerate(grid):
            form, flavor, ann = grid_point(pi, idx)
            observed.append(grid_observe(mt, idx + pi * len(grid), d, h, form, flavor, ann))
            ctx.count("grid:%s" % observed[-1][0])
            ctx.count("grid:written=form%d/ann%d" % (form, ann))
        gobs_all.append(observed)
    res = ctx.coq_files_parallel([("grid_%d" % pi, grid_file(o, passes[pi])) for pi, o in enumerate(gobs_all)])
    for pi in range(len(passes)):
        rc, out = res["grid_%d" % pi]
        lists = parse_eval_lists(out) if rc == 0 else []
        ok = rc == 0 and len(lists) == 2 and lists[0] == [] and lists[1] == []
        ctx.obligation("corr:grid_%d (decl_topic / decl_topic_src of the spelling == class statement + type string "
                       "read back, all %d grid points)" % (pi, len(grid)), ok, out[-1500:])
        if rc == 0 and len(lists) == 2 and (lists[0] or lists[1]):
            gbad += [(pi, i) for i in sorted(set(lists[0]) | set(lists[1]))]

    def grid_violation(pi, i):
        d, h = grid[i]
        g = gobs_all[pi][i]
        r = oracle_grid(d, h, g)
        if not r:
            return None
        form, flavor, ann = grid_point(pi, i)
        decl, src = grid_decl(d, h, form, flavor, ann)
        return {"kind": "grid", "fingerprint": r[0], "default": d, "hint": h, "form": form, "flavor": flavor,
                "ann": ann, "observed": g,
                "what": "%s   written as [%s] %s" % (r[1], {0: "type()", 1: "module", 2: "module with `from __future__ "
                                                       "import annotations`"}[eff_src([decl], src)],
                                                  describe_decl(decl, eff_src([decl], src)))}

    # ---- MagicRobot binds the three owner kinds -------------------------
    rob, rlog = run_robot(ctx.work)
    ctx.obligation("robot:MagicRobot.robotInit runs and reports its tunable topics", rob is not None, rlog)
    rob_ok = True
    if rob is not None:
        rc, out = ctx.coq_file("robot_0", robot_file(rob))
        lists = parse_eval_lists(out) if rc == 0 else []
        rob_ok = rc == 0 and len(lists) == 1 and lists[0] == [] and robot_values_ok(rob)
        ctx.obligation("corr:robot_0 (owner_key of components / autonomous mode / robot == topics of a real MagicRobot)",
                       rob_ok, out[-1500:] + json.dumps(rob))

    # ---- histories ---------------------------------------------------
    n = 1000 if quick else 15000
    cases = [retag(c, fresh_tag()) for c in load_corpus(ctx)]
    ncorpus = len(cases)
    while len(cases) < ncorpus + n:
        cases.append(gen_case(ctx.rng, fresh_tag()))
    # loop cases: the components of a real MagicRobot access their tunables from inside the framework's loop
    # functions (one robot process each, 8 at a time)
    nloop = 24 if quick else 240
    lcases = [c for c in cases if c.get("robot")] + [gen_loop_case(ctx.rng, fresh_tag()) for _ in range(nloop)]
    cases = [c for c in cases if not c.get("robot")] + lcases
    lobs = dict(zip((id(c) for c in lcases), exec_loop_cases(ctx.work, lcases)))
    pairs = []
    distinct = set()
    for c in cases:
        o = lobs[id(c)] if c.get("robot") else exec_case(mt, c)
        pairs.append((c, o))
        if c.get("robot"):
            ctx.count("loop-case:components=%d/passes=%d" % (len(c["insts"]), min(len(c["passes"]), 6)))
            saw_nt = {}
            for nop, op in enumerate(c["ops"]):
                w = c["where"][nop]
                ctx.count("loop:%s from %s" % (op[0], w[0]))
                # an assignment that follows, in the same pass, a dashboard update of the same topic
                if op[0] == "ntw" and len(w) > 1 and w[0] != "between":
                    saw_nt[op[1]] = w[1]
                if op[0] == "pyw" and len(w) > 1 and w[0] != "between":
                    d = next((d for d in c["classes"][c["insts"][op[1]]] if d["attr"] == op[2]), None)
                    if d is not None and saw_nt.get(doc_key("components", c["names"][op[1]], d["subtable"], d["attr"])) == w[1]:
                        ctx.count("loop:assignment after a dashboard update of the same topic in the same pass")
        tstates = truth_states(c)
        for nop, op in enumerate(c["ops"]):
            ctx.count("op=%s" % op[0])
            if op[0] in ("setup", "pyw", "pyr"):
                tk = inst_tkind(c, op[1])
                ctx.count("%s:owner=%s" % (op[0], "ordinary" if tk is None else
                                           "%s/%s" % (tk, "falsy" if truth_is_falsy(tk, tstates[nop][op[1]]) else "truthy")))
            if op[0] == "setup":
                ctx.count("owner-name=%s" % ("plain" if not any(ch in op[3] for ch in "/.") else subtable_shape(op[3])))
                ctx.count("owner=%s" % (op[2] if op[2] in ("components", "autonomous") else
                                        "robot" if op[3] == "robot" else "prefix-None-other" if op[2] is None else "other-prefix"))
        for k, ds in enumerate(c["classes"]):
            es = case_eff_src(c, k)
            ctx.count("class-written=%s" % {0: "type()", 1: "module", 2: "module+future-annotations"}[es])
            hk = case_hier(c, k)
            if hk is None:
                ctx.count("class-shape=%s" % ("flat" if not c["split"][k] else "base+subclass, no redefinition"))
            else:
                sh = shadowed_members(hk)
                ctx.count("class-shape=hierarchy depth %d%s" % (len(hk["levels"]), "+mixin" if hk.get("mixin") is not None else ""))
                ctx.count("hierarchy:shadowed-definitions=%s" % min(len(sh), 4))
                eff = {d["attr"]: d for d in ds}
                for m in sh:
                    if is_plain(m):
                        ctx.count("redefinition=plain attribute under a tunable")
                    elif m["attr"] not in eff:
                        ctx.count("redefinition=tunable shadowed by a plain attribute")
                    else:
                        e = eff[m["attr"]]
                        ctx.count("redefinition=tunable over tunable/%s%s%s%s" % (
                            "same type" if m["kind"] == e["kind"] else "other type",
                            "" if canon(m["default"]) == canon(e["default"]) else "/other default",
                            "" if (m["wd"] is not False) == (e["wd"] is not False) else "/other writeDefault",
                            "" if (m["subtable"] or None) == (e["subtable"] or None) else "/other subtable"))
            for d in ds:
                if literal_is_int(d):
                    ctx.count("default-literal=int on a double topic (%s)" % ("subscript" if d.get("form", 0) == 0 else "annotation"))
                if d.get("hint") is not None:
                    sp = spelling(d, es)
                    ctx.count("hint-spelling=%s" % ("subscript" if sp is None else
                                                    "%s%s%s" % (sp[2], "/ClassVar" if sp[0] else "", "/tunable[]" if sp[1] else "")))
                else:
                    ctx.count("hint-spelling=none")
                ctx.count("kind=%s%s" % (d["kind"][0], "[]" if d["kind"][1] else ""))
                ctx.count("writeDefault=%s" % d["wd"])
                ctx.count("subtable=%s" % subtable_shape(d["subtable"]))
        binders = {}
        for k, ds in enumerate(c["classes"]):
            for d in ds:
                if "obj" in d:
                    binders.setdefault(d["obj"], []).append((k, d))
        ctx.count("shared-objects=%d" % len(binders))
        for bs in binders.values():
            names = set(d["attr"] for _, d in bs)
            ctx.count("shared-object:%d classes/%s/%s" % (len(bs), "same name" if len(names) == 1 else "different names",
                                                          "no hint" if bs[0][1].get("hint") is None else
                                                          "subscript" if bs[0][1].get("form", 0) == 0 else "annotated by every class"))
            # is there an instance of a class that is NOT the last one to bind the object (its name differs from the last)?
            last_k, last_d = max(bs, key=lambda kd: kd[0])
            if any(c["insts"][op[1]] == k and d["attr"] != last_d["attr"] for op in c["ops"] if op[0] == "setup" for k, d in bs):
                ctx.count("shared-object:instance of an earlier class under another name set up")
        kinds_i = [{d["attr"]: d for d in c["classes"][ci]} for ci in c["insts"]]
        for op in c["ops"]:
            if op[0] == "pyw":
                d = kinds_i[op[1]].get(op[2])
                if d is not None and d["kind"][0] == "float":
                    vs = op[3][1] if op[3][0] in ("list", "tuple") else [op[3]]
                    if any(e[0] == "float" and e[1] >= _FX for e in vs):
                        ctx.count("pyw:float that is a near-neighbour (nextafter, x(1+-1e-12), +0.1+0.2-0.3) of the topic's value")
                    if any(e[0] == "int" for e in vs):
                        ctx.count("pyw:int value on a double topic")
                    elif literal_is_int(d) and any(e[1] % 64 for e in vs):
                        ctx.count("pyw:non-integral float on a double topic whose default literal is an int")
        ctx.count("instances=%d" % len(c["insts"]))
        for i in range(len(c["insts"])):
            ctx.count("owner-class=%s" % (inst_tkind(c, i) or "ordinary"))
        env_counters(ctx, c)
        if is_nontrivial(c, o):
            distinct.add(json.dumps([c["classes"], c["ops"]]).replace(c["tag"], ""))
    SH = 125
    items = [("cases_%d" % k, cases_file(sh)) for k, sh in enumerate(shards(pairs, SH))]
    res = ctx.coq_files_parallel(items)
    hbad = []
    for k, (name, _) in enumerate(items):
        rc, out = res[name]
        lists = parse_eval_lists(out) if rc == 0 else []
        ok = rc == 0 and len(lists) == 2 and lists[0] == [] and lists[1] == []
        ctx.obligation("corr:%s (Model.xrun / Model.grun == implementation, every observation of every history)" % name, ok, out[-1500:])
        if rc == 0 and len(lists) == 2 and (lists[0] or lists[1]):
            plain_ix, env_ix = cases_index(pairs[k * SH:(k + 1) * SH])
            hbad += sorted([k * SH + plain_ix[i] for i in lists[0]] + [k * SH + env_ix[i] for i in lists[1]])
        elif not ok:
            hbad += list(range(k * SH, min(len(pairs), (k + 1) * SH)))
    nobs = sum(len(o) for _, o in pairs)
    ctx.coverage.update({
        "evaluations": len(pairs) + len(grid) * len(passes) + len(fcs) + 1,
        "traces_validated_against_impl": len(pairs),
        "observations_compared": nobs,
        "distinct_nontrivial": len(distinct),
        "rule": "histories: 1-2 generated classes (type(), or the source text of a module exec'd, half of those with "
                "`from __future__ import annotations`) with 1-6 tunables over {bool,int,float,str,bytes,struct x2} x "
                "{scalar,array}, hints in 5 syntactic forms x {evaluated, postponed, quoted, quoted argument}, subtables, writeDefault True/False/absent, inherited and "
                "private tunables; 40% of the float tunables have an INT default literal under a float hint (kp: float = tunable(0)), python-side writes of "
                "non-integral floats and of ints to them; in 60% of the histories with 2-3 classes one or two tunable OBJECTS are shared: bound by 2-3 classes, each "
                "under its own attribute name (20% the same name), hint as subscript on the object or annotated by every class (the model computes the program: "
                "Model.prog_class); 40% of the classes are hierarchies (chain of 1-3 classes, optional mixin) in which names are REDEFINED: the tunable a class "
                "resolves a name to shadows declarations of the same name in its bases (other default / writeDefault / subtable / type), plain attributes "
                "shadow tunables and vice versa, NT reads at the keys of shadowed definitions; owner classes ordinary / with __len__ / with __bool__ / list subclass (instances created "
                "falsy, truthiness changing inside the history); 1-3 instances under components/autonomous/robot/other prefixes, pre-published topics, "
                "6-27 interleaved PyWrite/PyRead/NtWrite/NtRead/re-Setup/truthiness ops, closing reads; ENVIRONMENT (Model section 13, compared with "
                "Model.grun): 40% of the histories run under the PAUSED HAL clock (tick ops of 0 / 1us / 5-20 ms at 10%; `ntt` ops compare the topics' "
                "timestamps with the model's), in 50% clients stamp 60% of their updates themselves (same as the value the topic holds / now / older = stale), "
                "in 25% one class is a magicbot StateMachine subclass (1-3 states, timed ones with float/int durations, docstrings; tunables of its own), "
                "instances constructed one by one right before their first use in 40-70% of the histories with >= 2 instances (else all up front), in 30% "
                "class attributes are assigned between setups at 7% of the ops (tunable replaced by one of the same topic type with another default / "
                "writeDefault / subtable, tunable added, plain value over a tunable), 80% followed by the setup of an instance of that class; "
                "LOOP CASES (" + str(nloop) + " per run, one robot process each): 1-3 components (1-2 generated classes) of a real MagicRobot built with robotInit(); 3-7 passes "
                "(robot.teleopPeriodic(); robot._enabled_periodic() 80% / robot._do_periodics() 20%) in which the components assign and read their own (75%) and each "
                "other's tunables from inside execute(), a @feedback getter and teleopPeriodic(), interleaved with dashboard writes issued during the same pass through "
                "a separate publisher (22% of the in-pass steps are: dashboard update, [clock step], assignment of the same tunable, read) and between passes, "
                "pre-published values, paused clock 50%, client timestamps same/now 20%; "
                "non-trivial = >=2 setups and "
                "all four of PyWrite, PyRead, NtWrite, NtRead occur; distinct up to the per-case name tag",
        "exhaustive": False,
        "exhaustive_parts": ["type grid: all %d points of Model.grid_decls (159 defaults x (no hint + 237 hints))%s"
                             % (len(grid), " (point i written in spelling i mod %d)" % len(GRID_COMBOS) if quick
                                else " in each of the %d spellings (form x how the annotation is stored)" % len(GRID_COMBOS)),
                             "feedback: all %d method-name shapes x %d explicit-key choices; every annotation of the grid"
                             % (len(FB_NAMES), len(FB_EXPLICIT))],
        "corpus_cases": ncorpus,
        "samples": [{"ops": c["ops"][:6], "observations": o[:6]} for c, o in pairs[ncorpus:ncorpus + 3]],
    })

    def violation_of(c):
        return violation_of_loop_case(ctx.work, c) if c.get("robot") else violation_of_case(mt, c)

    def search():
        found = []
        # 1. the disagreeing cases themselves
        first, later = [], []
        for i in hbad[:40]:
            v0 = oracle_case(pairs[i][0], pairs[i][1])
            if v0 is not None:
                (later if v0["fingerprint"] == "c09-topic-outside-documented-keys" else first).append(i)
        for i in first + later:
            v = violation_of(pairs[i][0])
            if v:
                return [v]
        for pi, i in gbad[:200]:
            v = grid_violation(pi, i)
            if v:
                return [v]
        for i in fbad[:200]:
            v = oracle_fcase(fcs[i], fobs[i])
            if v:
                return [v]
        if rob is None:
            return [{"kind": "robot", "fingerprint": "c09-magicrobot-binding",
                     "what": "a real MagicRobot with two components of one class, a container-like (empty, falsy) component, an autonomous mode and robot-level "
                             "tunables (one quoted and one postponed type hint among them) does not come up: %s" % rlog[-400:]}]
        if rob is not None and not rob_ok:
            got = {k: ts for k, ts in rob["topics"]}
            if got != ROBOT_DOC or not robot_values_ok(rob):
                return [{"kind": "robot", "fingerprint": "c09-magicrobot-binding",
                         "what": "a real MagicRobot publishes its tunables as %s (left.gain=%r right.gain=%r after "
                                 "left.gain=9; empty container-like component hopper: cap reads %s after hopper.cap=6; "
                                 "left/right kf (`kf: float = tunable(0)`) read %s after left.kf=0.75; the shared preset PRESET = tunable(0.25) "
                                 "bound as Comp.kp / Hopper.hop_kp / R.drive_kp reads %s after left.kp=0.5); documented: %s"
                                 % (json.dumps(got), rob["left"], rob["right"], rob.get("hopper"), rob.get("kf"), rob.get("kp"),
                                    json.dumps(ROBOT_DOC))}]
        # 2. everything recorded in this run, then a bigger batch
        for c, o in pairs:
            if oracle_case(c, o) is not None:
                v = violation_of(c)
                if v:
                    return [v]
        for pi, observed in enumerate(gobs_all):
            for i in range(len(observed)):
                v = grid_violation(pi, i)
                if v:
                    return [v]
        for fc, o in zip(fcs, fobs):
            v = oracle_fcase(fc, o)
            if v:
                return [v]
        import time
        t0 = time.time()
        k = 0
        while k < 10 * n and time.time() - t0 < 120:
            k += 1
            c = gen_case(ctx.rng, fresh_tag())
            if oracle_case(c, exec_case(mt, c)) is not None:
                v = violation_of_case(mt, c)
                if v:
                    return [v]
            if k % 400 == 0:
                more = [gen_loop_case(ctx.rng, fresh_tag()) for _ in range(16)]
                for c2, o2 in zip(more, exec_loop_cases(ctx.work, more)):
                    if oracle_case(c2, o2) is not None:
                        v = violation_of_loop_case(ctx.work, c2)
                        if v:
                            return [v]
        return found

    return ctx.finish(search=search)


def replay(ctx, obj):
    init_clock()
    mt = impl()
    kind = obj.get("kind")
    if kind == "input" and "case" in obj:
        c = refresh_case(retag(obj["case"], fresh_tag()))
        for line in shared_defs(c):
            print("%s      # ONE tunable object, bound by several classes below" % line)
        if is_env(c):
            print("# %s" % describe_env(c).split(": ")[0])
        for k, ds in enumerate(c["classes"]):
            es = case_eff_src(c, k)
            tk = case_tkind(c, k)
            if es:
                text, env = class_source(ds, "Cls%d" % k, c["split"][k], es, tk, case_hier(c, k), sm=case_sm(c, k))
                print(text + "".join("# %s = %r\n" % kv for kv in sorted(env.items())))
            elif case_hier(c, k) is not None:
                print("Cls%d = type(...) hierarchy%s: %s" % (k, "" if tk is None else " [%s; instances are created falsy]" % (
                    {"len": "defines __len__", "bool": "defines __bool__", "list": "subclass of list"}[tk]),
                    describe_hier(case_hier(c, k), "Cls%d" % k, 0)))
                print("  resolves to: %s" % "; ".join(describe_member(d, 0) for d in ds))
            else:
                print("Cls%d = type(...)%s: %s" % (k, "" if tk is None else " [%s; instances are created falsy]" % (
                    {"len": "defines __len__", "bool": "defines __bool__", "list": "subclass of list"}[tk]),
                    "; ".join(describe_member(d, 0) for d in ds)))
        if c.get("robot"):
            print("# a real MagicRobot (own process) with the components %s; pass p = robot.teleopPeriodic(); robot._enabled_periodic()"
                  " (\"enabled\") resp. robot._do_periodics() (\"periodics\"): %s" % (
                      ", ".join("%s: Cls%d" % (nm, k) for nm, k in zip(c["names"], c["insts"])), json.dumps(c["passes"])))
            o = exec_loop_case(ctx.work, c, 97)
            for op, w, ob in zip(c["ops"], c["where"], o):
                print("  %-70s %-62s -> %s" % (describe_op(op)[:120], describe_where(w), json.dumps(ob)[:120]))
        else:
            o = exec_case(mt, c)
            for op, ob in zip(c["ops"], o):
                print("  %-90s -> %s" % (describe_op(op)[:140], json.dumps(ob)[:120]))
        v = oracle_case(c, o)
        if v is not None:
            print("fails: %s" % v["what"])
            print("VIOLATION property=%s replay=(replayed)" % ctx.pid)
            return 1
        print("the history satisfies C09 on this tree")
        return 0
    if kind == "grid":
        decl, src = grid_decl(obj["default"], obj["hint"], obj.get("form", 0), obj.get("flavor", 0), obj.get("ann", 0))
        if eff_src([decl], src):
            text, env = class_source([decl], "Grid0", 0, eff_src([decl], src))
            print(text + "".join("# %s = %r\n" % kv for kv in sorted(env.items())))
        g = grid_observe(mt, 0, obj["default"], obj["hint"], obj.get("form", 0), obj.get("flavor", 0), obj.get("ann", 0))
        r = oracle_grid(obj["default"], obj["hint"], g)
        print("tunable(%s) hint %s -> %s" % (json.dumps(obj["default"]), json.dumps(obj["hint"]), g))
        if r:
            print("fails: %s" % r[1])
            print("VIOLATION property=%s replay=(replayed)" % ctx.pid)
            return 1
        return 0
    if kind == "feedback":
        fc = dict(obj["fcase"])
        fc["cname"] = fc["cname"] + "r"
        o = exec_fcase(mt, fc)
        print("%s -> %s" % (json.dumps(fc), json.dumps(o)))
        v = oracle_fcase(fc, o)
        if v:
            print("fails: %s" % v["what"])
            print("VIOLATION property=%s replay=(replayed)" % ctx.pid)
            return 1
        return 0
    if kind == "robot":
        rob, log = run_robot(ctx.work)
        print(json.dumps(rob))
        if rob is None or {k: ts for k, ts in rob["topics"]} != ROBOT_DOC or not robot_values_ok(rob):
            print("VIOLATION property=%s replay=(replayed)" % ctx.pid)
            return 1
        return 0
    print("replay names broken obligations only: %s" % [b["name"] if isinstance(b, dict) else b
                                                        for b in obj.get("broken_obligations", [])])
    return run(ctx)
