"""C09: tunables are per-instance NetworkTables values at the documented key.

Tie to the source (magicbot/magic_tunable.py as it is in $VERIF_REPO now):
  * type grid, EXHAUSTIVE over the model's own enumeration Model.grid_decls
    (159 defaults x (no hint + 237 hints) = 37842 class statements): the class
    is created with type(), bound when the default fits, and the type string
    read back from NetworkTables is compared with decl_topic inside Coq;
  * histories: generated classes (1-6 tunables over the whole bindable grid,
    subtables, writeDefault both ways, inherited tunables, a private one), 1-3
    instances under all owner kinds, pre-published topics, random
    interleavings of attribute writes/reads with writes/reads of an
    INDEPENDENT publisher/subscriber on the same NT instance, re-binding;
    every observation is compared with Model.run inside Coq;
  * MagicRobot binds components / autonomous modes / itself (one real robot in a
    subprocess), keys compared with Model.owner_key inside Coq;
  * @feedback key/type derivation (reused by C11): feedback_key_cases(ctx).
"""
import importlib
import json
import os
import struct
import subprocess
import sys

from .common import coq_Z, coq_N, coq_nat, coq_bool, coq_list, coq_opt, coq_string, shards, parse_eval_lists, REPO

# ---------------------------------------------------------------------------
# portable values ("pv"): JSON-able, canonical
#   scalars: ["bool",b] ["int",z] ["float",n64] ["str",s] ["bytes",[..]] ["struct",name,[n64..]] ["other"]
#   containers: ["list",[scalar..]] ["tuple",[scalar..]]
# ---------------------------------------------------------------------------
BASES = ["bool", "int", "float", "str", "bytes", "T2", "T3", "other"]
STRUCT_NAME = {"T2": "Translation2d", "T3": "Translation3d"}
STRUCT_ARITY = {"Translation2d": 2, "Translation3d": 3}


def _geom():
    from wpimath import geometry
    return geometry


def struct_cls(name):
    g = _geom()
    return {"Translation2d": g.Translation2d, "Translation3d": g.Translation3d}[name]


def scalar_to_py(s):
    k = s[0]
    if k == "bool":
        return bool(s[1])
    if k == "int":
        return int(s[1])
    if k == "float":
        return s[1] / 64.0
    if k == "str":
        return s[1]
    if k == "bytes":
        return bytes(s[1])
    if k == "struct":
        return struct_cls(s[1])(*[x / 64.0 for x in s[2]])
    return None


def to_py(pv):
    if pv[0] == "list":
        return [scalar_to_py(x) for x in pv[1]]
    if pv[0] == "tuple":
        return tuple(scalar_to_py(x) for x in pv[1])
    return scalar_to_py(pv)


def scalar_to_coq(s):
    k = s[0]
    if k == "bool":
        return "(SBool %s)" % coq_bool(s[1])
    if k == "int":
        return "(SInt %s)" % coq_Z(s[1])
    if k == "float":
        return "(SFloat %s)" % coq_Z(s[1])
    if k == "str":
        return "(SStr %s)" % coq_string(s[1])
    if k == "bytes":
        return "(SBytes %s)" % coq_list([coq_N(x) for x in s[1]])
    if k == "struct":
        return "(SStruct %s %s)" % (coq_string(s[1]), coq_list([coq_Z(x) for x in s[2]]))
    return "SOther"


def to_coq(pv):
    if pv[0] == "list":
        return "(VList %s)" % coq_list([scalar_to_coq(x) for x in pv[1]])
    if pv[0] == "tuple":
        return "(VTuple %s)" % coq_list([scalar_to_coq(x) for x in pv[1]])
    return "(VScalar %s)" % scalar_to_coq(pv)


def canon(pv):
    return ["list", pv[1]] if pv[0] == "tuple" else pv


def _f64(x):
    x = float(x)
    n = x * 64.0
    if n != int(n) or abs(n) > 2 ** 62:
        raise ValueError("not dyadic/64: %r" % x)
    return int(n)


def scalar_from_py(x, base):
    """canonicalise a Python object read from an entry of element type `base`."""
    if base == "bool":
        if isinstance(x, bool) or x in (0, 1):
            return ["bool", bool(x)]
    elif base == "int":
        if isinstance(x, int) and not isinstance(x, bool):
            return ["int", int(x)]
    elif base == "float":
        if isinstance(x, float):
            return ["float", _f64(x)]
    elif base == "str":
        if isinstance(x, str) and all(32 <= ord(c) < 127 for c in x):
            return ["str", x]
    elif base == "bytes":
        if isinstance(x, (bytes, bytearray)):
            return ["bytes", list(x)]
    elif base in ("T2", "T3"):
        cls = struct_cls(STRUCT_NAME[base])
        if isinstance(x, cls):
            f = [x.x, x.y] if base == "T2" else [x.x, x.y, x.z]
            return ["struct", STRUCT_NAME[base], [_f64(v) for v in f]]
    raise ValueError("cannot canonicalise %r as %s" % (x, base))


def from_py(x, base, arr):
    if arr:
        if not isinstance(x, (list, tuple)):
            raise ValueError("not an array: %r" % (x,))
        return ["list", [scalar_from_py(e, base) for e in x]]
    return scalar_from_py(x, base)


# ---- type strings -----------------------------------------------------------
SCALAR_TS = {"bool": "boolean", "int": "int", "float": "double", "str": "string", "bytes": "raw",
             "T2": "struct:Translation2d", "T3": "struct:Translation3d"}
ARRAY_TS = {"bool": "boolean[]", "int": "int[]", "float": "double[]", "str": "string[]",
            "T2": "struct:Translation2d[]", "T3": "struct:Translation3d[]"}
TS_KIND = {}
for _b, _s in SCALAR_TS.items():
    TS_KIND[_s] = (_b, False)
for _b, _s in ARRAY_TS.items():
    TS_KIND[_s] = (_b, True)

NTYPE_COQ = {"boolean": "NBoolean", "int": "NInteger", "double": "NDouble", "string": "NString", "raw": "NRaw",
             "struct:Translation2d": '(NStruct "Translation2d")', "struct:Translation3d": '(NStruct "Translation3d")',
             "boolean[]": "NBooleanArr", "int[]": "NIntegerArr", "double[]": "NDoubleArr", "string[]": "NStringArr",
             "struct:Translation2d[]": '(NStructArr "Translation2d")', "struct:Translation3d[]": '(NStructArr "Translation3d")'}


def base_of_scalar(s):
    if s[0] == "struct":
        return "T2" if s[1] == "Translation2d" else "T3"
    return s[0]


def fits(pv, ts):
    """does the (python form of the) value fit a topic of type string ts exactly?"""
    if ts not in TS_KIND:
        return False
    base, arr = TS_KIND[ts]
    if arr:
        return pv[0] in ("list", "tuple") and all(base_of_scalar(e) == base for e in pv[1])
    return pv[0] not in ("list", "tuple") and base_of_scalar(pv) == base


# ---- type expressions (hints) ----------------------------------------------
#   ["base", b] | ["bare", o] | ["gen", o, [arg..]]  arg: base name or "..."
def base_pytype(b):
    if b in ("T2", "T3"):
        return struct_cls(STRUCT_NAME[b])
    return {"bool": bool, "int": int, "float": float, "str": str, "bytes": bytes, "other": complex}[b]


def hint_to_py(h, flavor=0):
    """flavor 1 prefers typing.List/Tuple/Sequence where typing accepts the form."""
    import typing
    import collections.abc
    if h[0] == "base":
        return base_pytype(h[1])
    if h[0] == "bare":
        return {"list": list, "tuple": tuple, "seq": collections.abc.Sequence}[h[1]]
    o, args = h[1], h[2]
    pargs = tuple(Ellipsis if a == "..." else base_pytype(a) for a in args)
    if not args:
        return typing.List if o == "list" else tuple[()]
    if flavor == 1:
        try:
            if o == "list" and len(pargs) == 1:
                return typing.List[pargs[0]]
            if o == "tuple":
                return typing.Tuple[pargs if len(pargs) > 1 else pargs[0]]
            if o == "seq" and len(pargs) == 1:
                return typing.Sequence[pargs[0]]
        except TypeError:
            pass
    if o == "list":
        return list[pargs if len(pargs) > 1 else pargs[0]]
    if o == "tuple":
        return tuple[pargs if len(pargs) > 1 else pargs[0]]
    return collections.abc.Sequence[pargs[0]]


BASE_COQ = {"bool": "BBool", "int": "BInt", "float": "BFloat", "str": "BStr", "bytes": "BBytes",
            "T2": '(BStruct "Translation2d")', "T3": '(BStruct "Translation3d")', "other": "BOther"}
ORIGIN_COQ = {"list": "OList", "tuple": "OTuple", "seq": "OSeq"}


def hint_to_coq(h):
    if h[0] == "base":
        return "(TBase %s)" % BASE_COQ[h[1]]
    if h[0] == "bare":
        return "(TBare %s)" % ORIGIN_COQ[h[1]]
    return "(TGen %s %s)" % (ORIGIN_COQ[h[1]],
                             coq_list(["AEllipsis" if a == "..." else "(ABase %s)" % BASE_COQ[a] for a in h[2]]))


# ---- the model's grid, re-enumerated in the same order as Model.grid_decls ---
def sample_scalars(b):
    return {"bool": [["bool", True], ["bool", False]], "int": [["int", 3], ["int", 0]],
            "float": [["float", 96], ["float", 0]], "str": [["str", "ab"], ["str", ""]],
            "bytes": [["bytes", [120]], ["bytes", []]], "T2": [["struct", "Translation2d", [64, 128]]],
            "T3": [["struct", "Translation3d", [64, 128]]], "other": [["other"]]}[b]


def grid_defaults():
    out = []
    for b in BASES:
        out += sample_scalars(b)
    out += [["list", []], ["tuple", []]]
    for b in BASES:
        s = sample_scalars(b)[0]
        out += [["list", [s]], ["list", [s, s]], ["tuple", [s]], ["tuple", [s, s]]]
    for b in BASES:
        for c in BASES:
            if b != c:
                out += [["list", [sample_scalars(b)[0], sample_scalars(c)[0]]],
                        ["tuple", [sample_scalars(b)[0], sample_scalars(c)[0]]]]
    return out


def grid_hints():
    out = [["base", b] for b in BASES]
    out += [["bare", "list"], ["bare", "tuple"], ["bare", "seq"], ["gen", "tuple", []], ["gen", "list", []]]
    for b in BASES:
        out += [["gen", "list", [b]], ["gen", "seq", [b]], ["gen", "tuple", [b]], ["gen", "tuple", [b, "..."]],
                ["gen", "tuple", [b, b]], ["gen", "tuple", [b, b, b]], ["gen", "tuple", ["...", b]]]
    for b in BASES:
        for c in BASES:
            if b != c:
                out += [["gen", "tuple", [b, c]], ["gen", "list", [b, c]], ["gen", "tuple", [b, c, "..."]]]
    return out


def grid_decls():
    hs = grid_hints()
    out = []
    for d in grid_defaults():
        out.append((d, None))
        out += [(d, h) for h in hs]
    return out


# ---------------------------------------------------------------------------
# driving the implementation
# ---------------------------------------------------------------------------
def impl():
    """the implementation module from $VERIF_REPO (fresh import per run)."""
    return importlib.import_module("magicbot.magic_tunable")


def nt_inst():
    import ntcore
    return ntcore.NetworkTableInstance.getDefault()


def make_class(mt, decls, name="Gen", split=0):
    """a class with the tunables `decls` (dict: attr default hint form flavor subtable wd);
    the first `split` of them live on a base class (dir(cls) must find them)."""
    import typing

    def ns_of(ds):
        ns, ann = {}, {}
        for d in ds:
            kw = {}
            if d.get("wd") is not None:
                kw["writeDefault"] = d["wd"]
            if d.get("subtable") is not None:
                kw["subtable"] = d["subtable"]
            default = to_py(d["default"])
            h = d.get("hint")
            if h is None:
                ns[d["attr"]] = mt.tunable(default, **kw)
                continue
            ph = hint_to_py(h, d.get("flavor", 0))
            form = d.get("form", 0)
            if form == 0:
                ns[d["attr"]] = mt.tunable[ph](default, **kw)
            else:
                ns[d["attr"]] = mt.tunable(default, **kw)
                ann[d["attr"]] = (typing.ClassVar[mt.tunable[ph]] if form == 1 else
                                  mt.tunable[ph] if form == 2 else ph)
        if ann:
            ns["__annotations__"] = ann
        return ns

    bases = (object,)
    if split:
        bases = (type(name + "Base", (object,), ns_of(decls[:split])),)
    return type(name, bases, ns_of(decls[split:]))


def doc_key(prefix, cname, subtable, attr):
    """the DOCUMENTED key (harness side, used to address topics independently)."""
    p = "/%s" % cname if prefix is None else "/%s/%s" % (prefix, cname)
    if subtable:
        return "%s/%s/%s" % (p, subtable, attr)
    return "%s/%s" % (p, attr)


def nt_read(key):
    """independent generic subscriber: None or [type string, pv]."""
    inst = nt_inst()
    t = inst.getTopic(key)
    ts = t.getTypeString()
    if not t.exists() or ts == "":
        return None
    sub = t.genericSubscribe()
    v = sub.get()
    if not v.isValid():
        return [ts, ["other"]]
    raw = v.value()
    if ts not in TS_KIND:
        return [ts, ["other"]]
    base, arr = TS_KIND[ts]
    try:
        if base in ("T2", "T3"):
            n = STRUCT_ARITY[STRUCT_NAME[base]]
            raw = bytes(raw)
            if len(raw) % (8 * n):
                raise ValueError("struct size")
            items = [["struct", STRUCT_NAME[base], [_f64(x) for x in struct.unpack_from("<%dd" % n, raw, o)]]
                     for o in range(0, len(raw), 8 * n)]
            if arr:
                return [ts, ["list", items]]
            if len(items) != 1:
                raise ValueError("struct count")
            return [ts, items[0]]
        return [ts, from_py(raw, base, arr)]
    except ValueError:
        return [ts, ["other"]]


class NtWriter:
    """independent publishers on the same NT instance, kept alive by the caller."""

    def __init__(self):
        self.pubs = {}

    def write(self, key, ts, pv):
        import ntcore
        inst = nt_inst()
        base, arr = TS_KIND[ts]
        k = (key, ts)
        if base in ("T2", "T3"):
            cls = struct_cls(STRUCT_NAME[base])
            if k not in self.pubs:
                self.pubs[k] = (inst.getStructArrayTopic(key, cls) if arr else inst.getStructTopic(key, cls)).publish()
            self.pubs[k].set(to_py(canon(pv)))
            return
        if k not in self.pubs:
            self.pubs[k] = inst.getTopic(key).genericPublish(ts)
        V = ntcore.Value
        mk = {("bool", False): V.makeBoolean, ("int", False): V.makeInteger, ("float", False): V.makeDouble,
              ("str", False): V.makeString, ("bytes", False): V.makeRaw,
              ("bool", True): V.makeBooleanArray, ("int", True): V.makeIntegerArray,
              ("float", True): V.makeDoubleArray, ("str", True): V.makeStringArray}[(base, arr)]
        self.pubs[k].set(mk(to_py(canon(pv))))


# ---- the grid ---------------------------------------------------------------
def grid_observe(mt, idx, d, h, form, flavor):
    """GRaise | GCreated | GBound <type string read back from NT>"""
    decl = {"attr": "x", "default": d, "hint": h, "form": form, "flavor": flavor}
    try:
        cls = make_class(mt, [decl], "Grid%d" % idx)
    except Exception as e:
        return ["raise", type(e).__name__]
    # which topic does the documented table promise?  bind only when the default fits it
    ts = doc_topic(d, h)
    if ts is None or not fits(d, ts):
        return ["created"]
    cname = "g%d_%d" % (idx, form)
    obj = cls()
    try:
        mt.setup_tunables(obj, cname)
    except Exception as e:
        return ["setupraise", type(e).__name__]
    r = nt_read("/components/%s/x" % cname)
    if r is None:
        return ["bound", ""]
    return ["bound", r[0]]


def gobs_to_coq(g):
    if g[0] == "raise":
        return "GRaise"
    if g[0] == "created":
        return "GCreated"
    if g[0] == "bound":
        return "(GBound %s)" % coq_string(g[1])
    return '(GBound "setup raised")'


# ---- the documented table (oracle side, written from the property text) ------
def doc_array(b):
    return ARRAY_TS.get(b)


def doc_hint(h):
    if h[0] == "base":
        return SCALAR_TS.get(h[1])
    if h[0] == "bare" or not h[2]:
        return None
    o, args = h[1], h[2]
    if args[0] == "...":
        return None
    if o == "tuple":
        homog = all(a == args[0] for a in args)
        ellip = len(args) == 2 and args[1] == "..."
        if not (homog or ellip):
            return None
    return doc_array(args[0])


def doc_topic(d, h):
    """type string promised for default d and hint h, None = not supported."""
    # the default itself must be publishable unless it is an empty sequence
    if d[0] in ("list", "tuple"):
        if d[1] and doc_array(base_of_scalar(d[1][0])) is None:
            return None
    elif d[0] == "other":
        return None
    if h is not None:
        return doc_hint(h)
    if d[0] in ("list", "tuple"):
        return doc_array(base_of_scalar(d[1][0])) if d[1] else None
    return SCALAR_TS.get(base_of_scalar(d))
