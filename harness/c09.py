"""C09: tunables are per-instance NetworkTables values at the documented key.

Tie to the source (magicbot/magic_tunable.py as it is in $VERIF_REPO now):
  * type grid, EXHAUSTIVE over the model's own enumeration Model.grid_decls
    (159 defaults x (no hint + 237 hints) = 37842 class statements): the class
    is created with type(), bound when the default fits, and the type string
    read back from NetworkTables is compared with decl_topic inside Coq;
  * histories: generated classes (1-6 tunables over the whole bindable grid,
    subtables, writeDefault both ways, inherited tunables, a private one), 1-3
    instances under all owner kinds, pre-published topics, random
    interleavings of attribute writes/reads with writes/reads of an
    INDEPENDENT publisher/subscriber on the same NT instance, re-binding;
    every observation is compared with Model.run inside Coq;
  * MagicRobot binds components / autonomous modes / itself (one real robot in a
    subprocess), keys compared with Model.owner_key inside Coq;
  * @feedback key/type derivation (reused by C11): feedback_key_cases(ctx).
"""
import importlib
import json
import os
import struct
import subprocess
import sys

from .common import coq_Z, coq_N, coq_nat, coq_bool, coq_list, coq_opt, coq_string, shards, parse_eval_lists, REPO

# string literals are the expensive part of elaborating a cases file: every distinct string of a
# file is defined once (Definition sN := "...") and referred to by name
class StrTab:
    def __init__(self):
        self.names = {}

    def name(self, s):
        if s not in self.names:
            self.names[s] = "s%d" % len(self.names)
        return self.names[s]

    def defs(self):
        return "".join("Definition %s : string := %s.\n" % (n, coq_string(s)) for s, n in self.names.items())


_STRTAB = None


def cs(s):
    """Coq term for the string s (interned when a table is active)."""
    return _STRTAB.name(s) if _STRTAB is not None else coq_string(s)


# ---------------------------------------------------------------------------
# portable values ("pv"): JSON-able, canonical
#   scalars: ["bool",b] ["int",z] ["float",n64] ["str",s] ["bytes",[..]] ["struct",name,[n64..]] ["other"]
#   containers: ["list",[scalar..]] ["tuple",[scalar..]]
# ---------------------------------------------------------------------------
BASES = ["bool", "int", "float", "str", "bytes", "T2", "T3", "other"]
STRUCT_NAME = {"T2": "Translation2d", "T3": "Translation3d"}
STRUCT_ARITY = {"Translation2d": 2, "Translation3d": 3}


def _geom():
    from wpimath import geometry
    return geometry


def struct_cls(name):
    g = _geom()
    return {"Translation2d": g.Translation2d, "Translation3d": g.Translation3d}[name]


def scalar_to_py(s):
    k = s[0]
    if k == "bool":
        return bool(s[1])
    if k == "int":
        return int(s[1])
    if k == "float":
        return s[1] / 64.0
    if k == "str":
        return s[1]
    if k == "bytes":
        return bytes(s[1])
    if k == "struct":
        f = list(s[2]) + [0] * (STRUCT_ARITY[s[1]] - len(s[2]))   # the grid's sample struct has two fields
        return struct_cls(s[1])(*[x / 64.0 for x in f])
    return None


def to_py(pv):
    if pv[0] == "list":
        return [scalar_to_py(x) for x in pv[1]]
    if pv[0] == "tuple":
        return tuple(scalar_to_py(x) for x in pv[1])
    return scalar_to_py(pv)


def scalar_to_coq(s):
    k = s[0]
    if k == "bool":
        return "(SBool %s)" % coq_bool(s[1])
    if k == "int":
        return "(SInt %s)" % coq_Z(s[1])
    if k == "float":
        return "(SFloat %s)" % coq_Z(s[1])
    if k == "str":
        return "(SStr %s)" % cs(s[1])
    if k == "bytes":
        return "(SBytes %s)" % coq_list([coq_N(x) for x in s[1]])
    if k == "struct":
        return "(SStruct %s %s)" % (cs(s[1]), coq_list([coq_Z(x) for x in s[2]]))
    return "SOther"


def to_coq(pv):
    if pv[0] == "list":
        return "(VList %s)" % coq_list([scalar_to_coq(x) for x in pv[1]])
    if pv[0] == "tuple":
        return "(VTuple %s)" % coq_list([scalar_to_coq(x) for x in pv[1]])
    return "(VScalar %s)" % scalar_to_coq(pv)


def canon(pv):
    return ["list", pv[1]] if pv[0] == "tuple" else pv


def _f64(x):
    x = float(x)
    n = x * 64.0
    if n != int(n) or abs(n) > 2 ** 62:
        raise ValueError("not dyadic/64: %r" % x)
    return int(n)


def scalar_from_py(x, base):
    """canonicalise a Python object read from an entry of element type `base`."""
    if base == "bool":
        if isinstance(x, bool) or x in (0, 1):
            return ["bool", bool(x)]
    elif base == "int":
        if isinstance(x, int) and not isinstance(x, bool):
            return ["int", int(x)]
    elif base == "float":
        if isinstance(x, float):
            return ["float", _f64(x)]
    elif base == "str":
        if isinstance(x, str) and all(32 <= ord(c) < 127 for c in x):
            return ["str", x]
    elif base == "bytes":
        if isinstance(x, (bytes, bytearray)):
            return ["bytes", list(x)]
    elif base in ("T2", "T3"):
        cls = struct_cls(STRUCT_NAME[base])
        if isinstance(x, cls):
            f = [x.x, x.y] if base == "T2" else [x.x, x.y, x.z]
            return ["struct", STRUCT_NAME[base], [_f64(v) for v in f]]
    raise ValueError("cannot canonicalise %r as %s" % (x, base))


def from_py(x, base, arr):
    if arr:
        if not isinstance(x, (list, tuple)):
            raise ValueError("not an array: %r" % (x,))
        return ["list", [scalar_from_py(e, base) for e in x]]
    return scalar_from_py(x, base)


# ---- type strings -----------------------------------------------------------
SCALAR_TS = {"bool": "boolean", "int": "int", "float": "double", "str": "string", "bytes": "raw",
             "T2": "struct:Translation2d", "T3": "struct:Translation3d"}
ARRAY_TS = {"bool": "boolean[]", "int": "int[]", "float": "double[]", "str": "string[]",
            "T2": "struct:Translation2d[]", "T3": "struct:Translation3d[]"}
TS_KIND = {}
for _b, _s in SCALAR_TS.items():
    TS_KIND[_s] = (_b, False)
for _b, _s in ARRAY_TS.items():
    TS_KIND[_s] = (_b, True)

NTYPE_COQ = {"boolean": "NBoolean", "int": "NInteger", "double": "NDouble", "string": "NString", "raw": "NRaw",
             "struct:Translation2d": '(NStruct "Translation2d")', "struct:Translation3d": '(NStruct "Translation3d")',
             "boolean[]": "NBooleanArr", "int[]": "NIntegerArr", "double[]": "NDoubleArr", "string[]": "NStringArr",
             "struct:Translation2d[]": '(NStructArr "Translation2d")', "struct:Translation3d[]": '(NStructArr "Translation3d")'}


def base_of_scalar(s):
    if s[0] == "struct":
        return "T2" if s[1] == "Translation2d" else "T3"
    return s[0]


def fits(pv, ts):
    """does the (python form of the) value fit a topic of type string ts exactly?"""
    if ts not in TS_KIND:
        return False
    base, arr = TS_KIND[ts]
    if arr:
        return pv[0] in ("list", "tuple") and all(base_of_scalar(e) == base for e in pv[1])
    return pv[0] not in ("list", "tuple") and base_of_scalar(pv) == base


# ---- type expressions (hints) ----------------------------------------------
#   ["base", b] | ["bare", o] | ["gen", o, [arg..]]  arg: base name or "..."
def base_pytype(b):
    if b in ("T2", "T3"):
        return struct_cls(STRUCT_NAME[b])
    return {"bool": bool, "int": int, "float": float, "str": str, "bytes": bytes, "other": complex}[b]


def hint_to_py(h, flavor=0):
    """flavor 1 prefers typing.List/Tuple/Sequence where typing accepts the form."""
    import typing
    import collections.abc
    if h[0] == "base":
        return base_pytype(h[1])
    if h[0] == "bare":
        return {"list": list, "tuple": tuple, "seq": collections.abc.Sequence}[h[1]]
    o, args = h[1], h[2]
    pargs = tuple(Ellipsis if a == "..." else base_pytype(a) for a in args)
    if not args:
        return typing.List if o == "list" else tuple[()]
    if flavor == 1:
        try:
            if o == "list" and len(pargs) == 1:
                return typing.List[pargs[0]]
            if o == "tuple":
                return typing.Tuple[pargs if len(pargs) > 1 else pargs[0]]
            if o == "seq" and len(pargs) == 1:
                return typing.Sequence[pargs[0]]
        except TypeError:
            pass
    if o == "list":
        return list[pargs if len(pargs) > 1 else pargs[0]]
    if o == "tuple":
        return tuple[pargs if len(pargs) > 1 else pargs[0]]
    return collections.abc.Sequence[pargs[0]]


BASE_COQ = {"bool": "BBool", "int": "BInt", "float": "BFloat", "str": "BStr", "bytes": "BBytes",
            "T2": '(BStruct "Translation2d")', "T3": '(BStruct "Translation3d")', "other": "BOther"}
ORIGIN_COQ = {"list": "OList", "tuple": "OTuple", "seq": "OSeq"}


def hint_to_coq(h):
    if h[0] == "base":
        return "(TBase %s)" % BASE_COQ[h[1]]
    if h[0] == "bare":
        return "(TBare %s)" % ORIGIN_COQ[h[1]]
    return "(TGen %s %s)" % (ORIGIN_COQ[h[1]],
                             coq_list(["AEllipsis" if a == "..." else "(ABase %s)" % BASE_COQ[a] for a in h[2]]))


# ---- the model's grid, re-enumerated in the same order as Model.grid_decls ---
def sample_scalars(b):
    return {"bool": [["bool", True], ["bool", False]], "int": [["int", 3], ["int", 0]],
            "float": [["float", 96], ["float", 0]], "str": [["str", "ab"], ["str", ""]],
            "bytes": [["bytes", [120]], ["bytes", []]], "T2": [["struct", "Translation2d", [64, 128]]],
            "T3": [["struct", "Translation3d", [64, 128]]], "other": [["other"]]}[b]


def grid_defaults():
    out = []
    for b in BASES:
        out += sample_scalars(b)
    out += [["list", []], ["tuple", []]]
    for b in BASES:
        s = sample_scalars(b)[0]
        out += [["list", [s]], ["list", [s, s]], ["tuple", [s]], ["tuple", [s, s]]]
    for b in BASES:
        for c in BASES:
            if b != c:
                out += [["list", [sample_scalars(b)[0], sample_scalars(c)[0]]],
                        ["tuple", [sample_scalars(b)[0], sample_scalars(c)[0]]]]
    return out


def grid_hints():
    out = [["base", b] for b in BASES]
    out += [["bare", "list"], ["bare", "tuple"], ["bare", "seq"], ["gen", "tuple", []], ["gen", "list", []]]
    for b in BASES:
        out += [["gen", "list", [b]], ["gen", "seq", [b]], ["gen", "tuple", [b]], ["gen", "tuple", [b, "..."]],
                ["gen", "tuple", [b, b]], ["gen", "tuple", [b, b, b]], ["gen", "tuple", ["...", b]]]
    for b in BASES:
        for c in BASES:
            if b != c:
                out += [["gen", "tuple", [b, c]], ["gen", "list", [b, c]], ["gen", "tuple", [b, c, "..."]]]
    return out


def grid_decls():
    hs = grid_hints()
    out = []
    for d in grid_defaults():
        out.append((d, None))
        out += [(d, h) for h in hs]
    return out


# ---------------------------------------------------------------------------
# driving the implementation
# ---------------------------------------------------------------------------
def impl():
    """the implementation module from $VERIF_REPO (fresh import per run)."""
    return importlib.import_module("magicbot.magic_tunable")


def nt_inst():
    import ntcore
    return ntcore.NetworkTableInstance.getDefault()


def make_class(mt, decls, name="Gen", split=0):
    """a class with the tunables `decls` (dict: attr default hint form flavor subtable wd);
    the first `split` of them live on a base class (dir(cls) must find them)."""
    import typing

    def ns_of(ds):
        ns, ann = {}, {}
        for d in ds:
            kw = {}
            if d.get("wd") is not None:
                kw["writeDefault"] = d["wd"]
            if d.get("subtable") is not None:
                kw["subtable"] = d["subtable"]
            default = to_py(d["default"])
            h = d.get("hint")
            if h is None:
                ns[d["attr"]] = mt.tunable(default, **kw)
                continue
            ph = hint_to_py(h, d.get("flavor", 0))
            form = d.get("form", 0)
            if form == 0:
                ns[d["attr"]] = mt.tunable[ph](default, **kw)
            else:
                ns[d["attr"]] = mt.tunable(default, **kw)
                ann[d["attr"]] = (typing.ClassVar[mt.tunable[ph]] if form == 1 else
                                  mt.tunable[ph] if form == 2 else ph)
        if ann:
            ns["__annotations__"] = ann
        return ns

    bases = (object,)
    if split:
        bases = (type(name + "Base", (object,), ns_of(decls[:split])),)
    return type(name, bases, ns_of(decls[split:]))


def doc_key(prefix, cname, subtable, attr):
    """the DOCUMENTED key (harness side, used to address topics independently)."""
    p = "/%s" % cname if prefix is None else "/%s/%s" % (prefix, cname)
    if subtable:
        return "%s/%s/%s" % (p, subtable, attr)
    return "%s/%s" % (p, attr)


def nt_read(key):
    """independent generic subscriber: None or [type string, pv]."""
    inst = nt_inst()
    t = inst.getTopic(key)
    ts = t.getTypeString()
    if not t.exists() or ts == "":
        return None
    sub = t.genericSubscribe()
    v = sub.get()
    if not v.isValid():
        return [ts, ["other"]]
    raw = v.value()
    if ts not in TS_KIND:
        return [ts, ["other"]]
    base, arr = TS_KIND[ts]
    try:
        if base in ("T2", "T3"):
            n = STRUCT_ARITY[STRUCT_NAME[base]]
            raw = bytes(raw)
            if len(raw) % (8 * n):
                raise ValueError("struct size")
            items = [["struct", STRUCT_NAME[base], [_f64(x) for x in struct.unpack_from("<%dd" % n, raw, o)]]
                     for o in range(0, len(raw), 8 * n)]
            if arr:
                return [ts, ["list", items]]
            if len(items) != 1:
                raise ValueError("struct count")
            return [ts, items[0]]
        return [ts, from_py(raw, base, arr)]
    except ValueError:
        return [ts, ["other"]]


class NtWriter:
    """independent publishers on the same NT instance, kept alive by the caller."""

    def __init__(self):
        self.pubs = {}

    def write(self, key, ts, pv):
        import ntcore
        inst = nt_inst()
        base, arr = TS_KIND[ts]
        k = (key, ts)
        if base in ("T2", "T3"):
            cls = struct_cls(STRUCT_NAME[base])
            if k not in self.pubs:
                self.pubs[k] = (inst.getStructArrayTopic(key, cls) if arr else inst.getStructTopic(key, cls)).publish()
            self.pubs[k].set(to_py(canon(pv)))
            return
        if k not in self.pubs:
            self.pubs[k] = inst.getTopic(key).genericPublish(ts)
        V = ntcore.Value
        mk = {("bool", False): V.makeBoolean, ("int", False): V.makeInteger, ("float", False): V.makeDouble,
              ("str", False): V.makeString, ("bytes", False): V.makeRaw,
              ("bool", True): V.makeBooleanArray, ("int", True): V.makeIntegerArray,
              ("float", True): V.makeDoubleArray, ("str", True): V.makeStringArray}[(base, arr)]
        self.pubs[k].set(mk(to_py(canon(pv))))


# ---- the grid ---------------------------------------------------------------
def grid_observe(mt, idx, d, h, form, flavor):
    """GRaise | GCreated | GBound <type string read back from NT>"""
    decl = {"attr": "x", "default": d, "hint": h, "form": form, "flavor": flavor}
    try:
        cls = make_class(mt, [decl], "Grid%d" % idx)
    except Exception as e:
        return ["raise", type(e).__name__]
    # which topic does the documented table promise?  bind only when the default fits it
    ts = doc_topic(d, h)
    if ts is None or not fits(d, ts):
        return ["created"]
    cname = "g%d_%d" % (idx, form)
    obj = cls()
    try:
        mt.setup_tunables(obj, cname)
    except Exception as e:
        return ["setupraise", type(e).__name__]
    r = nt_read("/components/%s/x" % cname)
    if r is None:
        return ["bound", ""]
    return ["bound", r[0]]


def gobs_to_coq(g):
    if g[0] == "raise":
        return "GRaise"
    if g[0] == "created":
        return "GCreated"
    if g[0] == "bound":
        return "(GBound %s)" % cs(g[1])
    return '(GBound "setup raised")'


# ---- the documented table (oracle side, written from the property text) ------
def doc_array(b):
    return ARRAY_TS.get(b)


def doc_hint(h):
    if h[0] == "base":
        return SCALAR_TS.get(h[1])
    if h[0] == "bare" or not h[2]:
        return None
    o, args = h[1], h[2]
    if args[0] == "...":
        return None
    if o == "tuple":
        homog = all(a == args[0] for a in args)
        ellip = len(args) == 2 and args[1] == "..."
        if not (homog or ellip):
            return None
    return doc_array(args[0])


def doc_topic(d, h):
    """type string promised for default d and hint h, None = not supported."""
    # the default itself must be publishable unless it is an empty sequence
    if d[0] in ("list", "tuple"):
        if d[1] and doc_array(base_of_scalar(d[1][0])) is None:
            return None
    elif d[0] == "other":
        return None
    if h is not None:
        return doc_hint(h)
    if d[0] in ("list", "tuple"):
        return doc_array(base_of_scalar(d[1][0])) if d[1] else None
    return SCALAR_TS.get(base_of_scalar(d))


# ---------------------------------------------------------------------------
# histories
#   case = {"classes": [[decl..]..], "split": [n..], "insts": [class index..],
#           "ops": [["setup",i,prefix,cname] | ["pyw",i,attr,pv] | ["pyr",i,attr]
#                   | ["ntw",key,ts,pv] | ["ntr",key]]}
# ---------------------------------------------------------------------------
KINDS = [(b, False) for b in ["bool", "int", "float", "str", "bytes", "T2", "T3"]] + \
        [(b, True) for b in ["bool", "int", "float", "str", "T2", "T3"]]
STR_POOL = ["", "a", "ab", "x y", "a/b", "get_", "Z9", "q\"uote", "0"]


def gen_scalar(r, base):
    if base == "bool":
        return ["bool", r.random() < 0.5]
    if base == "int":
        return ["int", r.choice([0, 1, -1, 2, 7, 255, -(2 ** 40), 2 ** 53 + 1, r.randrange(-1000, 1000)])]
    if base == "float":
        return ["float", r.choice([0, 64, -64, 96, 1, -3, 2 ** 30, r.randrange(-6400, 6400)])]
    if base == "str":
        return ["str", r.choice(STR_POOL)]
    if base == "bytes":
        return ["bytes", [r.randrange(256) for _ in range(r.choice([0, 1, 2, 4]))]]
    n = 2 if base == "T2" else 3
    return ["struct", STRUCT_NAME[base], [r.choice([0, 64, -32, 640, r.randrange(-999, 999)]) for _ in range(n)]]


def gen_value(r, kind, allow_empty=True, pyform=False, as_default=False):
    base, arr = kind
    if not arr:
        return gen_scalar(r, base)
    # pyntcore's StructArrayEntry.get() hands back the entry's DEFAULT when the stored array is
    # empty (ntcore behaviour, see notes_c09.md): empty struct arrays are only used as defaults
    if base in ("T2", "T3") and not as_default:
        allow_empty = False
    n = r.choice([0, 1, 1, 2, 3] if allow_empty else [1, 1, 2, 3])
    return ["tuple" if (pyform and r.random() < 0.4) else "list", [gen_scalar(r, base) for _ in range(n)]]


def gen_hint(r, kind, need):
    base, arr = kind
    if not arr:
        if need or r.random() < 0.25:
            return ["base", base]
        return None
    if not need and r.random() < 0.45:
        return None
    return r.choice([["gen", "list", [base]], ["gen", "seq", [base]], ["gen", "tuple", [base, "..."]],
                     ["gen", "tuple", [base, base]], ["gen", "tuple", [base]], ["gen", "tuple", [base, base, base]]])


def gen_decl(r, attr, kind=None):
    kind = kind or r.choice(KINDS)
    default = gen_value(r, kind, pyform=True, as_default=True)
    if kind[1] and kind[0] in ("T2", "T3") and default[1] and r.random() < 0.5:
        default = [default[0], []]               # (an empty struct-array default reads back as itself)
    empty_seq = kind[1] and not default[1]
    hint = gen_hint(r, kind, empty_seq)
    return {"attr": attr, "kind": list(kind), "default": default, "hint": hint,
            "form": r.randrange(4), "flavor": r.randrange(2),
            "subtable": r.choice([None, None, None, "cfg", "s/t", "", "x"]),
            "wd": r.choice([True, True, False, None])}


ATTR_POOL = ["x", "y", "gain", "kP", "speed", "limits", "name", "x_", "xy", "flag"]
NAME_POOL = ["a", "ab", "a_b", "b", "Mode A", "robot", "components", "x"]


def gen_case(r, tag):
    """one history; `tag` makes every topic name of the case unique in the NT instance."""
    ncls = r.choice([1, 1, 2])
    classes, split = [], []
    for c in range(ncls):
        n = r.choice([1, 2, 3, 4, 5, 6])
        attrs = r.sample(ATTR_POOL, n)
        ds = [gen_decl(r, "%s_%s" % (a, tag)) for a in attrs]
        if r.random() < 0.3:
            ds.append(gen_decl(r, "_hidden_%s" % tag))
        ds.sort(key=lambda d: d["attr"])            # dir(cls) order
        classes.append(ds)
        split.append(r.randrange(len(ds)) if r.random() < 0.3 else 0)
    ninst = r.choice([1, 2, 2, 3])
    insts = [r.randrange(ncls) for _ in range(ninst)]
    if ninst >= 2 and r.random() < 0.6:
        insts[1] = insts[0]                         # two instances of one class

    def gen_owner():
        k = r.random()
        nm = r.choice(NAME_POOL)
        if k < 0.4:
            return ("components", "%s%s" % (nm, tag))
        if k < 0.65:
            return ("autonomous", "%s%s" % (nm, tag))
        if k < 0.85:
            return (None, "robot")
        if k < 0.93:
            return (None, "%s%s" % (nm, tag))
        return ("pfx%s" % tag, nm)

    owner_cls = {}

    def fresh_owner(i):
        # a topic has one type: an owner path is only ever used by instances of one class
        # (a type conflict between two classes is ntcore's business, not the model's)
        while True:
            o = gen_owner()
            if owner_cls.setdefault(o, insts[i]) == insts[i]:
                return o

    owners = [fresh_owner(i) for i in range(ninst)]
    if ninst >= 2 and insts[0] == insts[1] and r.random() < 0.2:
        owners[1] = owners[0]                       # same name: the instances share (documented)
    ops = []
    bound = {}                                      # i -> (prefix, cname)
    known_keys = []                                 # (key, ts, kind)

    def keys_of(i, owner):
        out = []
        for d in classes[insts[i]]:
            if d["attr"].startswith("_"):
                continue
            ts = (ARRAY_TS if d["kind"][1] else SCALAR_TS)[d["kind"][0]]
            out.append((doc_key(owner[0], owner[1], d["subtable"], d["attr"]), ts, tuple(d["kind"])))
        return out

    # before any setup: reads of unbound instances, pre-published topics
    for i in range(ninst):
        if r.random() < 0.2:
            d = r.choice(classes[insts[i]])
            ops.append(["pyr", i, d["attr"]])
        for key, ts, kind in keys_of(i, owners[i]):
            if r.random() < 0.35:
                ops.append(["ntw", key, ts, gen_value(r, kind)])
                known_keys.append((key, ts, kind))
    pending = list(range(ninst))
    r.shuffle(pending)
    nops = r.randrange(6, 28)
    while nops > 0 or pending:
        nops -= 1
        if pending and (not bound or r.random() < 0.35):
            i = pending.pop()
            ops.append(["setup", i, owners[i][0], owners[i][1]])
            bound[i] = owners[i]
            known_keys += keys_of(i, owners[i])
            continue
        if not bound:
            continue
        k = r.random()
        i = r.choice(list(bound) if r.random() < 0.95 else list(range(ninst)))
        d = r.choice(classes[insts[i]])
        if k < 0.33:
            ops.append(["pyw", i, d["attr"], gen_value(r, tuple(d["kind"]), pyform=True)])
        elif k < 0.63:
            ops.append(["pyr", i, d["attr"]])
        elif k < 0.78 and known_keys:
            key, ts, kind = r.choice(known_keys)
            ops.append(["ntw", key, ts, gen_value(r, kind)])
        elif k < 0.95 and known_keys:
            key, ts, kind = r.choice(known_keys)
            if r.random() < 0.1:                    # a near miss: nothing may live there
                key = r.choice([key + "/" + (d["subtable"] or "cfg"), key.rsplit("/", 1)[0], key + "_"])
            ops.append(["ntr", key])
        elif i in bound:
            owners[i] = fresh_owner(i)              # re-bind under another name
            ops.append(["setup", i, owners[i][0], owners[i][1]])
            bound[i] = owners[i]
            known_keys += keys_of(i, owners[i])
    # closing reads: every attribute of every instance, every known key
    for i in range(ninst):
        for d in classes[insts[i]]:
            if r.random() < 0.5:
                ops.append(["pyr", i, d["attr"]])
    for key, ts, kind in known_keys[:8]:
        if r.random() < 0.5:
            ops.append(["ntr", key])
    return {"classes": classes, "split": split, "insts": insts, "ops": ops}


def exec_case(mt, case):
    """run the history against the implementation; returns one observation per op."""
    keep = []                                       # keeps every entry / publisher alive
    writer = NtWriter()
    keep.append(writer)
    try:
        clss = [make_class(mt, ds, "Cls%d" % k, case["split"][k]) for k, ds in enumerate(case["classes"])]
    except Exception as e:
        return [["classraise", type(e).__name__]] * len(case["ops"])
    objs = [clss[c]() for c in case["insts"]]
    kinds = [{d["attr"]: d["kind"] for d in case["classes"][c]} for c in case["insts"]]
    obs = []
    for op in case["ops"]:
        try:
            if op[0] == "setup":
                keep.append(dict(objs[op[1]].__dict__))          # old entries stay published
                try:
                    if op[2] == "components" and len(obs) % 2:
                        mt.setup_tunables(objs[op[1]], op[3])    # default prefix argument
                    else:
                        mt.setup_tunables(objs[op[1]], op[3], op[2])
                    obs.append(["setup", True])
                except Exception as e:
                    obs.append(["setup", False, type(e).__name__])
            elif op[0] == "pyw":
                try:
                    setattr(objs[op[1]], op[2], to_py(op[3]))
                    obs.append(["wrote"])
                except (AttributeError, KeyError) as e:
                    obs.append(["err", type(e).__name__])
            elif op[0] == "pyr":
                try:
                    v = getattr(objs[op[1]], op[2])
                except (AttributeError, KeyError) as e:
                    obs.append(["err", type(e).__name__])
                    continue
                k = kinds[op[1]].get(op[2])
                try:
                    obs.append(["val", from_py(v, k[0], k[1])])
                except ValueError:
                    obs.append(["bad", repr(v)])
            elif op[0] == "ntw":
                writer.write(op[1], op[2], op[3])
                obs.append(["wrote"])
            elif op[0] == "ntr":
                obs.append(["nt", nt_read(op[1])])
        except Exception as e:                      # anything unexpected is an observation too
            obs.append(["bad", "%s: %s" % (type(e).__name__, str(e)[:80])])
    keep.append(objs)
    return obs


def obs_to_coq(o):
    if o[0] == "setup":
        return "(OSetup %s)" % coq_bool(o[1])
    if o[0] == "wrote":
        return "OWrote"
    if o[0] == "val":
        return "(OVal %s)" % to_coq(o[1])
    if o[0] == "err":
        return "OErr"
    if o[0] == "nt":
        if o[1] is None:
            return "(ONt None)"
        ts = o[1][0] if all(32 <= ord(c) < 127 for c in o[1][0]) else "?"
        return "(ONt (Some (%s, %s)))" % (cs(ts), to_coq(o[1][1]))
    return "OBad"


def decl_to_coq(d):
    return "(mkdecl %s %s %s %s %s)" % (
        cs(d["attr"]), to_coq(d["default"]), coq_opt(d.get("hint"), hint_to_coq),
        coq_opt(d.get("subtable"), coq_string), coq_bool(d.get("wd") is not False))


def case_to_coq(case, obs):
    lets = "".join("let c%d := %s in " % (k, coq_list([decl_to_coq(d) for d in ds]))
                   for k, ds in enumerate(case["classes"]))
    ops = []
    for op in case["ops"]:
        if op[0] == "setup":
            ops.append("Setup %s c%d %s %s" % (coq_nat(op[1]), case["insts"][op[1]],
                                              coq_opt(op[2], coq_string), cs(op[3])))
        elif op[0] == "pyw":
            ops.append("PyWrite %s %s %s" % (coq_nat(op[1]), cs(op[2]), to_coq(op[3])))
        elif op[0] == "pyr":
            ops.append("PyRead %s %s" % (coq_nat(op[1]), cs(op[2])))
        elif op[0] == "ntw":
            ops.append("NtWrite %s %s %s" % (cs(op[1]), NTYPE_COQ[op[2]], to_coq(op[3])))
        else:
            ops.append("NtRead %s" % cs(op[1]))
    return "(%s(%s, %s))" % (lets, coq_list(ops), coq_list([obs_to_coq(o) for o in obs]))


CASES_HEADER = ("From Coq Require Import String List Bool ZArith NArith.\n"
                "From RV Require Import Tunable.Model Tunable.Compare.\n"
                "Import ListNotations.\nOpen Scope string_scope.\n")


def cases_file(pairs):
    global _STRTAB
    _STRTAB = StrTab()
    try:
        body = ";\n ".join(case_to_coq(c, o) for c, o in pairs)
        defs = _STRTAB.defs()
    finally:
        _STRTAB = None
    return (CASES_HEADER + defs + "Definition cases : list (list op * list obs) :=\n [%s].\n"
            "Eval vm_compute in (bad_from hist_ok 0 cases).\n" % body)
