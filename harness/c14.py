"""C14: AutonomousModeSelector -- faithful discovery, one active mode, clean lifecycle.

Tie to the source: generated package layouts are written to disk under
work/C14/pk (unique package name per case), `AutonomousModeSelector(pkg)` of
$VERIF_REPO is constructed with the simulated FMS flag on or off, the
constructor-call log, the exception class, `selector.modes`, the chooser's
options/default read back from NetworkTables are recorded; then a generated call
sequence (start/periodic/disable under a stepped simulated FPGA clock, run()
periods in a worker thread stepped through DriverStationSim/stepTiming,
endCompetition) is executed with both selection sources set through
NetworkTables, and the callback log is recorded.  Layout dimensions include the way
a constructor fails (CTOR_FAILS: __init__/__new__/metaclass raising, abstract
class, missing argument) and, for implicit namespace packages, the shape of
__path__ (NS_PATHS: the directory listed again because sys.path lists its root
again, two roots contributing different modules); sys.path is arranged per case
and restored afterwards.  The same layouts, call
sequences and clock readings are evaluated by the Coq model
(Selector.Corr.check_case_any, vm_compute) and compared there.

The implementation runs in worker subprocesses (`python -m harness.c14 --worker`)
so that HAL/NT state and a hanging run() cannot affect the check itself.
"""
import json
import os
import subprocess
import sys
import time

from .common import (ROOT, CORPUS, coq_Z, coq_bool, coq_list, coq_nat, coq_opt,
                     coq_string, parse_eval_lists, shards)

PID = "C14"
SHARD = 100
FP_CLASH = "fms-duplicate-key-clash-loses-mode"
FP_NONE = "mode-name-None-shadowed"
KNOWN_FPS = (FP_CLASH, FP_NONE)
WITNESSES = ("01_fms_key_clash_loses_mode.json", "02_mode_called_None_default.json")

# ---------------------------------------------------------------------------
# generator

STEMS = ["alpha", "beta", "gamma", "m2", "Zeta", "_under", "__main__", "a_b", "x9"]
CNAMES = ["A", "B", "C", "D", "Mode", "a", "b", "Z9", "_P", "AutoOne"]
MNAMES = ["one", "two", "three", "Left", "Right", "a b", "x", "zz top", "None", "one "]
TRUTHY = [True, 1, "yes"]
FALSY = [False, 0, ""]
FAILS = ["ValueError", "ImportError", "SyntaxError", "ModuleNotFoundError", "ZeroDivisionError"]

# How calling a mode class fails (class key "how" when "raises" is true; the model only hears "the call raises"):
#   init              __init__ raises (c14_rt.Base.__init__, after logging the call)
#   new               the class's __new__ raises
#   meta              the metaclass's __call__ raises
#   abstract          abc.ABC with an abstract method left unimplemented; the class's own __new__ logs the call and
#                     delegates to object.__new__, which raises TypeError
#   abstract_plain    the same without any __new__: nothing of the class runs, the call leaves no trace in the log
#   needs_args        __init__(self, c14_ctor_fail_arg): TypeError; a __new__(cls, *a, **kw) logs the call first
#   needs_args_plain  the same without __new__: no trace in the log
CTOR_FAILS = ["init", "new", "meta", "abstract", "abstract_plain", "needs_args", "needs_args_plain"]
# ... and class machinery that must NOT count as failing ("how" of a class that constructs):
#   abc_concrete      abc.ABC subclass without abstract methods;  abc_implemented  abstract method declared by a
#   helper base of the module and implemented;  meta_ok  a metaclass whose __call__ delegates;  new_ok  own __new__
CTOR_FLAVOURS = ["abc_concrete", "abc_implemented", "meta_ok", "new_ok"]

# The truth value of a mode INSTANCE (class key "truth"): the selector keeps the selected instance in
# self.active_mode and must tell "a mode" from "no mode" (None), not "truthy" from "falsy":
#   len0        the class defines __len__ returning 0 (a container of steps that is still empty): bool(instance) False
#   bool_false  the class defines __bool__ returning False
#   len_grows   __len__ counts the on_iteration calls so far: falsy when selected and enabled, truthy afterwards
#   len3        __len__ returns 3: truthy like every ordinary instance (decoy)
TRUTHS = ["len0", "bool_false", "len_grows", "len3"]
FALSY_TRUTHS = ("len0", "bool_false", "len_grows")

# How the __path__ of an implicit (namespace) package looks (pkg key "nspath", only with "namespace"):
#   once         one directory                         twice        the directory is on sys.path twice
#   thrice       ... three times                       split        two directories, each with some of the modules
#   split_twice  two directories, the first listed again after the second
NS_PATHS = ["once", "twice", "thrice", "split", "split_twice"]


def how_of(c):
    """the constructor behaviour of a class of a layout"""
    if c.get("raises"):
        return c.get("how") if c.get("how") in CTOR_FAILS else "init"
    return c.get("how") if c.get("how") in CTOR_FLAVOURS else None


def ns_kind(pkg):
    if pkg.get("kind") == "present" and pkg.get("namespace") and pkg.get("nspath") in NS_PATHS:
        return pkg["nspath"]
    return "once"


def portion_of(pkg, m):
    """which directory of the package a module lives in (0: under base, 1: under the second root)"""
    return 1 if ns_kind(pkg) in ("split", "split_twice") and m.get("portion") else 0


def effective_modules(pkg):
    """the module files of the layout.  A module marked "twin" is a file in the second directory of a split
    implicit package that has the NAME of a file in the first one (D15); it exists only in such a package"""
    split = ns_kind(pkg) in ("split", "split_twice")
    return [m for m in pkg.get("modules", []) if split or not m.get("twin")]


def shadowed(pkg, m):
    """Python imports <pkg>.<stem> from the first directory of __path__ that has <stem>.py (sys.path order: the
    first root comes first): a file of the same name in the second directory is never a module of the package"""
    return portion_of(pkg, m) == 1 and any(o is not m and o["stem"] == m["stem"] and portion_of(pkg, o) == 0
                                           for o in effective_modules(pkg))


def live_modules(pkg):
    """the modules of the package, as Python sees it"""
    return [m for m in effective_modules(pkg) if not shadowed(pkg, m)]


def skey(pkg, m):
    """how a module file is named in logs and identities: its stem, "|1" appended in the second directory"""
    return m["stem"] + ("|1" if portion_of(pkg, m) == 1 else "")

# How importing the package itself can fail although the package exists (its own __init__.py, or the __init__.py
# of its parent package, does not run through).  "dotted": needs a parent package.
PKG_FAIL_KINDS = {
    "initfails_exc": False,         # raise ValueError(...)
    "initfails_dep": False,         # import <a top-level module that does not exist>
    "initfails_sub_rel": False,     # from .c14helper import X          -> ModuleNotFoundError(name=<pkg>.c14helper)
    "initfails_sub_abs": False,     # import <pkg>.c14helper             -> the same
    "initfails_sibling_abs": True,  # import <top>.c14helpers            -> ModuleNotFoundError(name=<top>.c14helpers)
    "initfails_sibling_rel": True,  # from ..c14helpers import X         -> the same
    "initfails_noname": False,      # raise ImportError(...)             -> plain ImportError, e.name is None
    "initfails_mnf_noname": False,  # raise ModuleNotFoundError(...)     -> e.name is None
    "initfails_named_pkg": False,   # raise ImportError(..., name=<pkg>) -> plain ImportError naming the package
    "initfails_from_other": False,  # from os import c14_nothing         -> plain ImportError(name="os")
    "initfails_fromdot": False,     # from . import c14helper            -> plain ImportError(name=<pkg>)
    "topfails_fromdot": True,       # the parent's __init__ does "from . import c14x" -> plain ImportError(name=<top>)
    "topfails_exc": True,           # the parent's __init__ raises ValueError
    "topfails_dep": True,           # the parent's __init__ imports a missing top-level module
    "topfails_rel": True,           # the parent's __init__ does "from .c14x import y"
}
def pkg_fails(kind):
    """importing the package fails although the package exists"""
    return kind in PKG_FAIL_KINDS


def pkg_absent(kind):
    return kind in ("missing", "missing_sub", "missing_mid")


def gen_cls(r, cname, mnames, faulty):
    c = {"cname": cname, "mode": None, "mn_none": False, "disabled": None, "default": None, "raises": False}
    k = r.random()
    if k < 0.78:
        c["mode"] = r.choice(mnames)
    elif k < 0.85:
        c["mn_none"] = True
    k = r.random()
    if k < 0.14:
        c["disabled"] = r.choice(TRUTHY)
    elif k < 0.28:
        c["disabled"] = r.choice(FALSY)
    k = r.random()
    if k < (0.22 if faulty else 0.12):
        c["default"] = r.choice(TRUTHY)
    elif k < 0.32:
        c["default"] = r.choice(FALSY)
    if faulty and r.random() < 0.14:
        c["raises"] = True
        c["how"] = r.choice(CTOR_FAILS)
    elif r.random() < 0.15:
        c["how"] = r.choice(CTOR_FLAVOURS)
    # DISABLED reached by INHERITANCE (class key "inh"): a mixin `_Off<class>` of the same module sets DISABLED = True;
    # "disabled": the class body does not mention DISABLED (attribute lookup gives True: marked DISABLED);
    # "reenabled": the class body sets a falsy DISABLED after inheriting True (lookup gives the own value: a mode)
    k = r.random()
    if k < 0.08:
        c["inh"], c["disabled"] = "disabled", True
    elif k < 0.13:
        c["inh"], c["disabled"] = "reenabled", r.choice(FALSY)
    if r.random() < 0.22:
        c["truth"] = r.choice(["len0", "len0", "bool_false", "bool_false", "len_grows", "len3"])
    return c


def truth(v):
    return bool(v)


def needed_classes(case):
    """[(stem, cls)] in no particular order: the mode classes the selector has to instantiate."""
    out = []
    if case["pkg"]["kind"] != "present":
        return out
    for m in live_modules(case["pkg"]):
        if m["fail"]:
            continue
        for c in m["classes"]:
            if c["mode"] is not None and not truth(c["disabled"]):
                out.append((skey(case["pkg"], m), c))
    return out


def make_clean(r, case):
    """repair a layout so that it has no start-up fault (unique names, <= 1 default)."""
    for m in case["pkg"]["modules"]:
        m["fail"] = None
    seen = set()
    ndef = 0
    for m in case["pkg"]["modules"]:
        for c in m["classes"]:
            c["raises"] = False
            if c.get("how") in CTOR_FAILS:
                c["how"] = None
            if c["mode"] is None or truth(c["disabled"]):
                continue
            while c["mode"] in seen:
                c["mode"] = c["mode"] + r.choice("abcxyz")
            seen.add(c["mode"])
            if truth(c["default"]):
                ndef += 1
                if ndef > 1:
                    c["default"] = r.choice([None, False])


def gen_layout(r, idx):
    k = r.random()
    pkg = {"kind": "present", "namespace": False, "dotted": r.random() < 0.12, "modules": [],
           "init_classes": [], "hidden": r.random() < 0.15, "txt": r.random() < 0.15,
           "subpkg": r.random() < 0.12, "name": "c14p%05d" % idx}
    if k < 0.03:
        pkg["kind"] = "missing"
        return pkg
    if k < 0.045:
        pkg["kind"] = "missing_sub"
        pkg["dotted"] = True
        return pkg
    if k < 0.06:
        pkg["kind"] = "missing_mid"     # <top>.mid.<pkg>: <top> exists, <top>.mid does not
        pkg["dotted"] = True
        return pkg
    if k < 0.135:
        pkg["kind"] = r.choice(sorted(PKG_FAIL_KINDS))
        if PKG_FAIL_KINDS[pkg["kind"]]:
            pkg["dotted"] = True
    elif k < 0.27:
        pkg["namespace"] = True
        pkg["nspath"] = r.choice(["once", "twice", "twice", "thrice", "split", "split", "split_twice"])
    faulty = r.random() < 0.5
    nm = r.choice([0, 1, 1, 2, 2, 2, 2, 3, 3, 3, 4])
    stems = r.sample(STEMS, nm)
    pool = r.sample(MNAMES, r.choice([2, 3, 5, 8])) if faulty else list(MNAMES)
    if r.random() < 0.85 and "None" in pool:
        pool.remove("None")
    if not pool:
        pool = ["one"]
    for s in stems:
        m = {"stem": s, "fail": None, "classes": [], "junk": r.random() < 0.5}
        if pkg.get("nspath") in ("split", "split_twice"):
            m["portion"] = r.choice([0, 1])
        if faulty and r.random() < 0.13:
            m["fail"] = r.choice(FAILS)
        for cn in sorted(r.sample(CNAMES, r.choice([0, 1, 2, 2, 3, 3, 4]))):
            m["classes"].append(gen_cls(r, cn, pool, faulty))
        pkg["modules"].append(m)
    if not pkg["namespace"] and r.random() < 0.3:
        for cn in sorted(r.sample(CNAMES, r.choice([1, 2]))):
            pkg["init_classes"].append(gen_cls(r, cn, pool, False))
    case = {"pkg": pkg}
    if not faulty:
        make_clean(r, case)
    if pkg.get("nspath") in ("split", "split_twice") and pkg["modules"] and r.random() < 0.6:
        # D15: the second directory has a file with the name of a file of the first one (the same source, other
        # classes, or something that would not even import); Python never imports it
        import copy
        for m in r.sample(pkg["modules"], min(len(pkg["modules"]), r.choice([1, 1, 2]))):
            m["portion"] = 0
            t = copy.deepcopy(m)
            t.update({"portion": 1, "twin": True})
            k = r.random()
            if k < 0.4:
                pass
            elif k < 0.85:
                t["fail"] = None
                t["classes"] = [gen_cls(r, cn, pool, False) for cn in sorted(r.sample(CNAMES, r.choice([1, 2, 3])))]
            else:
                t["fail"] = r.choice(FAILS)
            pkg["modules"].append(t)
    return pkg


def key_pool(case, base):
    names = []
    for stem, c in needed_classes(case):
        names.append(c["mode"])
        if case["fms"] and r_dup(case, c["mode"]):
            names += [c["cname"] + "_" + f for f in candidate_files(case["pkg"], base, stem)]
    return names


def r_dup(case, name):
    return sum(1 for _, c in needed_classes(case) if c["mode"] == name) > 1


def gen_sel_timed(r, names, prev_choice):
    """selection for a TimedRobot period: no valid "Auto Selector" string, the chooser selection differs from the
    one of the previous period (another mode, or "None")"""
    dash = r.choice([None, None, None, "nope", "", "None"])
    if dash is not None and dash in names:
        dash = None
    pool = [n for n in names + ["None"] if n != prev_choice]
    if prev_choice is None and r.random() < 0.4:
        return dash, None
    return dash, (r.choice(pool) if pool else "None")


def gen_sel(r, names, chosen_before):
    k = r.random()
    if k < 0.55:
        dash = None
    elif k < 0.8 and names:
        dash = r.choice(names)
    elif k < 0.9:
        dash = r.choice(["nope", "None", "", "one"])
    else:
        dash = r.choice(names) if names else None
    k = r.random()
    if k < 0.45 and not chosen_before:
        choice = None
    elif k < 0.8 and names:
        choice = r.choice(names)
    elif k < 0.9:
        choice = "None"
    else:
        choice = r.choice(["nope", "", "two"])
    return dash, choice


DTS = [0, 0, 1000, 20000, 20000, 12345, 500000, 1]


def gen_ops(r, case, base):
    names = key_pool(case, base)
    ops = []
    chosen = False
    ill = r.random() < 0.12
    if ill and r.random() < 0.4:
        ops.append(["periodic", r.choice(DTS)])
    if r.random() < 0.1:
        ops.append(["disable"])
    nper = r.choice([0, 1, 1, 2, 2, 3])
    ended = False
    if r.random() < 0.18:
        # TimedRobot whose disabledInit does not (always) call disable(): start()/periodic() periods follow one
        # another, the selection changes in between
        prev = None
        for p in range(r.choice([2, 2, 3, 4])):
            dash, choice = gen_sel_timed(r, names, prev)
            prev = choice if choice is not None else prev
            ops.append(["start", dash, choice, r.choice(DTS)])
            for _ in range(r.choice([0, 1, 1, 2, 3])):
                ops.append(["periodic", r.choice(DTS)])
            if r.random() < 0.3:
                ops.append(["disable"])
        if r.random() < 0.5:
            ops.append(["disable"])
        if r.random() < 0.3:
            # (the dashboard cannot un-select: choice None only while nothing has been selected yet)
            ops.append(["run", None, prev, r.choice(DTS), r.choice([0, 1, 2]), 20000, "disable", None])
        return ops
    for p in range(nper):
        dash, choice = gen_sel(r, names, chosen)
        chosen = chosen or choice is not None
        if r.random() < 0.5:
            ops.append(["start", dash, choice, r.choice(DTS)])
            if ill and r.random() < 0.3:
                d2, c2 = gen_sel(r, names, chosen)
                chosen = chosen or c2 is not None
                ops.append(["start", d2, c2, r.choice(DTS)])
            for _ in range(r.choice([0, 1, 2, 3, 5])):
                ops.append(["periodic", r.choice(DTS)])
            if p == nper - 1 and r.random() < 0.2:
                break                                   # period left open
            if ill and r.random() < 0.3:
                d2, c2 = gen_sel(r, names, chosen)
                chosen = chosen or c2 is not None
                ops.append(["run", d2, c2, r.choice(DTS), r.choice([0, 1, 2]), 20000, "disable"])
            if p < nper - 1 and r.random() < 0.15:
                continue                                # period not followed by disable(): the next one just begins
            for _ in range(r.choice([1, 1, 1, 2])):
                ops.append(["disable"])
            if r.random() < 0.25:
                ops.append(["periodic", r.choice(DTS)])
        else:
            exit_mode = r.choice(["disable", "disable", "teleop", "robot_exit" if not ended and r.random() < 0.5 else "disable"])
            nt = r.choice([0, 1, 2, 3, 4, 6])
            ops.append(["run", dash, choice, r.choice(DTS), nt,
                        r.choice([20000, 20000, 5000, 10000]), exit_mode, gen_mid_disable(r, nt)])
            if exit_mode == "robot_exit":
                ended = True
        if r.random() < 0.06 and not ended:
            ops.append(["end"])
            ended = True
    return ops


def gen_mid_disable(r, nticks):
    """disable() called on the selector while run() is still going round: None, or [who, k] -- `who` is
    "hook" (an iter_fn hook of loop pass k calls it) or "thread" (another thread calls it while the loop sleeps
    in delay.wait() after pass k); k < nticks - 1 leaves the driver station in autonomous+enabled for the
    remaining passes."""
    if nticks == 0 or r.random() >= 0.35:
        return None
    k = r.randrange(nticks - 1) if nticks > 1 and r.random() < 0.8 else nticks - 1
    return [r.choice(["hook", "hook", "thread"]), k]


def mid_disable(o):
    """the [who, k] element of a generated "run" op, if any"""
    return o[7] if len(o) > 7 and isinstance(o[7], list) else None


# How the harness hands its per-pass hook to run(iter_fn=...) (case key "iterfn"; "a function or list of functions"):
#   func   the function itself          tuple  a tuple (no-op, hook)
#   list   ONE list object [no-op, hook] per history, passed again to every run() period of it (the robot keeps its
#          list of per-iteration functions in an attribute) -- run() must not leave anything of a finished period in it
#   none   no iter_fn at all where the period makes no pass (the harness needs its hook to step a loop that runs)
ITERFNS = ["func", "tuple", "list", "none"]


def gen_case(r, idx, base):
    case = {"idx": idx, "fms": r.random() < 0.5}
    case["pkg"] = gen_layout(r, idx)
    case["ops"] = gen_ops(r, case, base)
    case["iterfn"] = r.choice(["func", "func", "tuple", "list", "list", "list", "none"])
    return case


EDGE_CASES = [
    # (fms, modules [(stem, fail, [(cname, mode, disabled, default, raises)])], ops)
    (False, [], [["start", None, None, 0], ["periodic", 20000], ["disable"]]),
    (False, [("alpha", None, [("A", "one", None, True, False), ("B", "two", None, None, False)])],
     [["start", None, None, 0], ["periodic", 20000], ["periodic", 20000], ["disable"], ["disable"],
      ["run", "two", None, 1000, 3, 20000, "disable"], ["run", "nope", "two", 0, 2, 20000, "teleop"]]),
    (False, [("alpha", None, [("A", "one", None, None, False)]), ("beta", None, [("B", "one", None, None, False)])], []),
    (True, [("alpha", None, [("A", "one", None, None, False)]), ("beta", None, [("B", "one", None, None, False)])],
     [["start", "one", None, 0], ["periodic", 1000], ["disable"]]),
    (False, [("alpha", None, [("A", "one", None, True, False), ("B", "two", None, True, False)])], []),
    (True, [("alpha", None, [("A", "one", None, True, False), ("B", "two", None, True, False)])],
     [["run", None, None, 0, 2, 20000, "disable"]]),
    (False, [("alpha", "ValueError", []), ("beta", None, [("B", "one", None, None, False)])], []),
    (True, [("alpha", "ValueError", []), ("beta", None, [("B", "one", None, None, False)])],
     [["start", None, "one", 0], ["periodic", 0], ["disable"]]),
    (False, [("alpha", None, [("A", "one", None, None, True)])], []),
    (True, [("alpha", None, [("A", "one", None, None, True), ("B", "two", True, True, False), ("C", "three", None, None, False)])],
     [["start", None, "three", 0], ["disable"]]),
    (False, [("alpha", None, [("A", "one", True, None, False), ("B", "one", None, None, False)])],
     [["periodic", 0]]),
    (False, [("alpha", None, [("A", "one", None, True, False)])],
     [["end"], ["run", None, None, 0, 3, 20000, "disable"]]),
    # disable() called while run() is still going round, the driver station staying in autonomous+enabled
    (False, [("alpha", None, [("A", "one", None, True, False), ("B", "two", None, None, False)])],
     [["run", None, None, 0, 4, 20000, "disable", ["hook", 1]], ["run", "two", None, 1000, 2, 20000, "teleop"]]),
    (False, [("alpha", None, [("A", "one", None, True, False)])],
     [["run", None, None, 0, 3, 20000, "disable", ["thread", 0]], ["run", None, None, 0, 1, 20000, "disable", ["hook", 0]],
      ["start", None, None, 0], ["periodic", 20000], ["disable"]]),
    (True, [("alpha", None, [("A", "one", None, None, False)])],
     [["run", "one", None, 0, 6, 5000, "robot_exit", ["hook", 2]]]),
    # TimedRobot periods that are not followed by disable(), the chooser selection changed in between
    (False, [("alpha", None, [("A", "one", None, True, False), ("B", "two", None, None, False), ("C", "three", None, None, False)])],
     [["start", None, None, 0], ["periodic", 20000], ["periodic", 20000], ["disable"],
      ["start", None, "two", 1000], ["periodic", 20000], ["periodic", 20000],
      ["start", None, "three", 1000], ["periodic", 20000], ["periodic", 20000],
      ["start", None, "None", 1000], ["periodic", 20000], ["disable"]]),
    (False, [("alpha", None, [("A", "one", None, True, False), ("B", "two", None, None, False)])],
     [["start", "nope", None, 0], ["periodic", 20000], ["start", "", "None", 500000], ["periodic", 1000],
      ["run", None, "two", 0, 2, 20000, "disable"], ["start", None, "one", 0], ["start", None, "two", 0], ["periodic", 1]]),
    (True, [("alpha", None, [("A", "one", None, None, False), ("B", "two", None, None, False)])],
     [["start", None, "one", 0], ["run", None, "None", 1000, 2, 20000, "teleop"], ["periodic", 1000],
      ["start", None, "two", 0], ["periodic", 0]]),
    # the package exists, importing it fails: a module under its own top-level name is missing, ...
    (False, [("alpha", None, [("A", "one", None, None, False)])], [], {"kind": "initfails_sub_rel"}),
    (False, [("alpha", None, [("A", "one", None, None, False)])], [], {"kind": "initfails_sub_abs", "dotted": True}),
    (False, [("alpha", None, [("A", "one", None, None, False)])], [], {"kind": "initfails_sibling_abs", "dotted": True}),
    (False, [("alpha", None, [("A", "one", None, None, False)])], [], {"kind": "initfails_sibling_rel", "dotted": True}),
    (True, [("alpha", None, [("A", "one", None, None, False)])],
     [["start", None, None, 0], ["periodic", 1000], ["disable"]], {"kind": "initfails_sibling_abs", "dotted": True}),
    (False, [], [], {"kind": "topfails_rel", "dotted": True}),
    (False, [], [], {"kind": "topfails_dep", "dotted": True}),
    (True, [], [], {"kind": "topfails_exc", "dotted": True}),
    # ... an ImportError without a name, or one naming an unrelated module
    (False, [], [], {"kind": "initfails_noname"}),
    (False, [], [], {"kind": "initfails_from_other"}),
    (False, [], [], {"kind": "initfails_mnf_noname"}),
    # ... a plain ImportError (not ModuleNotFoundError) that names the package itself or its parent
    (False, [("alpha", None, [("A", "one", None, None, False)])], [], {"kind": "initfails_fromdot"}),
    (False, [], [], {"kind": "initfails_fromdot", "dotted": True}),
    (True, [("alpha", None, [("A", "one", None, None, False)])], [["start", None, None, 0], ["disable"]], {"kind": "initfails_fromdot"}),
    (False, [], [], {"kind": "initfails_named_pkg"}),
    (False, [], [], {"kind": "topfails_fromdot", "dotted": True}),
    # ... and the packages that do not exist at all, at any level of the dotted name
    (False, [], [["start", None, None, 0], ["periodic", 1000], ["disable"]], {"kind": "missing_mid", "dotted": True}),
    (True, [], [], {"kind": "missing_mid", "dotted": True}),
    (False, [], [["start", None, None, 0], ["disable"]], {"kind": "missing"}),
    (False, [], [], {"kind": "missing", "dotted": True}),
    (False, [], [], {"kind": "missing_sub", "dotted": True}),
    # constructors that fail without an __init__ that raises: the class cannot be instantiated at all
    (False, [("alpha", None, [("A", "one", None, None, "abstract_plain"), ("B", "two", None, True, False)])], []),
    (False, [("alpha", None, [("A", "one", None, None, "abstract")]), ("beta", None, [("B", "two", None, None, False)])], []),
    (False, [("alpha", None, [("B", "two", None, None, "abc_concrete")]), ("beta", None, [("A", "one", None, None, "meta")])], []),
    (False, [("alpha", None, [("A", "one", None, None, "new")])], []),
    (False, [("alpha", None, [("A", "one", None, None, "needs_args_plain")])], []),
    (False, [("alpha", None, [("A", "one", None, None, "needs_args"), ("B", "two", None, None, "abc_implemented")])], []),
    (True, [("alpha", None, [("A", "one", None, True, "abstract"), ("B", "two", None, None, "abc_implemented"),
                             ("C", "three", None, None, "meta"), ("D", "four", None, None, "meta_ok")]),
            ("beta", None, [("A", "five", None, None, "new"), ("B", "six", None, None, "new_ok"),
                            ("C", "seven", None, None, "needs_args"), ("Z9", "eight", None, None, "abc_concrete")])],
     [["start", None, "two", 0], ["periodic", 20000], ["disable"], ["run", "six", None, 0, 2, 20000, "disable"]]),
    (True, [("alpha", None, [("A", "one", None, None, "abstract_plain"), ("B", "two", None, True, False),
                             ("C", "three", None, None, "needs_args_plain")])],
     [["start", None, None, 0], ["periodic", 1000], ["disable"]]),
    (False, [("alpha", None, [("A", "one", None, True, "abc_concrete"), ("B", "two", None, None, "abc_implemented"),
                              ("C", "three", None, None, "meta_ok"), ("D", "four", None, None, "new_ok")])],
     [["start", None, None, 0], ["periodic", 20000], ["disable"], ["start", None, "three", 0], ["disable"]]),
    (False, [("alpha", None, [("A", "one", True, None, "abstract_plain"), ("B", None, None, None, "abstract"),
                              ("C", "three", None, None, False)])], [["start", None, "three", 0], ["disable"]]),
    # implicit (namespace) packages: __path__ with one directory, the same directory again, two directories
    (False, [("alpha", None, [("A", "one", None, True, False)]), ("beta", None, [("B", "two", None, None, False)])],
     [["start", None, None, 0], ["periodic", 20000], ["disable"]], {"namespace": True, "nspath": "twice"}),
    (True, [("alpha", None, [("A", "one", None, True, False)]), ("beta", None, [("B", "two", None, None, False)])],
     [["start", None, "two", 0], ["periodic", 20000], ["disable"]], {"namespace": True, "nspath": "twice"}),
    (False, [("alpha", None, [("A", "one", None, None, False)])], [], {"namespace": True, "nspath": "thrice"}),
    (False, [("alpha", None, [("A", "one", None, True, False)], 0), ("beta", None, [("B", "two", None, None, False)], 1),
             ("gamma", None, [("C", "three", None, None, False)], 1)],
     [["run", None, "three", 0, 2, 20000, "disable"]], {"namespace": True, "nspath": "split"}),
    (True, [("alpha", None, [("A", "one", None, None, False)], 1), ("beta", None, [("B", "one", None, None, False)], 0)],
     [["start", "one", None, 0], ["disable"]], {"namespace": True, "nspath": "split_twice"}),
    (False, [("alpha", None, [("A", "one", None, None, False)], 0), ("beta", None, [("B", "two", None, True, False)], 1)],
     [["start", None, None, 0], ["disable"]], {"namespace": True, "nspath": "split_twice", "dotted": True}),
    (False, [("alpha", None, [("A", "one", None, None, False)])], [["start", None, "one", 0], ["disable"]],
     {"namespace": True, "nspath": "twice", "dotted": True}),
    (False, [("alpha", None, [("A", "one", None, None, False)], 0), ("beta", None, [("B", "one", None, None, False)], 1)],
     [], {"namespace": True, "nspath": "split"}),
    (False, [("alpha", None, [("A", "one", None, None, False)], 0), ("beta", "ValueError", [], 1)],
     [], {"namespace": True, "nspath": "split"}),
    # a mode whose INSTANCE is falsy (__len__ == 0, __bool__ False) is a mode like any other
    (False, [("alpha", None, [("A", "one", None, True, False, "len0"), ("B", "two", None, None, False)])],
     [["start", None, None, 0], ["periodic", 20000], ["periodic", 20000], ["disable"],
      ["run", None, None, 0, 3, 20000, "disable"], ["run", "one", "two", 0, 2, 20000, "teleop"]]),
    (True, [("alpha", None, [("A", "one", None, None, False, "bool_false"), ("B", "two", None, True, False, "len3")])],
     [["start", None, "one", 0], ["periodic", 20000], ["disable"], ["start", "one", None, 0], ["periodic", 1000], ["disable"],
      ["run", None, "one", 0, 4, 20000, "disable", ["hook", 1]]]),
    (False, [("alpha", None, [("A", "one", None, True, False, "len_grows")])],
     [["start", None, None, 0], ["periodic", 20000], ["periodic", 20000], ["disable"],
      ["run", None, None, 0, 2, 20000, "disable"]]),
    (False, [("alpha", None, [("A", "one", None, None, False, "len0"), ("B", "two", None, None, False, "bool_false")])],
     [["start", None, "one", 0], ["periodic", 20000], ["start", None, "two", 1000], ["periodic", 20000],
      ["start", None, "None", 0], ["periodic", 1000], ["disable"]]),
    # DISABLED inherited from a mixin of the module (marked DISABLED), and re-enabled in the class body (a mode)
    (False, [("alpha", None, [("A", "one", True, True, False, None, "disabled"), ("B", "two", False, None, False, None, "reenabled"),
                              ("C", "three", None, None, False)])],
     [["start", None, "two", 0], ["periodic", 20000], ["disable"]]),
    (True, [("alpha", None, [("A", "one", True, None, False, None, "disabled"), ("B", "one", 0, True, False, None, "reenabled")])],
     [["run", None, None, 0, 2, 20000, "disable"]]),
    # run(iter_fn=<the robot's own list of per-iteration functions>), the SAME list object for every autonomous period
    (False, [("alpha", None, [("A", "one", None, True, False), ("B", "two", None, None, False)])],
     [["run", None, None, 0, 2, 20000, "disable"], ["run", None, None, 500000, 3, 20000, "teleop"],
      ["run", "two", None, 1000, 2, 5000, "disable", ["hook", 0]]], {"iterfn": "list"}),
    (True, [("alpha", None, [("A", "one", None, None, False)])],
     [["run", None, "one", 0, 1, 20000, "disable"], ["start", None, "one", 0], ["periodic", 20000], ["disable"],
      ["run", None, "one", 12345, 2, 10000, "robot_exit"]], {"iterfn": "list"}),
    (False, [("alpha", None, [("A", "one", None, True, False)])],
     [["run", None, None, 0, 2, 20000, "disable"], ["run", None, None, 1000, 2, 20000, "disable"]], {"iterfn": "tuple"}),
    (False, [("alpha", None, [("A", "one", None, True, False)])],
     [["run", None, None, 0, 0, 20000, "disable"], ["run", None, None, 1000, 2, 20000, "disable"]], {"iterfn": "none"}),
    # D15: a module file NAME in both directories of an implicit package -- one module for Python (the file in the
    # first directory of __path__), so its classes are constructed once; the other file is never looked at
    (False, [("alpha", None, [("A", "one", None, True, False)], 0), ("alpha", None, [("A", "one", None, True, False)], 1, True),
             ("beta", None, [("B", "two", None, None, False)], 1)],
     [["start", None, None, 0], ["periodic", 20000], ["disable"]], {"namespace": True, "nspath": "split"}),
    (True, [("alpha", None, [("A", "one", None, True, False)], 0), ("alpha", None, [("A", "one", None, True, False)], 1, True),
            ("beta", None, [("B", "two", None, None, False)], 1)],
     [["start", None, "two", 0], ["periodic", 20000], ["disable"]], {"namespace": True, "nspath": "split"}),
    (False, [("alpha", None, [("A", "one", None, None, False)], 0),
             ("alpha", None, [("A", "other", None, True, False), ("C", "three", None, None, False)], 1, True)],
     [["start", None, "three", 0], ["disable"]], {"namespace": True, "nspath": "split_twice"}),
    (False, [("alpha", None, [("A", "one", None, None, False)], 0), ("alpha", "SyntaxError", [], 1, True),
             ("gamma", None, [("C", "three", None, True, False)], 0), ("gamma", "ValueError", [], 1, True)],
     [["start", None, None, 0], ["disable"]], {"namespace": True, "nspath": "split"}),
    (True, [("alpha", None, [("A", "one", None, None, "abstract"), ("B", "two", None, None, False)], 0),
            ("alpha", None, [("A", "one", None, None, False), ("B", "two", None, None, False)], 1, True),
            ("x9", None, [("D", "four", None, True, False)], 1)],
     [["run", None, None, 0, 2, 20000, "disable"]], {"namespace": True, "nspath": "split_twice", "dotted": True}),
    (False, [("alpha", "ValueError", [], 0), ("alpha", None, [("A", "one", None, None, False)], 1, True)],
     [], {"namespace": True, "nspath": "split"}),
]


def edge_cases(base, start_idx):
    out = []
    for k, ec in enumerate(EDGE_CASES):
        fms, mods, ops = ec[:3]
        pkg = {"kind": "present", "namespace": False, "dotted": False, "modules": [], "init_classes": [],
               "hidden": False, "txt": False, "subpkg": False, "name": "c14p%05d" % (start_idx + k)}
        extra = dict(ec[3]) if len(ec) > 3 else {}
        iterfn = extra.pop("iterfn", None)
        pkg.update(extra)
        for mod in mods:
            stem, fail, cls = mod[:3]
            pkg["modules"].append({"stem": stem, "fail": fail, "junk": False, "classes": [
                {"cname": x[0], "mode": x[1], "mn_none": False, "disabled": x[2], "default": x[3],
                 "raises": x[4] is True or x[4] in CTOR_FAILS, "how": x[4] if isinstance(x[4], str) else None,
                 "truth": x[5] if len(x) > 5 else None, "inh": x[6] if len(x) > 6 else None}
                for x in cls]})
            if len(mod) > 3:
                pkg["modules"][-1]["portion"] = mod[3]
            if len(mod) > 4 and mod[4]:
                pkg["modules"][-1]["twin"] = True
        out.append({"idx": start_idx + k, "fms": fms, "pkg": pkg, "ops": ops, "iterfn": iterfn})
    return out


# ---------------------------------------------------------------------------
# writing a layout to disk

def pkg_top(pkg):
    return pkg["name"] + "_top"


def pkg_import_name(pkg):
    if pkg["kind"] == "missing_sub":
        return pkg_top(pkg) + ".sub"
    if pkg["kind"] == "missing_mid":
        return pkg_top(pkg) + ".mid." + pkg["name"]
    return (pkg_top(pkg) + "." + pkg["name"]) if pkg["dotted"] else pkg["name"]


def expected_import(pkg):
    """what importlib.import_module(<the package>) is meant to do on this layout:
    ["ok"] | ["importerror", is it a ModuleNotFoundError, e.name] | ["other"]"""
    kind = pkg["kind"]
    name = pkg_import_name(pkg)
    top = pkg_top(pkg)
    MNF, PLAIN = True, False
    if kind == "present":
        return ["ok"]
    if kind == "missing":
        return ["importerror", MNF, name.split(".")[0]]
    if kind == "missing_sub":
        return ["importerror", MNF, name]
    if kind == "missing_mid":
        return ["importerror", MNF, top + ".mid"]
    if kind in ("initfails_exc", "topfails_exc"):
        return ["other"]
    if kind in ("initfails_dep", "topfails_dep"):
        return ["importerror", MNF, "c14_no_such_dependency"]
    if kind in ("initfails_sub_rel", "initfails_sub_abs"):
        return ["importerror", MNF, name + ".c14helper"]
    if kind in ("initfails_sibling_abs", "initfails_sibling_rel"):
        return ["importerror", MNF, (top + ".c14helpers") if pkg["dotted"] else top]
    if kind == "initfails_noname":
        return ["importerror", PLAIN, None]
    if kind == "initfails_mnf_noname":
        return ["importerror", MNF, None]
    if kind == "initfails_named_pkg":
        return ["importerror", PLAIN, name]
    if kind == "initfails_from_other":
        return ["importerror", PLAIN, "os"]
    if kind == "topfails_rel":
        return ["importerror", MNF, top + ".c14x"]
    if kind == "initfails_fromdot":
        return ["importerror", PLAIN, name]
    if kind == "topfails_fromdot":
        return ["importerror", PLAIN, top]
    return ["?"]


def init_source(pkg):
    """the package's own __init__.py"""
    kind = pkg["kind"]
    name = pkg_import_name(pkg)
    src = "import abc\nimport c14_rt\n\n"
    if kind == "initfails_exc":
        src += "raise ValueError('c14-pkg-fail')\n"
    elif kind == "initfails_dep":
        src = "import c14_no_such_dependency\n" + src
    elif kind == "initfails_sub_rel":
        src += "from .c14helper import SOMETHING\n"
    elif kind == "initfails_sub_abs":
        src += "import %s.c14helper\n" % name
    elif kind == "initfails_sibling_abs":
        src += "import %s.c14helpers\n" % pkg_top(pkg)
    elif kind == "initfails_sibling_rel":
        src += ("from ..c14helpers import SOMETHING\n" if pkg["dotted"] else "import %s.c14helpers\n" % pkg_top(pkg))
    elif kind == "initfails_noname":
        src += "raise ImportError('c14-pkg-fail')\n"
    elif kind == "initfails_mnf_noname":
        src += "raise ModuleNotFoundError('c14-pkg-fail')\n"
    elif kind == "initfails_named_pkg":
        src += "raise ImportError('c14-pkg-fail', name=%r)\n" % name
    elif kind == "initfails_from_other":
        src += "from os import c14_nothing\n"
    elif kind == "initfails_fromdot":
        src += "from . import c14helper\n"
    for c in pkg["init_classes"]:
        src += cls_source("__init__", c)
    return src


def top_init_source(pkg):
    """the __init__.py of the parent package of a dotted layout"""
    kind = pkg["kind"]
    if kind == "topfails_exc":
        return "raise ValueError('c14-pkg-fail')\n"
    if kind == "topfails_dep":
        return "import c14_no_such_dependency\n"
    if kind == "topfails_rel":
        return "from .c14x import SOMETHING\n"
    if kind == "topfails_fromdot":
        return "from . import c14x\n"
    return ""


def pkg_dir(pkg, base):
    if pkg["kind"] == "missing_mid":
        return os.path.join(base, pkg_top(pkg), "mid", pkg["name"])
    if pkg["dotted"]:
        return os.path.join(base, pkg["name"] + "_top", pkg["name"] if pkg["kind"] != "missing_sub" else "sub")
    return os.path.join(base, pkg["name"])


def second_root(base):
    """the second directory on sys.path that contributes modules to a split namespace package"""
    return base + "2"


def pkg_dirs(pkg, base):
    """the directories of the package: [primary] or, for a split namespace package, [primary, the one under the
    second root]"""
    d = pkg_dir(pkg, base)
    if ns_kind(pkg) in ("split", "split_twice"):
        return [d, pkg_dir(pkg, second_root(base))]
    return [d]


def mod_file(pkg, base, key):
    """the path of a module file (named by its skey) as glob() will return it"""
    por = 1 if key.endswith("|1") and ns_kind(pkg) in ("split", "split_twice") else 0
    return os.path.join(pkg_dirs(pkg, base)[por], key.split("|")[0] + ".py")


def expected_nspath(pkg, base):
    """the __path__ an implicit package is meant to have (sorted), None for a regular package"""
    if pkg.get("kind") != "present" or not pkg.get("namespace"):
        return None
    ds = pkg_dirs(pkg, base)
    return sorted({"once": [ds[0]], "twice": [ds[0]] * 2, "thrice": [ds[0]] * 3, "split": ds,
                   "split_twice": [ds[0], ds[0], ds[-1]]}[ns_kind(pkg)])


def top_is_namespace(pkg):
    """a dotted implicit package gets several portions only through an implicit parent"""
    return bool(pkg.get("dotted")) and ns_kind(pkg) != "once"


def cls_source(stem, c):
    how = how_of(c)
    cn = c["cname"]
    pre = ""
    bases = "c14_rt.Base"
    if c.get("inh") in ("disabled", "reenabled"):
        pre = "class _Off%s:\n    DISABLED = True\n\n" % cn
        bases += ", _Off%s" % cn
    if how in ("abstract", "abstract_plain", "abc_concrete"):
        bases += ", abc.ABC"
    elif how == "abc_implemented":
        pre += ("class _Abs%s(abc.ABC):\n    @abc.abstractmethod\n    def c14_step(self):\n        ...\n\n" % cn)
        bases += ", _Abs%s" % cn
    elif how == "meta":
        bases += ", metaclass=c14_rt.FailingMeta"
    elif how == "meta_ok":
        bases += ", metaclass=c14_rt.PassingMeta"
    lines = ["class %s(%s):" % (cn, bases)]
    if c["mode"] is not None:
        lines.append("    MODE_NAME = %r" % c["mode"])
    elif c.get("mn_none"):
        lines.append("    MODE_NAME = None")
    if c["disabled"] is not None and c.get("inh") != "disabled":
        lines.append("    DISABLED = %r" % (c["disabled"],))
    if c["default"] is not None:
        lines.append("    DEFAULT = %r" % (c["default"],))
    lines.append("    _c14 = (%r, %r, %r)" % (stem, cn, bool(c["raises"]) and how == "init"))
    if how == "new":
        lines += ["    def __new__(cls, *a, **kw):", "        c14_rt.attempt(cls)",
                  "        raise ArithmeticError('c14-ctor-fail in __new__ of %s.%s')" % (stem, cn)]
    if how in ("abstract", "needs_args", "new_ok"):
        lines += ["    def __new__(cls, *a, **kw):", "        c14_rt.attempt(cls)" if how != "new_ok" else "        pass",
                  "        return super().__new__(cls)"]
    if how in ("abstract", "abstract_plain"):
        lines += ["    @abc.abstractmethod", "    def c14_ctor_fail_step(self):", "        ..."]
    if how == "abc_implemented":
        lines += ["    def c14_step(self):", "        return 1"]
    if how in ("needs_args", "needs_args_plain"):
        lines += ["    def __init__(self, c14_ctor_fail_arg, *a, **kw):", "        super().__init__(*a, **kw)"]
    truth_v = c.get("truth")
    if truth_v == "len0":
        lines += ["    def __len__(self):", "        return 0"]
    elif truth_v == "len3":
        lines += ["    def __len__(self):", "        return 3"]
    elif truth_v == "bool_false":
        lines += ["    def __bool__(self):", "        return False"]
    elif truth_v == "len_grows":
        lines += ["    def __len__(self):", "        return getattr(self, 'c14_steps', 0)",
                  "    def on_iteration(self, t):", "        self.c14_steps = getattr(self, 'c14_steps', 0) + 1",
                  "        super().on_iteration(t)"]
    return pre + "\n".join(lines) + "\n\n"


def helper_members(c):
    """class members of the module that come with a class of the layout (inspect.getmembers sees them too)"""
    out = []
    if c.get("inh") in ("disabled", "reenabled"):
        out.append({"cname": "_Off" + c["cname"], "mode": None, "mn_none": False, "disabled": True, "default": None,
                    "raises": False})
    if how_of(c) == "abc_implemented":
        out.append({"cname": "_Abs" + c["cname"], "mode": None, "mn_none": False, "disabled": None, "default": None,
                    "raises": False})
    return out


def module_source(m, key=None):
    key = key or m["stem"]
    src = "import abc\nimport c14_rt\n\n"
    if m.get("junk"):
        src += "LIMIT = 3\n\ndef helper():\n    return LIMIT\n\n"
    if m["fail"] == "SyntaxError":
        return src + "def broken(:\n    pass\n"
    if m["fail"] == "ModuleNotFoundError":
        src = "import c14_no_such_dependency\n" + src
    elif m["fail"]:
        src += "raise %s('c14-import-fail %s')\n\n" % (m["fail"], key)
    for c in m["classes"]:
        src += cls_source(key, c)
    return src


def write_package(pkg, base):
    """returns {stem: path} of the files the glob of the selector will return (unordered)."""
    import shutil
    d = pkg_dir(pkg, base)
    remove_package(pkg, base)
    if pkg["kind"] == "missing":
        return d
    if pkg["kind"] == "missing_mid":
        top = os.path.join(base, pkg_top(pkg))
        os.makedirs(top, exist_ok=True)
        open(os.path.join(top, "__init__.py"), "w").close()
        return d
    if pkg["dotted"]:
        top = os.path.dirname(d)
        os.makedirs(top, exist_ok=True)
        if not top_is_namespace(pkg):
            with open(os.path.join(top, "__init__.py"), "w") as f:
                f.write(top_init_source(pkg))
        if pkg["kind"] == "missing_sub":
            return d
    dirs = pkg_dirs(pkg, base)
    for x in dirs:
        os.makedirs(x, exist_ok=True)
    if not pkg["namespace"] or pkg_fails(pkg["kind"]):
        with open(os.path.join(d, "__init__.py"), "w") as f:
            f.write(init_source(pkg))
    for m in effective_modules(pkg):
        with open(os.path.join(dirs[portion_of(pkg, m)], m["stem"] + ".py"), "w") as f:
            f.write(module_source(m, skey(pkg, m)))
    extra = {"cname": "Hid", "mode": "hidden mode", "mn_none": False, "disabled": None, "default": True, "raises": False}
    if pkg["hidden"]:
        with open(os.path.join(d, ".hid.py"), "w") as f:
            f.write("import c14_rt\n\n" + cls_source(".hid", extra))
    if pkg["txt"]:
        with open(os.path.join(d, "notes.txt"), "w") as f:
            f.write("import c14_rt\n\n" + cls_source("notes", extra))
        with open(os.path.join(d, "old.py.bak"), "w") as f:
            f.write("raise ValueError('never imported')\n")
    if pkg["subpkg"]:
        os.makedirs(os.path.join(d, "deeper"), exist_ok=True)
        with open(os.path.join(d, "deeper", "__init__.py"), "w") as f:
            f.write("")
        with open(os.path.join(d, "deeper", "inner.py"), "w") as f:
            f.write("import c14_rt\n\n" + cls_source("inner", extra))
    return d


def remove_package(pkg, base):
    import shutil
    for b in (base, second_root(base)):
        shutil.rmtree(os.path.join(b, pkg["name"] + "_top"), ignore_errors=True)
        shutil.rmtree(os.path.join(b, pkg["name"]), ignore_errors=True)


def dir_listing(d):
    """the *.py files of a directory in directory order (what glob(d + "/*.py") returns)."""
    if not os.path.isdir(d):
        return []
    return [os.path.join(d, n) for n in os.listdir(d)
            if n.endswith(".py") and not n.startswith(".") and os.path.isfile(os.path.join(d, n))]


def observed_files(pkg, base):
    d = pkg_dir(pkg, base)
    if pkg_absent(pkg["kind"]):
        return []
    return dir_listing(d)


# ---------------------------------------------------------------------------
# worker: drives the implementation (runs in a subprocess)

def classify_exc(e):
    msg = " ".join(str(a) for a in getattr(e, "args", ()))
    if type(e) is RuntimeError:
        return 4
    if "c14-ctor-fail" in msg or (isinstance(e, TypeError) and "c14_ctor_fail" in msg):
        return 3        # raised by the class's code, or by the interpreter on its behalf (abstract class,
                        # missing constructor argument: the message names c14_ctor_fail_step / c14_ctor_fail_arg)
    if "c14-pkg-fail" in msg:
        return 1
    if "c14-import-fail" in msg or isinstance(e, SyntaxError):
        return 2
    if isinstance(e, ImportError):
        # raised by a module of the package, by its __init__ (or its parent's), or by the import machinery
        # itself on behalf of one of them
        tb = e.__traceback__
        files = []
        while tb is not None:
            files.append(tb.tb_frame.f_code.co_filename)
            tb = tb.tb_next
        files = [f for f in files if f.endswith(".py") and "c14p" in f]
        if files:
            return 1 if files[-1].endswith("__init__.py") else 2
        if isinstance(e.name, str) and e.name.startswith("c14p"):
            return 1        # no frame of the layout: the package itself (or a parent of it) was not found
    return 9


def forget_modules(name):
    top = name.split(".")[0]
    for mname in [k for k in sys.modules if k == top or k.startswith(top + ".")]:
        del sys.modules[mname]


def probe_import(name):
    """what importlib.import_module(name) does -- the input of the model's test on e.name, observed like the glob
    order: ["ok"] | ["importerror", isinstance(e, ModuleNotFoundError), e.name] | ["other"];
    and, for a package object without __file__ (an implicit package), its __path__ entry by entry (else None)"""
    import importlib
    nspath = None
    try:
        mod = importlib.import_module(name)
        r = ["ok"]
        if not getattr(mod, "__file__", None):
            nspath = [str(x) for x in (getattr(mod, "__path__", None) or [])]
    except ImportError as e:
        r = ["importerror", isinstance(e, ModuleNotFoundError), e.name if isinstance(e.name, str) else None]
    except Exception:
        r = ["other"]
    forget_modules(name)
    return r, nspath


def arrangements(path):
    """the entries of a __path__ (repetitions included), once for every order of its distinct directories: the
    selector scans them in the iteration order of a set, which is not specified (the model keeps first occurrences)"""
    import itertools
    distinct = list(dict.fromkeys(path))
    return [sorted(path, key=perm.index) for perm in itertools.islice(itertools.permutations(distinct), 24)]


class Driver:
    def __init__(self, base):
        import types
        import threading
        import hal
        import hal.simulation
        import ntcore
        import wpilib
        import wpilib.simulation
        from wpilib.simulation import DriverStationSim
        self.threading = threading
        self.wpilib = wpilib
        self.sim = wpilib.simulation
        self.DS = DriverStationSim
        self.nt = ntcore.NetworkTableInstance.getDefault()
        self.base = base
        os.makedirs(base, exist_ok=True)
        os.makedirs(second_root(base), exist_ok=True)
        while base in sys.path:
            sys.path.remove(base)
        sys.path.insert(0, base)
        hal.simulation.pauseTiming()
        hal.simulation.restartTiming()
        rt = types.ModuleType("c14_rt")
        rt.LOG = []
        log = rt.LOG

        class Base:
            def __init__(self, *a, **kw):
                stem, cn, boom = self._c14
                log.append(("ctor", stem, cn, 0))
                if boom:
                    raise ArithmeticError("c14-ctor-fail %s.%s" % (stem, cn))

            def on_enable(self):
                log.append(("en", self._c14[0], self._c14[1], 0))

            def on_iteration(self, t):
                log.append(("it", self._c14[0], self._c14[1], t))

            def on_disable(self):
                log.append(("dis", self._c14[0], self._c14[1], 0))

        def attempt(cls):
            """called by class machinery that gets control before __init__ (a __new__, a metaclass __call__)"""
            log.append(("ctor", cls._c14[0], cls._c14[1], 0))

        class FailingMeta(type):
            def __call__(cls, *a, **kw):
                attempt(cls)
                raise ArithmeticError("c14-ctor-fail in the metaclass of %s.%s" % (cls._c14[0], cls._c14[1]))

        class PassingMeta(type):
            def __call__(cls, *a, **kw):
                return super().__call__(*a, **kw)

        rt.Base = Base
        rt.attempt = attempt
        rt.FailingMeta = FailingMeta
        rt.PassingMeta = PassingMeta
        sys.modules["c14_rt"] = rt
        self.log = log
        self.keep = []
        self.hangs = 0

    def clock(self):
        return int(self.wpilib.RobotController.getFPGATime())

    def reset_nt(self):
        """forget what the previous case left in NetworkTables.  (Resetting the NT instance itself is not
        an option: SmartDashboard caches entry handles, which then dangle.)"""
        for x in self.keep:
            try:
                if hasattr(x, "close"):
                    x.close()
                else:
                    x.unpublish()
            except Exception:
                pass
        self.keep.clear()
        self.wpilib._wpilib._clearSmartDashboardData()
        t = self.nt.getTable("SmartDashboard")
        sub = t.getSubTable("Autonomous Mode")
        left = (self.wpilib.SmartDashboard.getString("Auto Selector", None),
                sub.getEntry("selected").getString("<none>"))
        if left != (None, "<none>"):
            raise RuntimeError("NetworkTables state leaked between cases: %r" % (left,))

    def set_sel(self, dash, choice, st):
        """what the dashboard does: write "Auto Selector" and the chooser's "selected" through NetworkTables."""
        SD = self.wpilib.SmartDashboard
        if st.get("dash_entry") is None:
            st["dash_entry"] = self.nt.getTable("SmartDashboard").getEntry("Auto Selector")
            self.keep.append(st["dash_entry"])
        if dash is None:
            if st["dash_set"]:
                st["dash_entry"].unpublish()
                st["dash_set"] = False
        else:
            st["dash_entry"].setString(dash)
            st["dash_set"] = True
        if choice is not None:
            if st["pub"] is None:
                st["pub"] = self.nt.getTable("SmartDashboard").getSubTable("Autonomous Mode").getStringTopic("selected").publish()
                self.keep.append(st["pub"])
            st["pub"].set(choice)
        SD.updateValues()
        SD.updateValues()

    def run_period(self, s, nticks, period_us, exit_mode, exited, dis=None, iterfn=None, st=None):
        """run() in a worker thread; returns (t0, wakes, extra_end_op, problem).
        dis = [who, k]: disable() is called on the selector during loop pass k, by the iter_fn hook of that
        pass ("hook") or by this thread while the loop sleeps in delay.wait() after it ("thread")."""
        threading = self.threading
        DS = self.DS
        DS.setAutonomous(True)
        DS.setEnabled(nticks > 0)
        DS.notifyNewData()
        if exited:
            nticks = 0          # endCompetition() was called: the loop body must not run at all
        sem = threading.Semaphore(0)
        seen = []
        err = []

        dis_at = []

        def hook():
            seen.append(self.clock())
            if dis and dis[0] == "hook" and len(seen) == dis[1] + 1:
                dis_at.append(dis[1])
                s.disable()
            sem.release()

        # how the hook is handed over (see ITERFNS)
        st = st if st is not None else {}
        mode = iterfn if iterfn in ITERFNS else "func"
        if mode == "none" and nticks > 0:
            mode = "func"
        kw = {"control_loop_wait_time": period_us * 1e-6}
        if mode == "func":
            kw["iter_fn"] = hook
        elif mode == "tuple":
            kw["iter_fn"] = (lambda: None, hook)
        elif mode == "list":
            if "iter_list" not in st:
                st["iter_list"] = [lambda: None, lambda: st["cur_hook"]()]
            st["cur_hook"] = hook
            kw["iter_fn"] = st["iter_list"]
        st.setdefault("iterfn_used", []).append(mode)

        def body():
            try:
                s.run(**kw)
            except BaseException as e:          # noqa
                err.append(e)

        t0 = self.clock()
        if self.hangs > 8:
            return t0, [], False, "run() not called any more: it hung %d times in this worker" % self.hangs
        patience = 5 if self.hangs == 0 else 0.5
        th = threading.Thread(target=body, daemon=True)
        th.start()
        problem = None
        ended = False
        for k in range(nticks):
            if not sem.acquire(timeout=patience):
                problem = "run() did not reach iteration %d" % k
                break
            if dis and dis[0] == "thread" and k == dis[1]:
                # the worker has finished pass k and is on its way into delay.wait(): no callback of its own
                # can be in flight until the next stepTiming
                dis_at.append(k)
                s.disable()
            if k == nticks - 1:
                if exit_mode == "robot_exit":
                    s.endCompetition()
                    ended = True
                elif exit_mode == "teleop":
                    DS.setAutonomous(False)
                    DS.notifyNewData()
                else:
                    DS.setEnabled(False)
                    DS.notifyNewData()
                self.sim.stepTimingAsync(period_us * 1e-6)
            else:
                self.sim.stepTiming(period_us * 1e-6)
        th.join(patience)
        if th.is_alive():
            self.hangs += 1
            problem = problem or "run() did not return"
            s.robot_exit = True
            DS.setEnabled(False)
            DS.notifyNewData()
            self.sim.stepTimingAsync(period_us * 1e-6)
            th.join(2)
        if err:
            problem = "run() raised %s" % type(err[0]).__name__
        wakes = [[w, True, k in dis_at] for k, w in enumerate(seen)]
        if not ended and not exited:
            wakes.append([self.clock(), False, False])
        DS.setEnabled(False)
        DS.notifyNewData()
        return t0, wakes, ended, problem

    def run_case(self, case):
        """sys.path is arranged as the layout wants it (the package's root listed again, a second root) for the
        duration of the case and restored afterwards"""
        import importlib
        saved = list(sys.path)
        base, base2 = self.base, second_root(self.base)
        try:
            k = ns_kind(case["pkg"])
            if k in ("split", "split_twice"):
                sys.path.insert(1, base2)
            if k == "thrice":
                sys.path.insert(1, base)
            if k in ("twice", "thrice", "split_twice"):
                sys.path.append(base)
            return self._run_case(case)
        finally:
            sys.path[:] = saved
            importlib.invalidate_caches()

    def _run_case(self, case):
        import importlib
        wpilib = self.wpilib
        pkg = case["pkg"]
        self.reset_nt()
        d = write_package(pkg, self.base)
        importlib.invalidate_caches()
        imp, nspath = probe_import(pkg_import_name(pkg))
        files = observed_files(pkg, self.base)
        self.DS.setFmsAttached(bool(case["fms"]))
        self.DS.setEnabled(False)
        self.DS.setAutonomous(True)
        self.DS.notifyNewData()
        wpilib.DriverStation.refreshData()
        del self.log[:]
        obs = {"imp": imp, "files": files, "nspath": nspath,
               "listing": {x: dir_listing(x) for x in (nspath or [])}, "failing": [], "err": 0, "exc": None, "ctors": [], "modes": [], "options": [], "default": "",
               "events": [], "attrerr": False, "mops": [], "problem": None}
        def fpath(stem):
            return mod_file(pkg, self.base, stem)

        obs["failing"] = [[fpath(skey(pkg, m)), c["cname"]] for m in live_modules(pkg) for c in m["classes"] if c.get("raises")]
        from robotpy_ext.autonomous.selector import AutonomousModeSelector
        name = pkg_import_name(pkg)
        s = None
        try:
            s = AutonomousModeSelector(name)
        except BaseException as e:      # noqa
            obs["err"] = classify_exc(e)
            obs["exc"] = "%s: %s" % (type(e).__name__, str(e)[:120])
        obs["ctors"] = [[fpath(st), cn] for (k, st, cn, _) in self.log if k == "ctor"]
        del self.log[:]
        if s is not None:
            try:
                obs["modes"] = [[k, [fpath(v._c14[0]), v._c14[1]]] for k, v in sorted(s.modes.items())]
            except Exception as e:
                obs["problem"] = "selector.modes unreadable: %r" % (e,)
            wpilib.SmartDashboard.updateValues()
            t = self.nt.getTable("SmartDashboard").getSubTable("Autonomous Mode")
            obs["options"] = sorted(t.getEntry("options").getStringArray([]))
            obs["default"] = t.getEntry("default").getString("<unset>")
            st = {"dash_set": False, "pub": None, "ended": False}
            for o in case["ops"]:
                o = [x for x in o if not isinstance(x, dict)]
                kind = o[0]
                if kind in ("start", "periodic", "run"):
                    dt = o[3] if kind != "periodic" else o[1]
                    if dt:
                        self.sim.stepTiming(dt * 1e-6)
                try:
                    if kind == "start":
                        self.set_sel(o[1], o[2], st)
                        now = self.clock()
                        obs["mops"].append(["start", o[1], o[2], now])
                        s.start()
                    elif kind == "periodic":
                        now = self.clock()
                        obs["mops"].append(["periodic", now])
                        try:
                            s.periodic()
                        except AttributeError:
                            obs["attrerr"] = True
                            break
                    elif kind == "disable":
                        obs["mops"].append(["disable"])
                        s.disable()
                    elif kind == "end":
                        obs["mops"].append(["end"])
                        s.endCompetition()
                        st["ended"] = True
                    elif kind == "run":
                        self.set_sel(o[1], o[2], st)
                        t0, wakes, ended, problem = self.run_period(s, o[4], o[5], o[6], st["ended"], mid_disable(o), case.get("iterfn"), st)
                        obs["mops"].append(["run", o[1], o[2], t0, wakes])
                        if ended:
                            obs["mops"].append(["end"])
                            st["ended"] = True
                        if problem:
                            obs["problem"] = problem
                            break
                except Exception as e:
                    obs["problem"] = "%s() raised %s: %s" % (kind, type(e).__name__, str(e)[:100])
                    break
            code = {"en": 0, "it": 1, "dis": 2}
            for (k, stem, cn, t) in self.log:
                if k in code:
                    obs["events"].append([code[k], [fpath(stem), cn], int(round(t * 1e6))])
                else:
                    obs["events"].append([3, [fpath(stem), cn], 0])      # a constructor call after start-up
            obs["iterfn"] = st.get("iterfn_used", [])
            if "iter_list" in st:
                obs["iter_list_len"] = len(st["iter_list"])      # the caller's list: 2 functions when it was made
        # forget the package so that nothing is cached between cases
        forget_modules(name)
        remove_package(pkg, self.base)
        return obs


def worker_main(inp, outp):
    import logging
    logging.disable(logging.CRITICAL)
    job = json.load(open(inp))
    drv = Driver(job["base"])
    res = []
    for case in job["cases"]:
        try:
            res.append(drv.run_case(case))
        except BaseException as e:      # noqa
            res.append({"harness_error": "%s: %s" % (type(e).__name__, e)})
    with open(outp, "w") as f:
        json.dump(res, f)


def run_impl(cases, work, tag, jobs):
    """Run the cases against $VERIF_REPO in `jobs` worker subprocesses; returns obs list."""
    base = os.path.join(work, "pk")
    os.makedirs(base, exist_ok=True)
    n = max(1, min(jobs, (len(cases) + 24) // 25))
    chunks = [cases[i::n] for i in range(n)]
    procs = []
    for k, ch in enumerate(chunks):
        inp = os.path.join(work, "%s_in_%d.json" % (tag, k))
        outp = os.path.join(work, "%s_out_%d.json" % (tag, k))
        with open(inp, "w") as f:
            json.dump({"base": base, "cases": ch}, f)
        p = subprocess.Popen([sys.executable, "-m", "harness.c14", "--worker", inp, outp], cwd=ROOT,
                             stdout=subprocess.PIPE, stderr=subprocess.STDOUT, text=True)
        procs.append((p, outp, len(ch)))
    outs = []
    for p, outp, ln in procs:
        try:
            log, _ = p.communicate(timeout=1500)
        except subprocess.TimeoutExpired:
            p.kill()
            log = "timeout"
        if os.path.exists(outp):
            outs.append(json.load(open(outp)))
        else:
            outs.append([{"harness_error": "worker died: %s" % log[-400:]}] * ln)
    res = [None] * len(cases)
    for k, o in enumerate(outs):
        for j, x in enumerate(o):
            res[k + j * n] = x
    return res


# ---------------------------------------------------------------------------
# emission of Coq terms

def q(s):
    return coq_string(s)


BEHAVIOUR = {None: "Constructs", "abc_concrete": "Constructs", "abc_implemented": "Constructs", "meta_ok": "Constructs",
             "new_ok": "Constructs", "init": "InitRaises", "new": "NewRaises", "meta": "MetaCallRaises",
             "abstract": "AbstractClass", "abstract_plain": "AbstractClass", "needs_args": "NeedsArguments",
             "needs_args_plain": "NeedsArguments"}


def cls_term(c):
    return "mkCls %s %s %s %s (fails %s)" % (q(c["cname"]), coq_opt(c["mode"], q), coq_bool(truth(c["disabled"])),
                                             coq_bool(truth(c["default"])), BEHAVIOUR[how_of(c)])


def package_term(case, obs, base):
    """(package name, [(what import_module(name) did, the observation)]): the model decides what that means.
    One alternative, except for an implicit package with several directories: one per order in which they may be
    scanned, each with the observation whose class identities are expressed for that order (see file_remap)"""
    pkg = case["pkg"]
    name = q(pkg_import_name(pkg))
    imp = obs["imp"]
    if imp[0] == "importerror":
        return "%s, [(ImportRaisesImportError %s %s, %s)]" % (name, coq_bool(imp[1]), coq_opt(imp[2], q), obs_term(obs))
    if imp[0] == "other":
        return "%s, [(ImportRaisesOther, %s)]" % (name, obs_term(obs))
    # what importing "." + stem gives and what inspect.getmembers finds there depends on the NAME only: the module
    # of the package with that name (a shadowed file of the same name is never imported)
    live = {m["stem"]: m for m in live_modules(pkg)}

    def mod_term(f):
        stem = os.path.basename(f)[:-3]
        if stem == "__init__":
            cl, fail = pkg["init_classes"], False
        else:
            m = live[stem]
            cl, fail = m["classes"], bool(m["fail"])
        cl = [x for c in cl for x in [c] + helper_members(c)]
        cl = sorted(cl, key=lambda c: c["cname"])          # inspect.getmembers order
        return "mkMod %s %s %s %s" % (q(stem), q(f), coq_bool(fail),
                                      coq_list([cls_term(c) for c in (cl if not fail else [])]))

    if obs.get("nspath") is not None:
        # an implicit package: its __path__ entry by entry, each with the glob of the directory
        por = {d: "mkPortion %s %s" % (q(d), coq_list([mod_term(f) for f in obs["listing"][d]])) for d in set(obs["nspath"])}
        return "%s, %s" % (name, coq_list(["(ImportedNamespace %s, %s)" % (coq_list([por[d] for d in arr]),
                                                                          obs_term(remapped(obs, file_remap(pkg, base, obs, arr))))
                                           for arr in arrangements(obs["nspath"])]))
    return "%s, [(Imported %s, %s)]" % (name, coq_list([mod_term(f) for f in obs["files"]]), obs_term(obs))


def file_remap(pkg, base, obs, arr):
    """{file as the harness names it: file as the model names it} when the directories are scanned in the order
    `arr`.  The harness identifies a class by the file that DEFINES it; the selector (and the model) by the first
    file it meets that has the module's name, which may be the shadowed file of the same name in another directory.
    A class defined in a shadowed file -- never imported, so it cannot be constructed by going through the
    package -- keeps a name the model does not produce."""
    out = {}
    dirs = list(dict.fromkeys(arr))
    for m in effective_modules(pkg):
        own = mod_file(pkg, base, skey(pkg, m))
        if shadowed(pkg, m):
            out[own] = own + "#shadowed"
            continue
        for d in dirs:
            f = os.path.join(d, m["stem"] + ".py")
            if f in obs["listing"].get(d, []):
                if f != own:
                    out[own] = f
                break
    return out


def remapped(obs, fmap):
    if not fmap:
        return obs
    o = dict(obs)
    ren = lambda ident: [fmap.get(ident[0], ident[0]), ident[1]]
    o["ctors"] = [ren(c) for c in obs["ctors"]]
    o["failing"] = [ren(c) for c in obs.get("failing", [])]
    o["modes"] = [[k, ren(v)] for k, v in obs["modes"]]
    o["events"] = [[k, ren(i), t] for k, i, t in obs["events"]]
    return o


def sel_term(dash, choice):
    return "(%s, %s)" % (coq_opt(dash, q), coq_opt(choice, q))


def ops_term(mops):
    out = []
    for o in mops:
        if o[0] == "start":
            out.append("Start %s %s" % (sel_term(o[1], o[2]), coq_Z(o[3])))
        elif o[0] == "periodic":
            out.append("Periodic %s" % coq_Z(o[1]))
        elif o[0] == "disable":
            out.append("Disable")
        elif o[0] == "end":
            out.append("EndCompetition")
        elif o[0] == "run":
            out.append("RunPeriod %s %s %s" % (sel_term(o[1], o[2]), coq_Z(o[3]),
                                               coq_list(["(%s, %s, %s)" % (coq_Z(w[0]), coq_bool(w[1]), coq_bool(len(w) > 2 and w[2]))
                                                         for w in o[4]])))
    return coq_list(out)


def call_term(c):
    return "(%s, %s)" % (q(c[0]), q(c[1]))


def obs_term(obs):
    return "mkObs %s %s %s %s %s %s %s %s" % (
        coq_nat(obs["err"]),
        coq_list([call_term(c) for c in obs["ctors"]]),
        coq_list(["(%s, %s)" % (q(k), call_term(v)) for k, v in obs["modes"]]),
        coq_list([q(s) for s in obs["options"]]),
        q(obs["default"]),
        coq_list(["(%s, %s, %s)" % (coq_nat(k), call_term(i), coq_Z(t)) for k, i, t in obs["events"]]),
        coq_bool(obs["attrerr"]),
        coq_list([call_term(c) for c in obs.get("failing", [])]))


def case_term(case, obs, base):
    return "(%s, %s, %s)" % (coq_bool(case["fms"]), package_term(case, obs, base), ops_term(obs["mops"]))


def printable(obs):
    def ok(s):
        return all(32 <= ord(ch) < 127 for ch in s)
    strs = list(obs["options"]) + [obs["default"]] + [k for k, _ in obs["modes"]]
    return all(ok(s) for s in strs)


HEADER = ("From Coq Require Import String List ZArith Bool.\n"
          "From RV Require Import Selector.Model Selector.Spec Selector.Corr.\n"
          "Import ListNotations.\nOpen Scope string_scope.\nOpen Scope list_scope.\n")


def cases_file(pairs, base):
    body = ";\n ".join(case_term(c, o, base) for c, o in pairs)
    return (HEADER + "Definition cases : list case := [\n %s\n].\n"
            "Eval vm_compute in (bad_indices cases).\n"
            "Eval vm_compute in (bad_clauses cases).\n" % body)


# ---------------------------------------------------------------------------
# oracle: the property stated directly over implementation observations

def oracle(case, obs, base):
    """list of (fingerprint, text) describing how the PROPERTY fails on this observation."""
    v = []
    if obs.get("harness_error"):
        return v
    pkg = case["pkg"]
    fms = case["fms"]
    kind = pkg["kind"]
    need = needed_classes(case)
    ident = lambda stem, c: [mod_file(pkg, base, stem), c["cname"]]
    names = [c["mode"] for _, c in need]
    dup = len(set(names)) != len(names)
    healthy = [(s, c) for s, c in need if not c["raises"]]
    ndef = sum(1 for _, c in need if truth(c["default"]))
    import_fault = kind == "present" and any(m["fail"] for m in live_modules(pkg))
    ctor_fault = any(c["raises"] for _, c in need)
    initfail = pkg_fails(kind)
    any_fault = import_fault or ctor_fault or dup or ndef > 1 or initfail
    raised = obs["err"] != 0
    if obs.get("imp") is not None and obs["imp"] != expected_import(pkg):
        return v        # the layout on disk is not the one its kind describes (reported as a broken obligation)
    if "nspath" in obs and (sorted(obs["nspath"]) if obs["nspath"] is not None else None) != expected_nspath(pkg, base):
        return v        # likewise: the package's __path__ is not the one the layout is meant to produce
    if obs["err"] == 9 and (fms or not any_fault):
        v.append(("unexpected-exception", "AutonomousModeSelector(...) raised an unrelated exception: %s" % obs["exc"]))
        return v
    if not fms:
        if any_fault and not raised:
            what = ("duplicate-not-raised" if dup else "several-defaults-not-raised" if ndef > 1 else
                    "import-failure-not-raised" if import_fault else "ctor-failure-not-raised" if ctor_fault else
                    "package-import-failure-not-raised")
            text = "no FMS, layout has a start-up fault (%s) but the constructor did not raise" % what
            if what == "ctor-failure-not-raised":
                s0, c0 = [(s, c) for s, c in need if c["raises"]][0]
                text = ("no FMS, mode class %s.%s (MODE_NAME %r, not DISABLED) cannot be constructed (%s) but "
                        "AutonomousModeSelector() did not raise; constructor calls seen: %s"
                        % (s0, c0["cname"], c0["mode"], CTOR_TEXT[how_of(c0)], [c[1] for c in obs["ctors"]]))
            if initfail:
                text = ("no FMS, the package %s exists but importing it fails (%s: import_module raises %s), and "
                        "AutonomousModeSelector() did not raise: a failing import was taken for a missing package"
                        % (pkg_import_name(pkg), kind, import_text(obs.get("imp"))))
            v.append((what, text))
        if not any_fault and raised:
            if pkg_absent(kind):
                v.append(("missing-package-raised", "no FMS, the only thing wrong is that the package %s does not exist "
                          "(import_module raises %s), yet the constructor raised %s"
                          % (pkg_import_name(pkg), import_text(obs.get("imp")), obs["exc"])))
            else:
                text = "no FMS, fault-free layout, constructor raised %s" % obs["exc"]
                if obs.get("nspath") is not None:
                    text += " (implicit package, __path__ = %s; constructor calls %s)" % (obs["nspath"], [c[1] for c in obs["ctors"]])
                twins = sorted(set(m["stem"] for m in effective_modules(pkg) if shadowed(pkg, m)))
                if twins:
                    text += ("; module file name(s) %s exist in both directories: Python imports each name once, from the "
                             "first directory" % twins)
                v.append(("raised-without-fault", text))
    else:
        if raised:
            v.append(("fms-raised", "FMS attached but the constructor raised %s" % obs["exc"]))
    if raised:
        return v
    # instantiated exactly once each.  (The attempt to call a class that cannot be constructed may or may not leave
    # a trace in the log -- it can fail before any code of the class runs -- and how the selector finds out is not
    # the property's business: at most one attempt each.)
    failing = [ident(s, c) for s, c in need if c["raises"]]
    want = sorted(ident(s, c) for s, c in healthy)
    got = sorted(x for x in obs["ctors"] if x not in failing)
    again = [x for x in failing if obs["ctors"].count(x) > 1]
    if want != got or again:
        missing = [x for x in want if x not in got]
        extra = [x for x in got if x not in want or got.count(x) > 1] + again
        hidden = [mod_file(pkg, base, skey(pkg, m)) for m in effective_modules(pkg) if shadowed(pkg, m)]
        text = ("constructor calls differ from the classes with MODE_NAME and not DISABLED: "
                "missing %s, unexpected/repeated %s" % (missing[:3], extra[:3]))
        if obs.get("nspath") is not None:
            text += " (implicit package, __path__ = %s)" % (obs["nspath"],)
        if any(x[0] in hidden for x in extra):
            text += ("; %s is not a module of the package: a file of that name in an earlier directory of __path__ "
                     "is what Python imports" % [h for h in hidden if any(x[0] == h for x in extra)][:2])
        v.append(("instantiation-set", text))
    modes = {k: i for k, i in obs["modes"]}
    # the two open findings (known_findings.json) get their own fingerprints; the generic clauses below are
    # not evaluated on such layouts, so that one root cause is reported once
    shadow = [(s, c) for s, c in healthy if c["mode"] in ("None", "")]
    kclash = key_clash(case, base)
    clash = bool(shadow) or kclash
    if shadow:
        s0, c0 = shadow[0]
        distinct = len(set(obs["options"]))
        if c0["mode"] == "" or distinct < len(modes) + 1:
            v.append((FP_NONE, "mode %s.%s has MODE_NAME %r: the chooser's own 'None' entry (or its empty-name rule) "
                      "hides it, options %s for %d modes; it cannot be chosen and is not preselected when DEFAULT"
                      % (s0, c0["cname"], c0["mode"], obs["options"], len(modes))))
    if kclash and fms:
        lost = [(s, c) for s, c in healthy if ident(s, c) not in list(modes.values())]
        if lost:
            s0, c0 = lost[0]
            v.append((FP_CLASH, "FMS attached: healthy mode %s.%s (%r) is not offered, its entry was overwritten by a "
                      "duplicate stored under the artificial key <class>_<file>" % (s0, c0["cname"], c0["mode"])))
    if not dup and not clash:
        wantm = {c["mode"]: ident(s, c) for s, c in healthy}
        if modes != wantm:
            v.append(("modes-by-name", "selector.modes is not {MODE_NAME: instance} of the healthy mode classes: %s vs %s"
                      % (sorted(modes.items())[:4], sorted(wantm.items())[:4])))
        if sorted(obs["options"]) != sorted(list(wantm) + ["None"]):
            v.append(("options", "chooser options %s, expected the MODE_NAMEs plus 'None' %s"
                      % (obs["options"], sorted(list(wantm) + ["None"]))))
    if "None" not in obs["options"]:
        v.append(("options-none", "chooser offers no 'None' choice: %s" % obs["options"]))
    # every healthy mode still offered (FMS or not, once construction succeeded)
    if not clash:
        vals = list(modes.values())
        for s, c in healthy:
            keys = [k for k, i in modes.items() if i == ident(s, c)]
            if not keys:
                v.append(("healthy-not-offered", "healthy mode %s.%s (%r) is not in selector.modes" % (s, c["cname"], c["mode"])))
            elif not any(k in obs["options"] for k in keys):
                v.append(("healthy-not-offered", "healthy mode %s.%s is not among the chooser options" % (s, c["cname"])))
    # preselection
    hdef = [(s, c) for s, c in healthy if truth(c["default"])]
    if not clash:
        dkeys = [k for (s, c) in hdef for k, i in modes.items() if i == ident(s, c)]
        if len(hdef) == 0 and obs["default"] != "None":
            v.append(("default", "no mode is marked DEFAULT but the chooser preselects %r" % obs["default"]))
        if len(hdef) == 1 and obs["default"] not in dkeys:
            v.append(("default", "mode %r is marked DEFAULT but the chooser preselects %r" % (dkeys, obs["default"])))
        if len(hdef) > 1 and obs["default"] not in dkeys:
            v.append(("default", "chooser preselects %r which is not one of the DEFAULT modes %r" % (obs["default"], dkeys)))
    if obs.get("problem"):
        v.append(("lifecycle-crash", obs["problem"]))
        return v
    lv = oracle_lifecycle(obs, modes)
    falsy = ["%s.%s (%s)" % (k, c["cname"], TRUTH_TEXT[c["truth"]]) for k, c in healthy if c.get("truth") in FALSY_TRUTHS]
    if lv and obs.get("iterfn", []).count("list") >= 2:
        lv = [(fp, text + "; run() was given iter_fn as ONE list object for all %d run() periods of this history "
               "(it had 2 functions when it was made, %s now)" % (obs["iterfn"].count("list"), obs.get("iter_list_len")))
              for fp, text in lv]
    if lv and falsy:
        lv = [(fp, text + "; instances of %s are falsy -- modes all the same: only None means 'no mode'" % ", ".join(falsy[:3]))
              for fp, text in lv]
    v += lv
    return v


CTOR_TEXT = {"init": "its __init__ raises", "new": "its __new__ raises", "meta": "its metaclass's __call__ raises",
             "abstract": "it is an abstract class (abc, an abstract method is not implemented): TypeError",
             "abstract_plain": "it is an abstract class (abc, an abstract method is not implemented): TypeError",
             "needs_args": "its __init__ wants an argument the selector does not pass: TypeError",
             "needs_args_plain": "its __init__ wants an argument the selector does not pass: TypeError"}


TRUTH_TEXT = {"len0": "__len__ returns 0", "bool_false": "__bool__ returns False",
              "len_grows": "__len__ = number of on_iteration calls so far: 0 when the period begins"}


def import_text(imp):
    if not imp:
        return "?"
    if imp[0] == "importerror":
        return "%s(name=%r)" % ("ModuleNotFoundError" if imp[1] else "ImportError", imp[2])
    return {"ok": "nothing", "other": "an exception other than ImportError"}.get(imp[0], imp[0])


def timer_ready(mops):
    """periodic() is not called before the first start()"""
    for o in mops:
        if o[0] == "start":
            return True
        if o[0] == "periodic":
            return False
    return True


def wf_ops(mops):
    ph = "fresh"
    for o in mops:
        if o[0] == "start":
            if ph == "open":
                return False
            ph = "open"
        elif o[0] == "periodic":
            if ph == "fresh":
                return False
        elif o[0] == "disable":
            if ph == "open":
                ph = "idle"
        elif o[0] == "run":
            if ph == "open":
                return False
    return True


def oracle_lifecycle(obs, modes):
    v = []
    mops = obs["mops"]
    if not timer_ready(mops):
        return v        # periodic() before the first start(): the property does not say what happens
    if obs["attrerr"]:
        v.append(("attribute-error", "periodic() raised AttributeError although start() had been called before"))
        return v

    def chosen(dash, choice):
        if dash is not None and dash in modes:
            return modes[dash]
        name = choice if choice is not None else obs["default"]
        if name in obs["options"] and name != "None" and name in modes:
            return modes[name]
        return None

    # expected shape: per period E, I*n, and D when a disable() ends it (with the elapsed time of every iteration).
    # A period begins with start() or run(), whatever was going on before: the mode chosen THEN is the only one
    # that may hear anything until the next period begins.  (A start()/periodic() period that is not followed by
    # disable() simply ends there -- the class documentation allows that; the property lets the period end with or
    # without on_disable then: an on_disable of its mode right where the next period begins is accepted, optional.)
    exp = []        # (code, ident, period index, expected elapsed us[, "optional"])
    cur = None
    t_start = 0
    exited = False
    per = 0
    for o in mops:
        if o[0] in ("start", "run") and cur:
            exp.append((2, cur, per, 0, "optional"))
        if o[0] == "start":
            per += 1
            cur = chosen(o[1], o[2])
            t_start = o[3]
            if cur:
                exp.append((0, cur, per, 0))
        elif o[0] == "periodic":
            if cur:
                exp.append((1, cur, per, o[1] - t_start))
        elif o[0] == "disable":
            if cur:
                exp.append((2, cur, per, 0))
            cur = None
        elif o[0] == "end":
            exited = True
        elif o[0] == "run":
            per += 1
            m = chosen(o[1], o[2])
            if m:
                exp.append((0, m, per, 0))
                closed = False
                if not exited:
                    for wk in o[4]:
                        if not wk[1]:
                            break
                        if not closed:
                            exp.append((1, m, per, wk[0] - o[3]))
                        if len(wk) > 2 and wk[2] and not closed:
                            # disable() was called during this pass of the loop: on_disable now, and nothing after
                            # it, however long the driver station stays in autonomous+enabled
                            exp.append((2, m, per, 0))
                            closed = True
                if not closed:
                    exp.append((2, m, per, 0))
            cur = None          # run() ends with its own disable(): nothing is active afterwards
    got = [(k, i) for k, i, t in obs["events"]]
    resolved = []
    for e in exp:
        if len(e) > 4 and (len(resolved) >= len(got) or got[len(resolved)] != (e[0], e[1])):
            continue                    # the optional on_disable was not delivered
        resolved.append(e[:4])
    exp = resolved
    want = [(k, i) for k, i, p, _ in exp]
    if got != want:
        # name the clause
        n = 0
        while n < len(got) and n < len(want) and got[n] == want[n]:
            n += 1
        names = ["on_enable", "on_iteration", "on_disable", "constructor"]
        g = "%s of %s" % (names[got[n][0]], got[n][1][1]) if n < len(got) else "nothing"
        w = "%s of %s" % (names[want[n][0]], want[n][1][1]) if n < len(want) else "nothing"
        if n > 0 and n < len(got) and got[n - 1][0] == 2 and got[n][0] != 0:
            w += " (the mode's on_disable has been delivered: nothing may follow it in this period)"
        fp = "lifecycle:%s-instead-of-%s" % (names[got[n][0]] if n < len(got) else "nothing",
                                              names[want[n][0]] if n < len(want) else "nothing")
        if n < len(got) and n < len(want) and got[n][0] == want[n][0]:
            fp = "lifecycle:wrong-mode"
        v.append((fp, "callback %d is %s, the property requires %s" % (n, g, w)))
        return v
    # elapsed time: non-decreasing and >= 0 inside a period, and it is the time since the period began
    last = {}
    for (k, i, t), (_, _, p, te) in zip(obs["events"], exp):
        if k == 1:
            if t < 0 or (p in last and t < last[p]):
                v.append(("lifecycle:time-decreases", "on_iteration elapsed time %d us after %s us in one period" % (t, last.get(p))))
                break
            if abs(t - te) > 2:
                v.append(("lifecycle:not-elapsed-time", "on_iteration got t=%d us, %d us have elapsed since the period began" % (t, te)))
                break
            last[p] = t
    return v


# ---------------------------------------------------------------------------
# the check

def load_corpus():
    """[(file name, case)]"""
    d = os.path.join(CORPUS, PID)
    out = []
    if os.path.isdir(d):
        for n in sorted(os.listdir(d)):
            if n.endswith(".json"):
                try:
                    out.append((n, json.load(open(os.path.join(d, n)))["case"]))
                except Exception:
                    pass
    return out


def resolve_dir(case, base):
    """corpus cases may mention their own package directory as {dir} (artificial duplicate keys)."""
    d = pkg_dir(case["pkg"], base)
    for m in case["pkg"].get("modules", []):
        for c in m["classes"]:
            if isinstance(c.get("mode_tpl", None), str):
                c["mode"] = c["mode_tpl"].replace("{dir}", d)
    for o in case["ops"]:
        if o[0] in ("start", "run"):
            tpl = o[-1] if isinstance(o[-1], dict) else None
            if tpl:
                if tpl.get("dash") is not None:
                    o[1] = tpl["dash"].replace("{dir}", d)
                if tpl.get("choice") is not None:
                    o[2] = tpl["choice"].replace("{dir}", d)


def key_clash(case, base):
    need = needed_classes(case)
    ren = set(c["cname"] + "_" + f for s, c in need for f in candidate_files(case["pkg"], base, s))
    return any(c["mode"] in ren for _, c in need)


def candidate_files(pkg, base, key):
    """the file names the selector may associate with a module: its own, and a shadowed file of the same name"""
    out = [mod_file(pkg, base, key)]
    for m in effective_modules(pkg):
        if shadowed(pkg, m) and m["stem"] == key.split("|")[0]:
            out.append(mod_file(pkg, base, skey(pkg, m)))
    return out


def renumber(cases):
    for k, c in enumerate(cases):
        c["idx"] = k
        c["pkg"]["name"] = "c14p%05d" % k
    return cases


def nontrivial(case, obs):
    return obs.get("err") == 0 and len(obs.get("modes", [])) >= 2 and len(obs.get("events", [])) >= 3


def shrink(case, fails):
    """greedy: drop ops, modules, classes, extras while `fails(case)` stays true."""
    import copy
    cur = copy.deepcopy(case)
    changed = True
    budget = 60
    while changed and budget > 0:
        changed = False
        cands = []
        for i in range(len(cur["ops"])):
            c = copy.deepcopy(cur)
            del c["ops"][i]
            cands.append(c)
        for i in range(len(cur["pkg"].get("modules", []))):
            c = copy.deepcopy(cur)
            del c["pkg"]["modules"][i]
            cands.append(c)
            for j in range(len(cur["pkg"]["modules"][i]["classes"])):
                c = copy.deepcopy(cur)
                del c["pkg"]["modules"][i]["classes"][j]
                cands.append(c)
        for flag in ("hidden", "txt", "subpkg", "dotted", "namespace"):
            if flag == "dotted" and (PKG_FAIL_KINDS.get(cur["pkg"]["kind"]) or pkg_absent(cur["pkg"]["kind"])):
                continue
            if cur["pkg"].get(flag):
                c = copy.deepcopy(cur)
                c["pkg"][flag] = False
                cands.append(c)
        if cur["pkg"].get("init_classes"):
            c = copy.deepcopy(cur)
            c["pkg"]["init_classes"] = []
            cands.append(c)
        if cur.get("iterfn") not in (None, "func"):
            c = copy.deepcopy(cur)
            c["iterfn"] = "func"
            cands.append(c)
        if ns_kind(cur["pkg"]) != "once":
            for simpler in {"thrice": ["twice"], "split_twice": ["twice", "split"]}.get(ns_kind(cur["pkg"]), []) + ["once"]:
                c = copy.deepcopy(cur)
                c["pkg"]["nspath"] = simpler
                cands.append(c)
        for i, m in enumerate(cur["pkg"].get("modules", [])):
            for j, x in enumerate(m["classes"]):
                if x.get("how") in CTOR_FLAVOURS:
                    c = copy.deepcopy(cur)
                    c["pkg"]["modules"][i]["classes"][j]["how"] = None
                    cands.append(c)
                if x.get("truth"):
                    c = copy.deepcopy(cur)
                    c["pkg"]["modules"][i]["classes"][j]["truth"] = None
                    cands.append(c)
        for c in cands:
            budget -= 1
            if budget <= 0:
                break
            if fails(c):
                cur = c
                changed = True
                break
    return cur


def run(ctx):
    ctx.assumptions.append(
        "C14: glob order and inspect.getmembers order are inputs (as observed); the order in which the distinct "
        "directories of an implicit package's __path__ are scanned is left open (set iteration: the model may agree "
        "for any order); whether the attempt to call a class that cannot be constructed shows in the constructor "
        "log is not compared (at most once); instance.MODE_NAME equals the class "
        "attribute; mode callbacks do not raise (C07's fault space); SendableChooser/SmartDashboard/NetworkTables, "
        "wpilib.Timer and the simulated DriverStation/FPGA clock are modelled (dict with overwrite, integer "
        "microseconds) and validated only by the correspondence")
    ctx.prove()
    # the lifecycle methods of the CURRENT source, translated again and proved equal to the model (fail-closed)
    from . import c14_translate
    c14_translate.obligation(ctx)
    base = os.path.join(ctx.work, "pk")
    total = 400 if ctx.tier == "quick" else 6000
    jobs = 8 if ctx.tier == "quick" else 16
    corpus = load_corpus()
    cases = [c for _, c in corpus]
    ncorpus = len(cases)
    cases += edge_cases(base, 0)
    while len(cases) < total:
        cases.append(gen_case(ctx.rng, len(cases), base))
    # ops of generated cases refer to paths through the package name: renumber before generating ops
    # (gen_case already used its final index; corpus/edge cases carry no path-dependent strings)
    for k, c in enumerate(cases):
        c["idx"] = k
        if c["pkg"]["name"] != "c14p%05d" % k:
            c["pkg"]["name"] = "c14p%05d" % k
        resolve_dir(c, base)
    obs = run_impl(cases, ctx.work, "main", jobs)
    herr = [(i, o["harness_error"]) for i, o in enumerate(obs) if o.get("harness_error")]
    ctx.obligation("corr:implementation driven on every generated layout", not herr, repr(herr[:3]))
    pairs = [(c, o) for c, o in zip(cases, obs) if not o.get("harness_error")]
    unprint = [c["idx"] for c, o in pairs if not printable(o)]
    ctx.obligation("corr:observations are printable ASCII", not unprint, repr(unprint[:5]))
    pairs = [(c, o) for c, o in pairs if printable(o)]
    wrong = [(c["idx"], c["pkg"]["kind"], o.get("imp")) for c, o in pairs if o.get("imp") != expected_import(c["pkg"])]
    ctx.obligation("corr:import_module(<package>) does on every layout what the layout's kind says", not wrong, repr(wrong[:3]))
    wrongp = [(c["idx"], ns_kind(c["pkg"]), o.get("nspath")) for c, o in pairs
              if (sorted(o["nspath"]) if o.get("nspath") is not None else None) != expected_nspath(c["pkg"], base)]
    ctx.obligation("corr:the __path__ of every implicit package lists the directories its layout says, repetitions "
                   "included (no __file__), every other package has a __file__", not wrongp, repr(wrongp[:3]))
    problems = [(c["idx"], o["problem"]) for c, o in pairs if o.get("problem")]
    ctx.obligation("corr:no call of the lifecycle crashed or hung", not problems, repr(problems[:3]))
    for c, o in pairs:
        ctx.count("fms=%s" % c["fms"])
        ctx.count("pkg=%s" % c["pkg"]["kind"])
        ctx.count("err=%d" % o["err"])
        ctx.count("import=%s" % import_class(c["pkg"], o["imp"]))
        if timer_ready(o["mops"]) and not wf_ops(o["mops"]):
            ctx.count("ops:period-begins-while-the-previous-one-was-not-disabled")
            nchg = count_changed_open(o["mops"])
            if nchg:
                ctx.count("ops:...and-another-chooser-selection-is-in-force", nchg)
        ctx.count("modules=%d" % len(c["pkg"].get("modules", [])))
        if o.get("nspath") is not None:
            ctx.count("implicit-package:__path__=%s" % ns_kind(c["pkg"]))
            if len(o["nspath"]) != len(set(o["nspath"])) and o["err"] == 0 and o["ctors"]:
                ctx.count("implicit-package:a-directory-listed-again,built,>=1-constructor-call")
        for m in effective_modules(c["pkg"]):
            if shadowed(c["pkg"], m):
                live = [x for x in live_modules(c["pkg"]) if x["stem"] == m["stem"]][0]
                ctx.count("implicit-package:module-name-in-both-directories,%s" % (
                    "shadowed-file-would-not-import" if m["fail"] else
                    "same-classes" if m["classes"] == live["classes"] and not live["fail"] else "other-classes"))
        for m in live_modules(c["pkg"]):
            for x in m["classes"]:
                if x.get("inh") and x["mode"] is not None and not m["fail"]:
                    ctx.count("mode-class:DISABLED-by-inheritance=%s" % x["inh"])
        for _, x in needed_classes(c):
            ctx.count("needed-class:constructor=%s" % (how_of(x) or "plain"))
            if x.get("truth"):
                ctx.count("needed-class:instance-truth=%s" % x["truth"])
        falsy_ids = [[mod_file(c["pkg"], base, k), x["cname"]] for k, x in needed_classes(c) if x.get("truth") in FALSY_TRUTHS]
        nfalsy = sum(1 for e in o["events"] if e[0] == 0 and e[1] in falsy_ids)
        if nfalsy:
            ctx.count("period:on_enable-delivered-to-a-falsy-instance", nfalsy)
        first_ctor_fault = [x for _, x in needed_classes(c) if x["raises"]]
        if first_ctor_fault and not c["fms"] and o["err"] == 3:
            ctx.count("no-fms:raised-by-constructor-failure=%s" % how_of(first_ctor_fault[0]))
        ctx.count("modes=%s" % (len(o["modes"]) if len(o["modes"]) < 4 else ">=4"))
        for op in o["mops"]:
            ctx.count("op=%s" % op[0])
            if op[0] == "run" and any(len(w) > 2 and w[2] for w in op[4]):
                k = [len(w) > 2 and w[2] for w in op[4]].index(True)
                later = sum(1 for w in op[4][k + 1:] if w[1])
                ctx.count("run:disable()-during-loop,%s" % ("loop-goes-on" if later else "last-pass"))
        if o["attrerr"]:
            ctx.count("AttributeError")
        for k in o.get("iterfn", []):
            ctx.count("run:iter_fn=%s" % k)
        if o.get("iterfn", []).count("list") >= 2:
            ctx.count("run:the-same-iter_fn-list-passed-to-several-periods")
        if any(k != "None" and "/" in k for k in o["options"]):
            ctx.count("fms-renamed-duplicate")
    items = [("cases_%d" % k, cases_file(sh, base)) for k, sh in enumerate(shards(pairs, SHARD))]
    res = ctx.coq_files_parallel(items)
    bad = []
    for k, (name, _) in enumerate(items):
        rc, out = res[name]
        lists = parse_eval_lists(out) if rc == 0 else []
        ok = rc == 0 and len(lists) == 2 and lists[0] == []
        ctx.obligation("corr:%s (Selector.Corr.check_case: model == AutonomousModeSelector)" % name, ok,
                       out[-1500:] if rc != 0 else "disagreeing cases %s clauses %s" % (lists[0][:20], lists[1][:20]) if lists else out[-500:])
        if rc == 0 and lists and lists[0]:
            bad += [pairs[k * SHARD + i] for i in lists[0]]
    ctx.coverage.update({
        "evaluations": len(pairs),
        "traces_validated_against_impl": len(pairs),
        "distinct_nontrivial": sum(1 for c, o in pairs if nontrivial(c, o)),
        "rule": "layouts: corpus, %d hand-written edge cases, then seeded random packages (0-4 modules, 0-4 classes "
                "each, MODE_NAME/DISABLED/DEFAULT with truthy/falsy spellings, duplicates, failing imports of 5 kinds, "
                "constructors that fail in one of %d ways (__init__/__new__/metaclass __call__ raising, abstract class "
                "via abc with and without a __new__ that logs the attempt, __init__ wanting an argument) and healthy "
                "classes with the same machinery (abc without abstract methods / with them implemented, delegating "
                "metaclass, own __new__), implicit namespace packages whose __path__ has one directory, the same "
                "directory two or three times (sys.path lists it again) or two directories contributing different "
                "modules (flat and under an implicit parent package), missing package / missing sub-package, 12%% packages that exist but whose "
                "import fails in one of %d ways (own or parent's __init__: exception, missing unrelated dependency, "
                "missing sub-module, missing module of the parent package, ImportError without a name / naming another "
                "module), namespace and dotted "
                "packages, classes in __init__.py, hidden/.txt/sub-package decoys), half of them repaired to be "
                "fault-free, FMS on/off, call sequences of start/periodic/disable, run() periods with 0-6 iterations "
                "ended by disable/teleop/endCompetition, in a third of them disable() called on the selector during "
                "one of the passes (by the iter_fn hook or by another thread) with the loop going on, 18%% TimedRobot "
                "histories of 2-4 start()/periodic() periods mostly NOT followed by disable() with the chooser selection "
                "changed in between (another mode or 'None'), 15%% of other start() periods not followed by disable(), "
                "12%% otherwise ill-formed; non-trivial = built, >= 2 modes and >= 3 "
                "callbacks delivered" % (len(EDGE_CASES), len(CTOR_FAILS), len(PKG_FAIL_KINDS)),
        "corpus_cases": ncorpus,
        "samples": [{"fms": c["fms"], "modules": [(skey(c["pkg"], m), m["fail"], [(x["cname"], x["mode"]) for x in m["classes"]])
                                                   for m in c["pkg"].get("modules", [])],
                     "ops": o["mops"][:6], "err": o["err"], "options": o["options"], "default": o["default"],
                     "events": o["events"][:8]} for c, o in pairs[len(EDGE_CASES) + ncorpus:][:3]],
        "exhaustive": False,
    })

    # the witnesses of the open known findings are replayed on every run
    known = []
    for k, (n, c) in enumerate(corpus):
        if n in WITNESSES and not obs[k].get("harness_error"):
            kv = violation_of(c, obs[k], base, known=True)
            if kv:
                kv["witness"] = "corpus/%s/%s" % (PID, n)
                known.append(kv)
    ctx.coverage["known_finding_witnesses_still_failing"] = [kv["fingerprint"] for kv in known]
    found = []
    if ctx.broken():
        try:
            found = search_violation(ctx, base, bad, cases, obs) or []
        except Exception as e:      # the search must never hide the broken obligation
            ctx.coverage["search_error"] = repr(e)
    return ctx.finish(oracle_violations=known + found)


def import_class(pkg, imp):
    if imp[0] != "importerror":
        return {"ok": "ok", "other": "exception-other-than-ImportError"}.get(imp[0], imp[0])
    name = pkg_import_name(pkg)
    cls = "ModuleNotFoundError" if imp[1] else "plain-ImportError"
    if imp[2] is None:
        return cls + ":name-is-None"
    if (name + ".").startswith(imp[2] + "."):
        lvl = "the-package" if imp[2] == name else "its-first-component" if "." not in imp[2] else "a-package-in-the-middle"
        return cls + ":names-" + lvl
    if imp[2].split(".")[0] == name.split(".")[0]:
        return cls + ":names-another-module-under-the-same-top-level-name"
    return cls + ":names-an-unrelated-module"


def count_changed_open(mops):
    """periods that begin while the previous start() period was not disabled, with another chooser selection"""
    n = 0
    open_choice = None
    is_open = False
    for o in mops:
        if o[0] in ("start", "run"):
            if is_open and o[2] is not None and o[2] != open_choice:
                n += 1
            is_open = o[0] == "start"
            open_choice = o[2] if o[2] is not None else open_choice
        elif o[0] == "disable":
            is_open = False
    return n


def violation_of(case, obs, base, known=False):
    """first violation of the property on this observation; the open known findings only when asked for"""
    vs = [x for x in oracle(case, obs, base) if (x[0] in KNOWN_FPS) == known]
    if not vs:
        return None
    fp, text = vs[0]
    return {"kind": "input", "what": "fms=%s: %s" % (case["fms"], text), "fingerprint": fp, "case": case,
            "observed": {k: obs.get(k) for k in ("imp", "nspath", "iterfn", "iter_list_len", "err", "exc", "ctors", "modes", "options", "default", "events", "mops", "attrerr", "problem")}}


def search_violation(ctx, base, bad, cases, obs):
    sbase = os.path.join(ctx.work, "pk")
    counter = [100000]

    def rerun(cs):
        for c in cs:
            counter[0] += 1
            c["pkg"]["name"] = "c14p%05d" % counter[0]
            resolve_dir(c, sbase)
        return run_impl(cs, ctx.work, "s%d" % counter[0], 8)

    found = None
    # 1. the disagreeing cases, then every case already observed
    for c, o in bad:
        found = violation_of(c, o, sbase)
        if found:
            break
    if not found:
        for c, o in zip(cases, obs):
            if o.get("harness_error"):
                continue
            found = violation_of(c, o, sbase)
            if found:
                break
    # 2. a larger batch
    if not found:
        t0 = time.time()
        k = 0
        while not found and time.time() - t0 < 240 and k < 10:
            batch = [gen_case(ctx.rng, 200000 + k * 400 + i, sbase) for i in range(400)]
            ob = rerun(batch)
            for c, o in zip(batch, ob):
                if o.get("harness_error"):
                    continue
                found = violation_of(c, o, sbase)
                if found:
                    break
            k += 1
    if not found:
        return []
    fp = found["fingerprint"]

    def fails(c):
        import copy
        c = copy.deepcopy(c)
        o = rerun([c])[0]
        if o.get("harness_error"):
            return False
        return any(f == fp for f, _ in oracle(c, o, sbase))

    small = shrink(found["case"], fails)
    import copy
    c2 = copy.deepcopy(small)
    o2 = rerun([c2])[0]
    v2 = violation_of(c2, o2, sbase) if not o2.get("harness_error") else None
    return [v2 or found]


def replay(ctx, obj):
    if obj.get("kind") != "input":
        print("replay names broken obligations only: %s" % [b["name"] if isinstance(b, dict) else b
                                                            for b in obj.get("broken_obligations", [])])
        return run(ctx)
    case = obj["case"]
    case["pkg"]["name"] = "c14p%05d" % 99999
    base = os.path.join(ctx.work, "pk")
    resolve_dir(case, base)
    o = run_impl([case], ctx.work, "replay", 1)[0]
    if o.get("harness_error"):
        print("harness error: %s" % o["harness_error"])
        return 1
    print("fms=%s iter_fn=%s layout=%s" % (case["fms"], case.get("iterfn") or "func", json.dumps(case["pkg"])[:600]))
    print("calls=%s" % (case["ops"],))
    print("ops=%s   (run: [clock us, autonomous+enabled, disable() called during this pass] per loop pass)" % (o["mops"],))
    print("package=%s kind=%s: import_module() raises %s" % (pkg_import_name(case["pkg"]), case["pkg"]["kind"], import_text(o.get("imp"))))
    if o.get("nspath") is not None:
        print("implicit package (no __file__), __path__ = %s" % (o["nspath"],))
    for m in effective_modules(case["pkg"]):
        if shadowed(case["pkg"], m):
            print("file %s has the name of a file in an earlier directory of __path__: Python never imports it"
                  % mod_file(case["pkg"], base, skey(case["pkg"], m)))
    for m in live_modules(case["pkg"]):
        for c in m["classes"]:
            if c.get("inh"):
                print("class %s.%s inherits DISABLED = True from the mixin _Off%s of its module%s" % (
                    m["stem"], c["cname"], c["cname"],
                    " and sets DISABLED = %r in its own body" % (c["disabled"],) if c["inh"] == "reenabled" else
                    " (its own body does not mention DISABLED): marked DISABLED"))
            if c.get("truth") in FALSY_TRUTHS:
                print("instances of class %s.%s are falsy (%s)" % (m["stem"], c["cname"], TRUTH_TEXT[c["truth"]]))
            if c.get("raises"):
                print("class %s.%s cannot be constructed: %s" % (m["stem"], c["cname"], CTOR_TEXT[how_of(c)]))
    print("exception=%s constructor calls=%s" % (o["exc"], [c[1] for c in o["ctors"]]))
    print("modes=%s options=%s default=%r" % ([(k, i[1]) for k, i in o["modes"]], o["options"], o["default"]))
    print("callbacks=%s" % ([(k, i[1], t) for k, i, t in o["events"]],))
    if o.get("iterfn"):
        print("run(iter_fn=...) per period: %s%s" % (o["iterfn"], "; the caller's list has %s entries afterwards (2 when made)"
                                                     % o["iter_list_len"] if "iter_list_len" in o else ""))
    vs = oracle(case, o, base)
    import shutil
    shutil.rmtree(ctx.work, ignore_errors=True)
    if vs:
        for fp, text in vs:
            print("property fails [%s]: %s" % (fp, text))
        print("VIOLATION property=C14 replay=(replayed)")
        return 1
    print("property holds on this input")
    return 0


if __name__ == "__main__":
    if len(sys.argv) == 4 and sys.argv[1] == "--worker":
        worker_main(sys.argv[2], sys.argv[3])
