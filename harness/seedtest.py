#!/usr/bin/env python3
"""Confirm a seeded change and run the property's check against it.

usage: harness/seedtest.py <ID> <worktree> <n> [--tier quick]

The change lives in <worktree>/_seed/<n>/{patch.diff,demo.py,meta.json} (written by an
independent bug-seeding agent that saw only the property text).  Steps:
  1. clean worktree: demo must pass;  2. apply the patch: the repo's 43 tests must pass and the
  demo must fail;  3. run ./check <ID> with VERIF_REPO=<worktree>;  4. undo the patch.
Kept changes are copied to /verif/seeded/<ID>_<n>/ with what was run and what the check said."""
import json
import os
import shutil
import subprocess
import sys

ROOT = os.path.dirname(os.path.dirname(os.path.abspath(__file__)))


def sh(cmd, cwd=None, timeout=900, env=None):
    try:
        p = subprocess.run(cmd, shell=True, cwd=cwd, stdout=subprocess.PIPE, stderr=subprocess.STDOUT, text=True,
                           timeout=timeout, env=env)
        return p.returncode, p.stdout
    except subprocess.TimeoutExpired as e:
        return 124, (e.stdout or "") + "\nTIMEOUT"


def main():
    pid, wt, n = sys.argv[1], sys.argv[2], sys.argv[3]
    tier = sys.argv[sys.argv.index("--tier") + 1] if "--tier" in sys.argv else "quick"
    sd = os.path.join(wt, "_seed", n)
    patch = os.path.join(sd, "patch.diff")
    demo = "timeout -k 5 180 env PYTHONPATH=%s /venv/bin/python _seed/%s/demo.py" % (wt, n)
    rec = {"property": pid, "n": n, "ran": []}
    sh("git checkout -- . ; rm -f networktables.json", cwd=wt)
    rc, out = sh(demo, cwd=wt)
    rec["demo_clean_rc"] = rc
    rec["ran"].append(demo + "  (clean tree) -> rc %d" % rc)
    rc, out = sh("git apply --check %s && git apply %s" % (patch, patch), cwd=wt)
    rec["apply_rc"] = rc
    if rc != 0:
        rec["verdict"] = "patch does not apply"
        print(json.dumps(rec, indent=1))
        return 2
    rc, out = sh("timeout -k 5 600 /venv/bin/python -m pytest -q -p no:cacheprovider 2>&1 | tail -3; rm -f networktables.json", cwd=wt)
    rec["pytest_tail"] = out.strip().splitlines()[-1] if out.strip() else ""
    rec["ran"].append("pytest -q (patched) -> %s" % rec["pytest_tail"])
    rc, out = sh(demo, cwd=wt)
    rec["demo_patched_rc"] = rc
    rec["demo_patched_out"] = out.strip().splitlines()[-1][:300] if out.strip() else ""
    rec["ran"].append(demo + "  (patched) -> rc %d: %s" % (rc, rec["demo_patched_out"]))
    env = dict(os.environ, VERIF_REPO=wt)
    env.pop("VERIF_REEXEC", None)
    rc, out = sh("timeout -k 10 1500 ./check %s --tier %s" % (pid, tier), cwd=ROOT, env=env, timeout=1600)
    rec["check_rc"] = rc
    lines = [l for l in out.splitlines() if l.startswith("VIOLATION") or l.startswith("  what") or l.startswith("KNOWN") or l.startswith("  broken")]
    rec["check_out"] = lines[:8]
    rec["ran"].append("VERIF_REPO=%s ./check %s --tier %s -> rc %d" % (wt, pid, tier, rc))
    viol = [l for l in lines if l.startswith("VIOLATION")]
    rec["detected"] = bool(viol)
    rec["concrete_replay"] = bool(viol) and "no-failing-input-found" not in viol[0]
    # keep the replay file
    if viol:
        rp = viol[0].split("replay=")[1].split()[0]
        if os.path.exists(rp):
            rec["replay_file"] = os.path.basename(rp)
    sh("git checkout -- . ; rm -f networktables.json", cwd=wt)
    valid = rec["demo_clean_rc"] == 0 and rec["demo_patched_rc"] != 0 and "43 passed" in rec["pytest_tail"]
    rec["valid_seed"] = valid
    print(json.dumps(rec, indent=1))
    if valid:
        dst = os.path.join(ROOT, "seeded", "%s_%s" % (pid, n))
        os.makedirs(dst, exist_ok=True)
        shutil.copy(patch, os.path.join(dst, "patch.diff"))
        shutil.copy(os.path.join(sd, "demo.py"), os.path.join(dst, "demo.py"))
        meta = {}
        try:
            meta = json.load(open(os.path.join(sd, "meta.json")))
        except Exception:
            pass
        meta.update({"confirmed": rec})
        if rec.get("replay_file") and viol:
            try:
                shutil.copy(rp, os.path.join(dst, "replay.json"))
            except Exception:
                pass
        json.dump(meta, open(os.path.join(dst, "meta.json"), "w"), indent=1)
    return 0


if __name__ == "__main__":
    sys.exit(main())
