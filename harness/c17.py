"""C17: Sharp IR distance readings are bounded, monotone and invert the sim model.

The theorems (coq/theories/Properties/C17.v) are about a real-valued model
(`reading`, `volts` of coq/theories/IR/Model.v).  Tie to the source, redone on
every run: the coefficients, exponents, limits and the floor are literals
inside methods, so they are tied by correspondence --

  * every sampled voltage (ADC codes code*5/4096 V, the special doubles
    0, -0.0, negatives, denormals, huge, +-inf, the clamp boundaries, random
    doubles) is put on the real `wpilib.AnalogInput` simulation
    (`AnalogInputSim.setVoltage`), `getDistance()` of the driver from
    $VERIF_REPO is read back, and ONE COQ LEMMA PER SAMPLE
        close ctol <impl double> (reading_<sensor> <voltage double>)
    is emitted; the doubles are written as their exact binary rationals.
    The lemma is closed per clamp branch by a helper lemma of IR/Proofs.v whose
    only numeric premise goes to `interval with (i_prec 80)`;
  * every sampled distance goes through the real `*Sim` helper:
    setDistance(d), then three lemmas per sample: the voltage the helper put
    on the input against `volts_<sensor> d`, the driver's reading at that
    voltage against `reading_<sensor>`, and the reading against the clamped d;
    plus `get_distance (set_distance .. d) = <what helper.getDistance()
    returned>`.

ctol = 1e-12 (relative).  The comparison is by VALUE: a rewrite that computes
the same numbers (other order of min/max, `x ** e`, renamed locals) is silent.

A runtime scan (labelled as such; it is about libm, not a theorem) checks that
the 4096 readings per sensor never increase with the code.

The reading must depend on the pin voltage ONLY.  Every sample is therefore
taken on a different state of the rest of the simulated roboRIO
(`wpilib.simulation.RoboRioSim`: 5 V / 3.3 V / 6 V user rails, battery voltage,
rail enable flags, currents, brownout threshold, CPU temperature -- nominal,
sagging, 0 V, negative, tiny, huge, +-inf, switched off, random), the state is
part of the generated lemma (`rio_reads .. (Build_rio <pin> <rails..>) <impl
double>`, IR/Model.v) whose model side looks at the pin alone
(C17_rio_reading / C17_rio_pin_only of Properties/C17.v), the full ADC sweep
is repeated under several states and must be bit-identical, and the
counter-example search returns the failing (roboRIO state, voltage) pair.
"""
import ast
import copy
import importlib
import json
import math
import os
import sys
import threading
import time
from fractions import Fraction

from .common import CORPUS, REPO

# the model's parameter sets, only used to choose the helper lemma (clamp
# branch) for a sample; a wrong choice can only make a lemma fail
SENSORS = [
    dict(key="A02", cls="SharpIR2Y0A02", sim="SharpIR2Y0A02Sim", c="62.28", e="-1.092", lo="22.5", hi="145"),
    dict(key="A21", cls="SharpIR2Y0A21", sim="SharpIR2Y0A21Sim", c="26.449", e="-1.226", lo="10", hi="80"),
    dict(key="A41", cls="SharpIR2Y0A41", sim="SharpIR2Y0A41Sim", c="12.84", e="-0.9824", lo="4.5", hi="35"),
]
for _s in SENSORS:
    for _k in ("c", "e", "lo", "hi"):
        _s["F" + _k] = Fraction(_s[_k])
        _s["f" + _k] = float(_s[_k])
FL = Fraction("0.00001")
BY_KEY = {s["key"]: s for s in SENSORS}
NCODES = 4096
VREF = 5.0
ORACLE_TOL = 1e-9
INF = float("inf")

# ---------------------------------------------------------------------------
# the rest of the simulated roboRIO ("env"): a tuple in the order of ENV_FIELDS
# ---------------------------------------------------------------------------
ENV_FIELDS = ("v5", "v3v3", "v6", "vin", "on5", "on3v3", "on6", "i5", "i3v3", "i6", "iin", "brownout", "cputemp")
ENV_DOC = {"v5": "5 V user rail (RoboRioSim.setUserVoltage5V)", "v3v3": "3.3 V user rail", "v6": "6 V user rail",
           "vin": "battery / input voltage (setVInVoltage)", "on5": "5 V rail enabled", "on3v3": "3.3 V rail enabled",
           "on6": "6 V rail enabled", "i5": "5 V rail current", "i3v3": "3.3 V rail current", "i6": "6 V rail current",
           "iin": "input current", "brownout": "brownout voltage", "cputemp": "CPU temperature"}
NOMINAL = (5.0, 3.3, 6.0, 12.0, True, True, True, 0.0, 0.0, 0.0, 0.0, 6.75, 45.0)
ENV_SETTERS = ("setUserVoltage5V", "setUserVoltage3V3", "setUserVoltage6V", "setVInVoltage", "setUserActive5V",
               "setUserActive3V3", "setUserActive6V", "setUserCurrent5V", "setUserCurrent3V3", "setUserCurrent6V",
               "setVInCurrent", "setBrownoutVoltage", "setCPUTemp")
ENV_GETTERS = ("getVoltage5V", "getVoltage3V3", "getVoltage6V", "getInputVoltage", "getEnabled5V", "getEnabled3V3",
               "getEnabled6V", "getCurrent5V", "getCurrent3V3", "getCurrent6V", "getInputCurrent", "getBrownoutVoltage",
               "getCPUTemp")


def env_with(**kw):
    e = list(NOMINAL)
    for k, x in kw.items():
        e[ENV_FIELDS.index(k)] = x
    return tuple(e)


def same_val(a, b):
    if isinstance(a, bool) or isinstance(b, bool):
        return a is b
    return a == b and math.copysign(1.0, a) == math.copysign(1.0, b)


def env_diff(env):
    """the fields that are not nominal, {field: value}"""
    return {f: x for f, x, n in zip(ENV_FIELDS, env, NOMINAL) if not same_val(x, n)}


def env_text(env):
    d = env_diff(env)
    if not d:
        return "the roboRIO in its nominal state (rails 5 / 3.3 / 6 V, battery 12 V)"
    return "the roboRIO with " + ", ".join("%s = %r" % (ENV_DOC[f].split(" (")[0], x) for f, x in d.items()) + \
        " (everything else nominal)"


def env_json(env):
    return {f: (x if isinstance(x, bool) else fhex(float(x))) for f, x in env_diff(env).items()}


def env_unjson(j):
    kw = {}
    for f, x in (j or {}).items():
        if f in ENV_FIELDS:
            kw[f] = x if isinstance(x, bool) else float(unhex(x))
    return env_with(**kw)


def edge_envs(extra=()):
    """[(tag, env)]: nominal first, then ONE field off nominal at a time (simplest report first), then combinations"""
    nx = math.nextafter
    out = [("nominal", NOMINAL)]
    out += [("corpus", e) for e in extra]
    one = [("v5", [4.6, 4.9, 5.2, 4.75, 5.25, 2.5, 10.0, 0.0, -0.0, -1.0, nx(5.0, 9.0), nx(5.0, 0.0), 1e-5, 5e-324,
                   1e308, INF, -INF]),
           ("vin", [6.3, 7.0, 10.5, 13.2, 5.0, 0.0, -1.0, 1e308, INF, -INF]),
           ("v3v3", [3.0, 3.6, 5.0, 0.0, -1.0, INF]),
           ("v6", [5.5, 6.5, 5.0, 0.0, -1.0, INF]),
           ("on5", [False]), ("on3v3", [False]), ("on6", [False]),
           ("i5", [0.5, 2.0, INF]), ("i3v3", [0.5]), ("i6", [2.2]), ("iin", [40.0, 180.0]),
           ("brownout", [6.25, 0.0, 13.0]), ("cputemp", [0.0, 85.0, -40.0])]
    for f, vals in one:
        out += [("one:" + f, env_with(**{f: x})) for x in vals]
    out += [
        ("combo", env_with(v5=0.0, on5=False)),                                     # 5 V rail faulted / switched off
        ("combo", env_with(v5=0.0, v3v3=0.0, v6=0.0, on5=False, on3v3=False, on6=False)),
        ("combo", env_with(vin=6.3, v6=0.0, on6=False, v5=4.6, v3v3=3.2, iin=120.0)),   # brownout stage 1
        ("combo", env_with(vin=4.4, v6=0.0, on6=False, v5=0.0, on5=False, v3v3=0.0, on3v3=False)),
        ("combo", env_with(v5=4.6, v3v3=3.0, v6=5.5, vin=10.5, i5=1.5, i3v3=0.8, i6=2.0, iin=90.0, cputemp=70.0)),
        ("combo", env_with(v5=5.2, v3v3=3.4, v6=6.2, vin=13.5)),
        ("combo", env_with(v5=INF, v3v3=INF, v6=INF, vin=INF)),
        ("combo", env_with(v5=-INF, v3v3=-INF, v6=-INF, vin=-INF, on5=False)),
        ("combo", env_with(v5=1.0, v3v3=1.0, v6=1.0, vin=1.0, brownout=1.0)),
    ]
    return out


def random_env(r):
    """every field off nominal most of the time; values on a 1/1024 grid (short literals)"""
    def q(x):
        return round(x * 1024) / 1024

    def volt(nom):
        k = r.random()
        if k < 0.15:
            return nom
        if k < 0.70:
            return q(nom * r.uniform(0.8, 1.1))
        if k < 0.85:
            return q(r.uniform(0.0, 15.0))
        return r.choice([0.0, -0.0, -1.0, -12.0, 5e-324, 1e-5, 1.0, 1e308, INF, -INF])
    return (volt(5.0), volt(3.3), volt(6.0), volt(12.0),
            r.random() < 0.75, r.random() < 0.75, r.random() < 0.75,
            q(r.uniform(0.0, 3.0)), q(r.uniform(0.0, 2.0)), q(r.uniform(0.0, 3.0)), q(r.uniform(0.0, 200.0)),
            q(r.uniform(3.0, 9.0)), q(r.uniform(-20.0, 100.0)))


HEADER = ("From Coq Require Import Reals Lra.\nFrom Interval Require Import Tactic.\n"
          "From RV Require Import IR.Model IR.Proofs.\nOpen Scope R_scope.\n")


# ---------------------------------------------------------------------------
# driving the implementation
# ---------------------------------------------------------------------------
class Rig:
    """The three drivers on analog ports 0..2 of the simulated HAL, each with the
    wpilib AnalogInputSim of its input and with its own *Sim helper."""

    def __init__(self):
        for m in [k for k in sys.modules if k.startswith("robotpy_ext.common_drivers.distance_sensors")]:
            del sys.modules[m]
        self.simmod = importlib.import_module("robotpy_ext.common_drivers.distance_sensors_sim")
        self.mod = sys.modules["robotpy_ext.common_drivers.distance_sensors"]
        from wpilib.simulation import AnalogInputSim, RoboRioSim
        import wpilib
        self._set = [getattr(RoboRioSim, n) for n in ENV_SETTERS]
        self._get = [getattr(wpilib.RobotController, n) for n in ENV_GETTERS]
        self._battery = wpilib.RobotController.getBatteryVoltage
        self._env = None
        self.env_bad = []        # (env, what RobotController reported) where a setter was not read back
        self.apply(NOMINAL, check=True)
        self.s = {}
        for port, S in enumerate(SENSORS):
            sensor = getattr(self.mod, S["cls"])(port)
            ain = AnalogInputSim(sensor.distance)
            helper = getattr(self.simmod, S["sim"])(sensor)
            self.s[S["key"]] = (sensor, ain, helper)

    def apply(self, env, check=False):
        """put the rest of the simulated roboRIO in state env (a tuple in the order of ENV_FIELDS)"""
        if env is self._env and not check:
            return
        for f, x in zip(self._set, env):
            f(x)
        self._env = env
        if check:
            got = [g() for g in self._get]
            # `==`, not the sign of a zero: the simulation keeps the stored value when the new one compares equal
            if not (all(type(a) is type(b) and a == b for a, b in zip(got, env)) and self._battery() == env[3]):
                self.env_bad.append((env, got))

    def read(self, key, v, env=NOMINAL):
        """voltage v on the input, the roboRIO in state env -> (seen voltage, outcome)"""
        sensor, ain, _ = self.s[key]
        self.apply(env)
        ain.setVoltage(v)
        seen = sensor.distance.getVoltage()
        try:
            x = sensor.getDistance()
        except Exception as ex:  # noqa: BLE001 - an exception IS the observation
            return seen, ("exc", type(ex).__name__, str(ex)[:80])
        return seen, ("ok", x)

    def read_fresh(self, key, v, env=NOMINAL):
        """the same observation through a sensor object that was just created (spare analog port): the very first voltage a
        driver object ever sees may be any voltage at all"""
        import gc
        from wpilib.simulation import AnalogInputSim
        S = BY_KEY[key]
        self.apply(env)
        port = 3 + [x["key"] for x in SENSORS].index(key)
        sensor = getattr(self.mod, S["cls"])(port)
        ain = AnalogInputSim(sensor.distance)
        ain.setVoltage(v)
        seen = sensor.distance.getVoltage()
        try:
            out = ("ok", sensor.getDistance())
        except Exception as ex:  # noqa: BLE001
            out = ("exc", type(ex).__name__, str(ex)[:80])
        del ain, sensor
        gc.collect()
        return seen, out

    def read_held(self, key, v, env=NOMINAL, hold=1.5):
        """the voltage is held: read, let `hold` seconds of FPGA time pass, read again -> the second outcome"""
        import hal.simulation
        import wpilib.simulation
        self.read(key, v, env)
        hal.simulation.pauseTiming()
        wpilib.simulation.stepTiming(hold)
        return self.read(key, v, env)

    def read_step(self, key, v1, v2, env=NOMINAL, dt=0.02):
        """the voltage steps: read at v1, one control-loop period of FPGA time passes, read at v2 -> the second outcome"""
        import hal.simulation
        import wpilib.simulation
        self.read(key, v1, env)
        hal.simulation.pauseTiming()
        wpilib.simulation.stepTiming(dt)
        return self.read(key, v2, env)

    def set(self, key, d, env=NOMINAL):
        """helper.setDistance(d), the roboRIO in state env ->
        (outcome of the call, helper.getDistance(), voltage, reading)"""
        sensor, ain, helper = self.s[key]
        self.apply(env)
        # every other call goes through a helper that was just created (what a test that builds its own helper sees) and
        # starts from a voltage the previous call did not leave behind: the reading must come from THIS setDistance(d)
        self._nset = getattr(self, "_nset", 0) + 1
        if self._nset % 2 == 1:
            S = BY_KEY[key]
            helper = getattr(self.simmod, S["sim"])(sensor)
        else:
            ain.setVoltage(VREF / 2 if sensor.distance.getVoltage() != VREF / 2 else VREF / 4)
        try:
            helper.setDistance(d)
        except Exception as ex:  # noqa: BLE001
            return ("exc", type(ex).__name__, str(ex)[:80]), None, None, None
        g = helper.getDistance()
        u = sensor.distance.getVoltage()
        try:
            x = sensor.getDistance()
        except Exception as ex:  # noqa: BLE001
            return ("ok",), g, u, ("exc", type(ex).__name__, str(ex)[:80])
        return ("ok",), g, u, ("ok", x)


def is_num(x):
    return isinstance(x, (int, float)) and not isinstance(x, bool)


def finite(x):
    return is_num(x) and math.isfinite(x)


def code_volts(code):
    return code * VREF / NCODES          # exact: code*5 < 2**15, /2**12


def fhex(x):
    """exact, type-preserving text of an int or a double"""
    return x.hex() if isinstance(x, float) else "int:%d" % x


def unhex(s):
    if isinstance(s, (int, float)):
        return s
    if s.startswith("int:"):
        return int(s[4:])
    return float.fromhex(s)


# ---------------------------------------------------------------------------
# the property, stated directly over implementation observations (the oracle
# of the counter-example search; never the deciding method)
# ---------------------------------------------------------------------------
def clampf(S, d):
    return max(min(d, S["fhi"]), S["flo"])


def oracle_voltage(S, v, out):
    """clauses of C17 that speak about ONE voltage; returns None or (clause, text)"""
    if out[0] != "ok":
        return "exception", "getDistance() raised %s(%s)" % (out[1], out[2])
    x = out[1]
    if not finite(x):
        return "finite", "getDistance() = %r is not a finite number" % (x,)
    if not (S["flo"] <= x <= S["fhi"]):
        return "range", "getDistance() = %r is outside %s..%s cm" % (x, S["lo"], S["hi"])
    if v > 0 and math.isfinite(v):
        try:
            ref = S["fc"] * math.pow(v, S["fe"])
        except OverflowError:
            ref = INF
        if S["flo"] <= ref <= S["fhi"] and abs(x - ref) > ORACLE_TOL * ref:
            return "power-law", "getDistance() = %r but %s*V^%s = %r is inside the range" % (x, S["c"], S["e"], ref)
    return None


def oracle_monotone(pairs):
    """pairs: [(v, x)] with finite x; first increase of the reading with the voltage, or None"""
    ps = sorted(pairs, key=lambda p: p[0])
    best = None
    for (v1, x1), (v2, x2) in zip(ps, ps[1:]):
        if v1 < v2 and x2 > x1:
            best = (v1, x1, v2, x2)
            break
    return best


def oracle_distance(S, d, res):
    call, g, u, out = res
    if call[0] != "ok":
        return "sim-exception", "setDistance(%r) raised %s(%s)" % (d, call[1], call[2])
    if not (type(g) is type(d) and g == d):
        return "sim-remembers", "after setDistance(%r) the helper's getDistance() returns %r" % (d, g)
    if out[0] != "ok":
        return "exception", "after setDistance(%r) getDistance() raised %s(%s)" % (d, out[1], out[2])
    x = out[1]
    if not finite(x):
        return "finite", "after setDistance(%r) getDistance() = %r" % (d, x)
    want = clampf(S, d)
    if abs(x - want) > ORACLE_TOL * want:
        return "sim-inverse", "after setDistance(%r) the sensor reads %r, not %r" % (d, x, want)
    return None


def oracle_pin_only(S, v, o_nom, o_env):
    """the reading is a function of the input voltage: the same voltage read on two states of the rest of the
    roboRIO gives the same distance (both calls returned a finite number; anything else is another clause)"""
    if o_nom[0] == "ok" and o_env[0] == "ok" and finite(o_nom[1]) and finite(o_env[1]):
        a, b = o_nom[1], o_env[1]
        if abs(a - b) > ORACLE_TOL * max(abs(a), abs(b)):
            return "pin-only", "getDistance() = %r, but %r at the same voltage on the nominal roboRIO" % (b, a)
    return None


def _on(env):
    """suffix of a report line: the state of the rest of the roboRIO, when it is not the nominal one"""
    return "" if not env_diff(env) else " on " + env_text(env)


def v_violation(S, v, out, clause, text, env=NOMINAL):
    return {"kind": "input", "mode": "voltage", "sensor": S["key"], "voltage": repr(v), "voltage_hex": fhex(v),
            "env": env_json(env), "env_text": env_text(env),
            "clause": clause, "fingerprint": "C17:%s:%s" % (S["key"], clause),
            "what": "%s at %r V%s: %s" % (S["cls"], v, _on(env), text), "observed": repr(out)}


def mono_violation(S, m, env=NOMINAL):
    v1, x1, v2, x2 = m
    return {"kind": "input", "mode": "voltage-pair", "sensor": S["key"],
            "voltages": [repr(v1), repr(v2)], "voltages_hex": [fhex(v1), fhex(v2)],
            "env": env_json(env), "env_text": env_text(env),
            "clause": "monotone", "fingerprint": "C17:%s:monotone" % S["key"],
            "what": "%s%s: reading rises from %r cm at %r V to %r cm at %r V" % (S["cls"], _on(env), x1, v1, x2, v2)}


def d_violation(S, d, res, clause, text, env=NOMINAL):
    return {"kind": "input", "mode": "distance", "sensor": S["key"], "distance": repr(d), "distance_hex": fhex(d),
            "env": env_json(env), "env_text": env_text(env),
            "clause": clause, "fingerprint": "C17:%s:%s" % (S["key"], clause),
            "what": "%s%s: %s" % (S["sim"], _on(env), text), "observed": repr(res)}


# ---------------------------------------------------------------------------
# inputs
# ---------------------------------------------------------------------------
def corpus_inputs():
    p = os.path.join(CORPUS, "C17", "edge_inputs.json")
    try:
        j = json.load(open(p))
        return ([unhex(x) for x in j["voltages"]], [unhex(x) for x in j["distances"]],
                [env_unjson(e) for e in j.get("envs", [])])
    except (OSError, ValueError, KeyError):
        return [], [], []


def special_voltages(S):
    nx = math.nextafter
    fl = 0.00001
    out = [0.0, -0.0, -5e-324, -1e-300, -0.001, -1.0, -5.0, -1e308, -sys.float_info.max,
           5e-324, 1e-320, 2.2250738585072014e-308, 1e-300, 1e-100, 1e-10, 9.999e-6,
           nx(fl, 0.0), fl, nx(fl, 1.0), 1.1e-5, 1e-4, 1e-3, 1.0, VREF, nx(VREF, 9.0), 5.5, 12.0, 100.0,
           1e6, 1e100, 1e308, sys.float_info.max, INF, -INF]
    # the model's clamp boundaries (the voltages the helper uses for the limits) and their neighbours
    for lim in (S["fhi"], S["flo"]):
        b = math.pow(lim / S["fc"], 1 / S["fe"])
        out += [b, nx(b, 0.0), nx(b, 9.0), b * (1 - 1e-9), b * (1 + 1e-9), b * 0.999, b * 1.001]
    return out


def voltage_samples(ctx, S, scan, extra):
    """[(tag, v)] for one sensor.  scan: {code: outcome} of the full ADC sweep."""
    quick = ctx.tier != "thorough"
    codes = set(range(0, NCODES, 16)) | {1, 2, NCODES - 1} if quick else set(range(NCODES))
    bcodes = set()
    # where the implementation's reading enters / leaves a limit ...
    cls = []
    for code in range(NCODES):
        o = scan[code]
        x = o[1] if o[0] == "ok" else None
        cls.append("exc" if x is None else ("hi" if x == S["fhi"] else ("lo" if x == S["flo"] else "mid")))
    for code in range(NCODES - 1):
        if cls[code] != cls[code + 1]:
            bcodes |= {c for c in range(code - 2, code + 4) if 0 <= c < NCODES}
    # ... and where the model's does
    for lim in (S["fhi"], S["flo"]):
        b = math.pow(lim / S["fc"], 1 / S["fe"]) * NCODES / VREF
        if 0 <= b < NCODES:
            bcodes |= {c for c in range(int(b) - 2, int(b) + 4) if 0 <= c < NCODES}
    out = [("special", v) for v in extra + special_voltages(S)]
    out += [("boundary-code", code_volts(c)) for c in sorted(bcodes)]
    out += [("code", code_volts(c)) for c in sorted(codes - bcodes)]
    r = ctx.rng
    for _ in range(60 if quick else 1500):
        out.append(("random", r.uniform(0.0, VREF)))
    for _ in range(40 if quick else 500):
        out.append(("random-log", 10.0 ** r.uniform(-7, 3)))
    seen, res = set(), []
    for tag, v in out:
        k = fhex(v)
        if k not in seen:
            seen.add(k)
            res.append((tag, v))
    return res


class EnvPicker:
    """the state of the rest of the roboRIO for each sample: the special / boundary samples walk through the edge
    states (one field off nominal at a time, then combinations), the others get a random state (every field off
    nominal most of the time), every 6th the nominal one.  Own PRNG: the voltages / distances drawn from ctx.rng
    are the same as without it."""

    def __init__(self, seed, extra):
        import random
        self.r = random.Random("C17-env-%s" % (seed,))
        self.edges = edge_envs(extra)
        self.i = self.j = 0

    def pick(self, tag):
        if tag in ("special", "boundary-code"):
            self.i += 1
            return self.edges[self.i % len(self.edges)]
        self.j += 1
        if self.j % 6 == 0:
            return "nominal", NOMINAL
        return "random", random_env(self.r)


def special_distances(S):
    nx = math.nextafter
    lo, hi = S["flo"], S["fhi"]
    out = [0, 0.0, -0.0, -1, -5.0, -1e308, 5e-324, 1e-300, 1, 2, 5, 10, 25, 30, 50, 60, 100, 200, 1000,
           1e6, 1e300, sys.float_info.max, INF, -INF,
           lo, hi, nx(lo, 0.0), nx(lo, 1e9), nx(hi, 0.0), nx(hi, 1e9), lo * (1 - 1e-9), lo * (1 + 1e-9),
           hi * (1 - 1e-9), hi * (1 + 1e-9), int(hi), int(hi) + 1, int(lo), int(lo) + 1, (lo + hi) / 2]
    return out


def distance_samples(ctx, S, n, extra):
    r = ctx.rng
    lo, hi = S["flo"], S["fhi"]
    out = [("special", d) for d in extra + special_distances(S)]
    while len(out) < n:
        k = r.random()
        if k < 0.70:
            out.append(("inside", r.uniform(lo, hi)))
        elif k < 0.80:
            out.append(("below", r.uniform(-0.5 * lo, lo)))
        elif k < 0.90:
            out.append(("above", r.uniform(hi, 3 * hi)))
        elif k < 0.95:
            out.append(("int", r.randrange(-5, int(2 * hi))))
        else:
            out.append(("log", 10.0 ** r.uniform(-3, 5)))
    return out


# ---------------------------------------------------------------------------
# Coq emission
# ---------------------------------------------------------------------------
def lit(x):
    f = Fraction(x)
    n, d = f.numerator, f.denominator
    return "(%s / %d)" % (("(%d)" % n) if n < 0 else str(n), d)


def iv(unf):
    return "unfold %s; interval with (i_prec 80)" % unf


def zq(x):
    """numerator and denominator as arguments of the q_* lemmas (Z and positive)"""
    f = Fraction(x)
    n, d = f.numerator, f.denominator
    return "%s %d" % (("(%d)" % n) if n < 0 else str(n), d)


BOOL = "vm_compute; reflexivity"


def xlit(x):
    return "PInf" if x == INF else ("NInf" if x == -INF else "(Fin %s)" % lit(x))


def rio_lit(v, env):
    """the simulated roboRIO of one sample as a [rio] record of IR/Model.v (fields in the order of the Record)"""
    e = dict(zip(ENV_FIELDS, env))
    aux = " :: ".join(xlit(e[f]) for f in ("i5", "i3v3", "i6", "iin", "brownout", "cputemp")) + " :: nil"
    b = {True: "true", False: "false"}
    return "(Build_rio %s %s %s %s %s %s %s %s (%s))" % (
        xlit(v), xlit(e["v5"]), xlit(e["v3v3"]), xlit(e["v6"]), xlit(e["vin"]),
        b[e["on5"]], b[e["on3v3"]], b[e["on6"]], aux)


def reading_lemma(name, S, v, x, env=NOMINAL):
    """rio_reads .. <roboRIO with v on the pin and env on the rails> x: the implementation read x at voltage v
    while the rest of the roboRIO was in state env; the model side (rio_distance_opt) looks at the pin only, so
    the lemma reduces (K_rio_fin / K_rio_x) to  close ctol x (reading_K v).
    The rational side conditions (which clamp branch) are decided in Z by the
    q_* lemmas of IR/Proofs.v; the power-law premise goes to interval."""
    K = S["key"]
    adm = "_ _ _ _ _ %s_admissible" % K
    par = "%s_c %s_e %s_lo %s_hi floor_volts" % (K, K, K, K)
    if v == INF:
        return ("Lemma %s : rio_distance_opt %s %s = Some %s.\n"
                "Proof. apply (%s_rio_x _ PInf); [reflexivity | apply (corr_v_pinf %s); unfold %s_lo; lra]. Qed.\n"
                % (name, par, rio_lit(v, env), lit(x), K, adm, K)), "v=+inf"
    if v == -INF:
        return ("Lemma %s : rio_distance_opt %s %s = Some %s.\n"
                "Proof. apply (%s_rio_x _ NInf); [reflexivity | "
                "apply (corr_v_ninf %s _ %s_floor_reads_hi); unfold %s_hi; lra]. Qed.\n"
                % (name, par, rio_lit(v, env), lit(x), K, adm, K, K)), "v=-inf"
    st = "Lemma %s : rio_reads %s ctol %s %s.\n" % (name, par, rio_lit(v, env), lit(x))
    fv, fx = Fraction(v), Fraction(x)
    args = "%s %s" % (zq(v), zq(x))
    if fv <= FL:
        pf = "apply (%s_q_floor %s); %s" % (K, args, BOOL)
        br = "floor"
    elif fx == S["Fhi"]:
        pf = "apply (%s_q_hi %s); [%s | %s]" % (K, args, BOOL, iv("fr, ctol, %s_hi, %s_c, %s_e" % (K, K, K)))
        br = "hi"
    elif fx == S["Flo"]:
        pf = "apply (%s_q_lo %s); [%s | %s]" % (K, args, BOOL, iv("fr, ctol, %s_lo, %s_c, %s_e" % (K, K, K)))
        br = "lo"
    else:
        pf = "apply (%s_q_mid %s); [%s | %s]" % (K, args, BOOL, iv("fr, close, ctol, %s_c, %s_e" % (K, K)))
        br = "mid"
    return st + "Proof. apply (%s_rio_fin _ %s); [reflexivity | %s]. Qed.\n" % (K, lit(v), pf), br


def volts_lemma(name, S, d, u):
    """close ctol u (volts_K d): the helper put u volts on the input for distance d"""
    K = S["key"]
    tail = iv("fr, close, ctol, %s_lo, %s_hi, %s_c, %s_e" % (K, K, K, K))
    if d == INF or d == -INF:
        adm = "_ _ _ _ _ %s_admissible _ ctol_ok" % K
        w = "PInf" if d > 0 else "NInf"
        return ("Lemma %s : close ctol %s (volts_x %s_c %s_e %s_lo %s_hi %s).\nProof. apply (corr_volts_%s %s); %s. Qed.\n"
                % (name, lit(u), K, K, K, K, w, w.lower(), adm, tail))
    fd = Fraction(d)
    st = "Lemma %s : close ctol %s (volts_%s %s).\n" % (name, lit(u), K, lit(d))
    br = "hi" if fd >= S["Fhi"] else ("lo" if fd <= S["Flo"] else "mid")
    pf = "apply (%s_q_volts_%s %s %s); [%s | %s]" % (K, br, zq(d), zq(u), BOOL, tail)
    return st + "Proof. " + pf + ". Qed.\n"


def clamp_lemma(name, S, d, x):
    """close ctol x (clamp lo hi d): the sensor reads the clamped distance (all in Z)"""
    K = S["key"]
    if d == INF or d == -INF:
        adm = "_ _ _ _ _ %s_admissible _ ctol_ok" % K
        rat = "apply close_rat; unfold ctol, %s_lo, %s_hi; lra" % (K, K)
        w = "PInf" if d > 0 else "NInf"
        return ("Lemma %s : close ctol %s (clamp_x %s_lo %s_hi %s).\nProof. apply (corr_clamp_%s %s); %s. Qed.\n"
                % (name, lit(x), K, K, w, w.lower(), adm, rat))
    fd = Fraction(d)
    st = "Lemma %s : close ctol %s (clamp %s_lo %s_hi %s).\n" % (name, lit(x), K, K, lit(d))
    br = "hi" if fd >= S["Fhi"] else ("lo" if fd <= S["Flo"] else "mid")
    pf = "apply (%s_q_clamp_%s %s %s); %s" % (K, br, zq(d), zq(x), BOOL)
    return st + "Proof. " + pf + ". Qed.\n"


def cost(txt):
    return 45 if "interval" in txt else 8


def remembers_lemma(name, S, d, g):
    K = S["key"]
    return ("Lemma %s : get_distance (set_distance %s_c %s_e %s_lo %s_hi sim_init %s) = %s.\n"
            "Proof. cbn [get_distance set_distance sim_distance]. first [reflexivity | lra]. Qed.\n" % (name, K, K, K, K, lit(d), lit(g)))


# ---------------------------------------------------------------------------
# regenerated data: the literals of the two source files, read with `ast`
# ---------------------------------------------------------------------------
# Fail closed: anything that does not have one of the recognised shapes raises
# Shape; the caller records the `regen:` obligation as broken (nothing is
# guessed) and the normal counter-example search decides what is reported.
#
# Recognised, after inlining the straight-line local assignments of the method
# (so renamed or inlined locals do not matter):
#   driver.getDistance():  CLAMP( C * POW( max(self.distance.getVoltage(), FL), E ) )
#   helper.setDistance(d): self.<field> = d   (the raw parameter)
#                          <...>.setVoltage( POW( CLAMP(d) / C , EX ) )
#   helper.getDistance():  return self.<field>
#   CLAMP(x) = max(min(x, HI), LO) | min(max(x, LO), HI)      arguments in any order
#   POW(b,y) = math.pow(b, y) | b ** y
#   C * P | P * C;   x / C | x * (1 / C) | (1 / C) * x;   EX = A / B | literal
# Literals are numeric constants (optionally signed); their SOURCE TEXT is read
# as an exact decimal.
class Shape(Exception):
    pass


def _lit(src, node):
    sign = 1
    while isinstance(node, ast.UnaryOp) and isinstance(node.op, (ast.USub, ast.UAdd)):
        if isinstance(node.op, ast.USub):
            sign = -sign
        node = node.operand
    if not isinstance(node, ast.Constant) or isinstance(node.value, bool) or not isinstance(node.value, (int, float)):
        return None
    text = ast.get_source_segment(src, node)
    try:
        f = Fraction(text)
    except (TypeError, ValueError, ZeroDivisionError):
        raise Shape("numeric literal %r is not a plain decimal" % (text,))
    if float(f) != float(node.value):
        raise Shape("numeric literal %r does not read back as %r" % (text, node.value))
    return sign * f


def _subst(node, env):
    class T(ast.NodeTransformer):
        def visit_Name(self, n):
            if isinstance(n.ctx, ast.Load) and n.id in env:
                return copy.deepcopy(env[n.id])
            return n
    return T().visit(copy.deepcopy(node))


def _call(node, name):
    if not isinstance(node, ast.Call) or node.keywords:
        return None
    f = node.func
    if name in ("max", "min") and isinstance(f, ast.Name) and f.id == name:
        return node.args
    if name == "pow" and isinstance(f, ast.Attribute) and f.attr == "pow" and isinstance(f.value, ast.Name) \
            and f.value.id == "math":
        return node.args
    return None


def _one_lit(src, args, what):
    if args is None or len(args) != 2:
        raise Shape("%s: expected two arguments" % what)
    la, lb = _lit(src, args[0]), _lit(src, args[1])
    if (la is None) == (lb is None):
        raise Shape("%s: expected exactly one numeric literal" % what)
    return (la, args[1]) if la is not None else (lb, args[0])


def _clamp(src, node, what):
    """-> (x, lo, hi)"""
    for outer, inner in (("max", "min"), ("min", "max")):
        args = _call(node, outer)
        if args is not None:
            l1, n1 = _one_lit(src, args, what + " " + outer)
            l2, x = _one_lit(src, _call(n1, inner), what + " inner " + inner)
            return (x, l1, l2) if outer == "max" else (x, l2, l1)
    raise Shape("%s: not max(min(x, HI), LO) / min(max(x, LO), HI)" % what)


def _power(node, what):
    a = _call(node, "pow")
    if a is not None and len(a) == 2:
        return a[0], a[1]
    if isinstance(node, ast.BinOp) and isinstance(node.op, ast.Pow):
        return node.left, node.right
    raise Shape("%s: not math.pow(b, y) / b ** y" % what)


def _straight(fn, env):
    """inline a straight-line method body -> (self-attribute stores, call statements, returned expression)"""
    stores, calls, ret = {}, [], None
    for st in fn.body:
        if isinstance(st, ast.Expr) and isinstance(st.value, ast.Constant) and isinstance(st.value.value, str):
            continue
        if isinstance(st, ast.Assign) and len(st.targets) == 1:
            t, val = st.targets[0], _subst(st.value, env)
            if isinstance(t, ast.Name):
                env[t.id] = val
                continue
            if isinstance(t, ast.Attribute) and isinstance(t.value, ast.Name) and t.value.id == "self":
                stores[t.attr] = val
                continue
        if isinstance(st, ast.Expr) and isinstance(st.value, ast.Call):
            calls.append(_subst(st.value, env))
            continue
        if isinstance(st, ast.Return) and st is fn.body[-1]:
            ret = _subst(st.value, env) if st.value is not None else None
            continue
        raise Shape("%s(): statement `%s` at line %d is not straight-line" % (fn.name, type(st).__name__, st.lineno))
    return stores, calls, ret


def _method(tree, cls, name):
    for c in tree.body:
        if isinstance(c, ast.ClassDef) and c.name == cls:
            for f in c.body:
                if isinstance(f, ast.FunctionDef) and f.name == name:
                    if f.decorator_list:
                        raise Shape("%s.%s is decorated" % (cls, name))
                    return f
    raise Shape("%s.%s not found" % (cls, name))


def _is_self_attr(node):
    return isinstance(node, ast.Attribute) and isinstance(node.value, ast.Name) and node.value.id == "self"


def extract_driver(src, tree, cls):
    fn = _method(tree, cls, "getDistance")
    stores, calls, ret = _straight(fn, {})
    if stores or calls or ret is None:
        raise Shape("%s.getDistance(): more than assignments and a return" % cls)
    x, lo, hi = _clamp(src, ret, cls + ".getDistance() result")
    if not (isinstance(x, ast.BinOp) and isinstance(x.op, ast.Mult)):
        raise Shape("%s.getDistance(): clamped value is not C * power" % cls)
    c, pw = _one_lit(src, [x.left, x.right], cls + " coefficient")
    base, en = _power(pw, cls + " power law")
    e = _lit(src, en)
    if e is None:
        raise Shape("%s: exponent is not a literal" % cls)
    fl, v = _one_lit(src, _call(base, "max"), cls + " voltage floor max(getVoltage(), FL)")
    if not (isinstance(v, ast.Call) and not v.args and not v.keywords and isinstance(v.func, ast.Attribute)
            and v.func.attr == "getVoltage" and _is_self_attr(v.func.value) and v.func.value.attr == "distance"):
        raise Shape("%s: floored value is not self.distance.getVoltage()" % cls)
    return {"c": c, "e": e, "lo": lo, "hi": hi, "fl": fl}


def extract_helper(src, tree, cls):
    g = _method(tree, cls, "getDistance")
    gs, gc, gret = _straight(g, {})
    if gs or gc or not _is_self_attr(gret):
        raise Shape("%s.getDistance() is not `return self.<field>`" % cls)
    field = gret.attr
    fn = _method(tree, cls, "setDistance")
    if len(fn.args.args) != 2 or fn.args.vararg or fn.args.kwarg or fn.args.kwonlyargs or fn.args.defaults:
        raise Shape("%s.setDistance signature" % cls)
    raw = ast.Name(id="$d", ctx=ast.Load())
    stores, calls, ret = _straight(fn, {fn.args.args[1].arg: raw})
    if ret is not None:
        raise Shape("%s.setDistance returns a value" % cls)
    remembers = set(stores) == {field} and isinstance(stores[field], ast.Name) and stores[field].id == "$d"
    if set(stores) != {field}:
        raise Shape("%s.setDistance stores %s, getDistance reads %s" % (cls, sorted(stores), field))
    if len(calls) != 1 or not (isinstance(calls[0].func, ast.Attribute) and calls[0].func.attr == "setVoltage"
                               and len(calls[0].args) == 1 and not calls[0].keywords):
        raise Shape("%s.setDistance: expected exactly one <sim>.setVoltage(v) call" % cls)
    base, exn = _power(calls[0].args[0], cls + " inverse power law")

    def recip(n):
        if isinstance(n, ast.BinOp) and isinstance(n.op, ast.Div) and _lit(src, n.left) == 1:
            return _lit(src, n.right)
        return None
    if isinstance(base, ast.BinOp) and isinstance(base.op, ast.Div) and _lit(src, base.right) is not None:
        cl, c = base.left, _lit(src, base.right)
    elif isinstance(base, ast.BinOp) and isinstance(base.op, ast.Mult) and recip(base.right) is not None:
        cl, c = base.left, recip(base.right)
    elif isinstance(base, ast.BinOp) and isinstance(base.op, ast.Mult) and recip(base.left) is not None:
        cl, c = base.right, recip(base.left)
    else:
        raise Shape("%s: base of the power is not CLAMP(d) / C" % cls)
    x, lo, hi = _clamp(src, cl, cls + ".setDistance clamp")
    if not (isinstance(x, ast.Name) and x.id == "$d"):
        raise Shape("%s: the clamped value is not the parameter" % cls)
    ex = _lit(src, exn)
    if ex is None:
        if not (isinstance(exn, ast.BinOp) and isinstance(exn.op, ast.Div)):
            raise Shape("%s: exponent is neither a literal nor A / B" % cls)
        a, b = _lit(src, exn.left), _lit(src, exn.right)
        if a is None or b is None or b == 0:
            raise Shape("%s: exponent A / B with non-literal or zero parts" % cls)
        ex = a / b
    if c == 0:
        raise Shape("%s: division by a zero coefficient" % cls)
    return {"sim_c": c, "sim_lo": lo, "sim_hi": hi, "sim_ex": ex, "remembers": remembers, "field": field}


def regen_extract(repo):
    """-> ({key: dict of Fractions}, [(obligation name, ok, detail)])"""
    out, obs = {}, []
    for fname, kind in (("distance_sensors.py", "driver"), ("distance_sensors_sim.py", "helper")):
        path = os.path.join(repo, "robotpy_ext", "common_drivers", fname)
        try:
            src = open(path).read()
            tree = ast.parse(src)
        except (OSError, SyntaxError, ValueError) as ex:
            obs.append(("regen:%s can be read and parsed" % fname, False, repr(ex)))
            continue
        for S in SENSORS:
            cls = S["cls"] if kind == "driver" else S["sim"]
            name = "regen:%s has the recognised shape (literals read as exact decimals)" % cls
            try:
                vals = (extract_driver if kind == "driver" else extract_helper)(src, tree, cls)
            except Shape as ex:
                obs.append((name, False, str(ex)))
                continue
            except Exception as ex:  # noqa: BLE001 - fail closed
                obs.append((name, False, "extractor error %r" % (ex,)))
                continue
            obs.append((name, True, ""))
            out.setdefault(S["key"], {}).update(vals)
    return out, obs


def frac(f):
    n, d = f.numerator, f.denominator
    return "(%s / %d)" % (("(%d)" % n) if n < 0 else str(n), d)


def regen_files(vals):
    """Gen_ir.v (definitions) + per sensor Gen_ir_K.v (re-proved facts, instantiated theorems) and
    Gen_ds_K.v (regenerated constants = datasheet values of the property text = the model's)"""
    full = [S for S in SENSORS if {"c", "sim_c"} <= set(vals.get(S["key"], {}))]
    gen = "From Coq Require Import Reals.\nFrom RV Require Import IR.Model.\nOpen Scope R_scope.\n"
    per = []
    for S in full:
        K, v = S["key"], vals[S["key"]]
        for n in ("c", "e", "lo", "hi", "fl", "sim_c", "sim_lo", "sim_hi", "sim_ex"):
            gen += "Definition g_%s_%s : R := %s.\n" % (K, n, frac(v[n]))
        G = "g_%s_" % K
        p5 = " ".join(G + n for n in ("c", "e", "lo", "hi", "fl"))
        p4 = " ".join(G + n for n in ("c", "e", "lo", "hi"))
        unf = ", ".join(G + n for n in ("c", "e", "lo", "hi", "fl", "sim_c", "sim_lo", "sim_hi", "sim_ex"))
        adm = "_ _ _ _ _ %sadmissible" % G
        props = ("From Coq Require Import Reals Lra.\nFrom Interval Require Import Tactic.\n"
                 "From RV Require Import IR.Model IR.Proofs Properties.C17.\nFrom W Require Import Gen_ir.\n"
                 "Open Scope R_scope.\n"
                 "Lemma %(G)sadmissible : admissible %(p5)s.\nProof. unfold admissible, %(unf)s. lra. Qed.\n"
                 "Lemma %(G)sfloor_below_sim : %(G)sfl <= volts %(p4)s %(G)shi.\n"
                 "Proof. unfold volts. rewrite clamp_id by (unfold %(G)slo, %(G)shi; lra). unfold %(unf)s. "
                 "interval with (i_prec 80). Qed.\n"
                 "Lemma %(G)ssim_matches : %(G)ssim_c = %(G)sc /\\ %(G)ssim_lo = %(G)slo /\\ %(G)ssim_hi = %(G)shi /\\ "
                 "%(G)ssim_ex = 1 / %(G)se.\nProof. unfold %(unf)s. repeat split; lra. Qed.\n"
                 "Lemma %(G)ssim_is_volts : forall d, Rpower (clamp %(G)ssim_lo %(G)ssim_hi d / %(G)ssim_c) %(G)ssim_ex = "
                 "volts %(p4)s d.\nProof. intros d. destruct %(G)ssim_matches as (-> & -> & -> & ->). reflexivity. Qed.\n"
                 % dict(G=G, p5=p5, p4=p4, unf=unf))
        for t in ("no_exception", "in_range", "antitone", "strictly_decreasing_inside", "power_law", "floor",
                  "infinite_voltages", "sim_no_exception", "sim_remembers",
                  "rio_reading", "rio_pin_only", "rio_in_range", "rio_antitone", "rio_power_law"):
            props += "Definition %s%s := C17_%s %s.\n" % (G, t, t, adm)
        props += ("Definition %(G)ssim_inverse := fun d => C17_sim_inverse %(adm)s d %(G)sfloor_below_sim.\n"
                  "Definition %(G)ssim_inverse_inf := fun d => C17_sim_inverse_inf %(adm)s d %(G)sfloor_below_sim.\n"
                  "Definition %(G)ssim_sensor := fun s d => C17_sim_sensor %(adm)s s d %(G)sfloor_below_sim.\n"
                  "Definition %(G)srio_sim := fun r d => C17_rio_sim %(adm)s r d %(G)sfloor_below_sim.\n"
                  "Check (%(G)srio_reading : forall r : rio, rio_distance_opt %(p5)s r = "
                  "Some (reading_x %(p5)s (pin r))).\n"
                  "Check (%(G)srio_sim : forall (r : rio) (d : xreal), rio_distance_opt %(p5)s "
                  "(rio_set_distance %(p4)s r d) = Some (clamp_x %(G)slo %(G)shi d) /\\ "
                  "same_rails (rio_set_distance %(p4)s r d) r).\n"
                  "Check (%(G)sin_range : forall v, %(G)slo <= reading %(p5)s v <= %(G)shi).\n"
                  "Check (%(G)santitone : forall v1 v2, v1 <= v2 -> reading %(p5)s v2 <= reading %(p5)s v1).\n"
                  "Check (%(G)ssim_inverse : forall d, reading %(p5)s (volts %(p4)s d) = Rmax (Rmin d %(G)shi) %(G)slo).\n"
                  % dict(G=G, adm=adm, p5=p5, p4=p4))
        ds = ("From Coq Require Import Reals Lra.\nFrom RV Require Import IR.Model.\nFrom W Require Import Gen_ir.\n"
              "Open Scope R_scope.\n"
              "Lemma %(G)sdatasheet : %(G)sc = %(c)s /\\ %(G)se = %(e)s /\\ %(G)slo = %(lo)s /\\ %(G)shi = %(hi)s.\n"
              "Proof. unfold %(unf)s. repeat split; lra. Qed.\n"
              "Lemma %(G)sis_model : %(G)sc = %(K)s_c /\\ %(G)se = %(K)s_e /\\ %(G)slo = %(K)s_lo /\\ %(G)shi = %(K)s_hi.\n"
              "Proof. exact %(G)sdatasheet. Qed.\n"
              % dict(G=G, K=K, unf=unf, c=S["c"], e=S["e"], lo=S["lo"], hi=S["hi"]))
        per.append((S, "Gen_ir_%s" % K, props, "Gen_ds_%s" % K, ds))
    return gen, per


# ---------------------------------------------------------------------------
def run(ctx):
    ctx.assumptions += [
        "C17: float arithmetic and libm pow idealised as exact real arithmetic / Rpower; every sampled double is "
        "compared with the real model to 1e-12 relative, NaN is outside the quantifier",
        "C17: wpilib AnalogInput simulation returns the voltage that was set (checked on every sample); the 12-bit "
        "0-5 V input is modelled as the 4096 voltages code*5/4096",
        "C17: 'the rest of the roboRIO' is what wpilib.simulation.RoboRioSim can set and wpilib.RobotController reads "
        "(user rail voltages / currents / enable flags, input voltage and current, brownout voltage, CPU temperature); "
        "the model's getDistance (rio_distance_opt) reads the pin field of that record and nothing else",
        "C17: the generated per-sample lemmas are closed by `interval with (i_prec 80)` (coq-interval 4.6.1), which "
        "computes with Coq's primitive 63-bit integers: those lemmas (NOT the theorems of Properties/C17.v) depend on "
        "the Uint63/PrimInt63 axioms of the standard library in addition to the real-number axioms",
    ]
    # the proof part (make, Properties/C17.v, Print Assumptions, token scan) runs beside the
    # correspondence: Print Assumptions over Reals costs ~0.85 s per theorem
    def prove():
        try:
            ctx.prove()
        except Exception as ex:  # noqa: BLE001 - a crash of the proof step must not pass silently
            ctx.obligation("prove:Properties/C17.v checked", False, repr(ex))

    prover = threading.Thread(target=prove)
    prover.start()
    pend = []       # obligations of this thread, recorded after the prover's (stable order)

    def ob(name, ok, detail=""):
        pend.append((name, bool(ok), detail))

    state = {"rig": None, "vobs": {}, "dobs": {}, "first_bad": [], "edges": edge_envs()}

    def body():
        try:
            rig = Rig()
        except Exception as ex:  # noqa: BLE001
            ob("impl:the three drivers and their helpers can be constructed", False, repr(ex))
            return
        ob("impl:the three drivers and their helpers can be constructed", True)
        state["rig"] = rig
        cv, cd, ce = corpus_inputs()
        quick = ctx.tier != "thorough"
        picker = EnvPicker(ctx.seed, ce)
        state["edges"] = picker.edges
        pin_bad, nscan_env = [], 0
        lemmas = []          # (name, text, description)
        sim_reading_every = 4   # reading lemma at the helper's voltage: every 4th distance (and all specials)
        passthrough_bad, vbad, dbad, gbad, mono_bad = [], [], [], [], []
        nv = nd = 0
        samples = []
        for S in SENSORS:
            K = S["key"]
            # full ADC sweep (cheap at run time): monotonicity scan + where the clamp switches
            scan = {}
            for code in range(NCODES):
                seen, o = rig.read(K, code_volts(code))
                scan[code] = o
                state["vobs"][(K, NOMINAL, code_volts(code))] = o
            okpairs = [(code_volts(c), o[1]) for c, o in scan.items() if o[0] == "ok" and finite(o[1])]
            m = oracle_monotone(okpairs)
            if m:
                mono_bad.append((K, m))
            # the same sweep on other states of the rest of the roboRIO must give the same outcomes, bit for bit
            # (quick: every edge state on every 8th code and eight states on all codes; thorough: all on all)
            full = [e for _, e in picker.edges[1:]] + [random_env(picker.r) for _ in range(2 if quick else 30)]
            if quick:
                thin, full = full, full[:1] + [e for t, e in picker.edges if t == "combo"][:5] + full[-2:]
                for env in thin:
                    for code in range(0, NCODES, 8):
                        if rig.read(K, code_volts(code), env)[1] != scan[code]:
                            pin_bad.append((K, env_diff(env), code, scan[code], rig.read(K, code_volts(code), env)[1]))
                            break
                    nscan_env += 1
            for env in full:
                for code in range(NCODES):
                    if rig.read(K, code_volts(code), env)[1] != scan[code]:
                        pin_bad.append((K, env_diff(env), code, scan[code], rig.read(K, code_volts(code), env)[1]))
                        break
                nscan_env += 1
            # voltage samples -> lemmas
            for tag, v in voltage_samples(ctx, S, scan, cv):
                etag, env = picker.pick(tag)
                rig.apply(env, check=True)
                seen, o = rig.read(K, v, env)
                state["vobs"][(K, env, v)] = o
                ctx.count("roboRIO-state:%s" % etag)
                if not (seen == v and type(seen) is float):
                    passthrough_bad.append((K, v, seen))
                    continue
                nv += 1
                ctx.count("%s:voltage:%s" % (K, tag))
                if o[0] != "ok" or not finite(o[1]):
                    vbad.append((K, v, o))
                    continue
                name = "r_%s_%d" % (K, nv)
                txt, br = reading_lemma(name, S, v, o[1], env)
                ctx.count("%s:branch:%s" % (K, br))
                lemmas.append((name, txt, "%s getDistance() at %r V = %r%s" % (K, v, o[1], _on(env))))
                if len(samples) < 3 and br == "mid" and etag != "nominal":
                    samples.append({"sensor": K, "voltage": v, "getDistance": o[1], "roboRIO": env_diff(env)})
            # distances through the helper -> lemmas
            n = (2000 if quick else 50000) // len(SENSORS)
            for tag, d in distance_samples(ctx, S, n, cd):
                etag, env = picker.pick(tag)
                rig.apply(env, check=True)
                res = rig.set(K, d, env)
                state["dobs"][(K, fhex(d), type(d).__name__, env)] = (d, res)
                ctx.count("roboRIO-state:%s" % etag)
                call, g, u, o = res
                nd += 1
                ctx.count("%s:distance:%s" % (K, tag))
                if call[0] != "ok" or o[0] != "ok" or not finite(o[1]) or not finite(u):
                    dbad.append((K, d, res))
                    continue
                if not (type(g) is type(d) and g == d):
                    gbad.append((K, d, g))
                base = "d_%s_%d" % (K, nd)
                lemmas.append((base + "u", volts_lemma(base + "u", S, d, u), "%s setDistance(%r) -> %r V" % (K, d, u)))
                if nd % sim_reading_every == 0 or tag == "special":
                    txt, _ = reading_lemma(base + "r", S, u, o[1], env)
                    lemmas.append((base + "r", txt, "%s getDistance() at %r V = %r (after setDistance(%r))%s"
                                   % (K, u, o[1], d, _on(env))))
                lemmas.append((base + "c", clamp_lemma(base + "c", S, d, o[1]),
                               "%s reads %r after setDistance(%r)%s" % (K, o[1], d, _on(env))))
                if finite(d) and finite(g):
                    lemmas.append((base + "g", remembers_lemma(base + "g", S, d, g),
                                   "%s helper.getDistance() = %r after setDistance(%r)" % (K, g, d)))
                if len(samples) < 5 and tag == "inside" and etag != "nominal":
                    samples.append({"sensor": K, "setDistance": d, "voltage": u, "getDistance": o[1],
                                    "roboRIO": env_diff(env)})
        ob("impl:AnalogInputSim.setVoltage(v) -> AnalogInput.getVoltage() == v on every sample",
           not passthrough_bad, repr(passthrough_bad[:3]))
        ob("impl:getDistance() returns a finite number for every sampled voltage", not vbad, repr(vbad[:3]))
        fresh_bad, held_bad = [], []
        for S in SENSORS:
            for v in special_voltages(S):
                o = rig.read_fresh(S["key"], v)[1]
                if oracle_voltage(S, v, o):
                    fresh_bad.append((S["key"], v, o))
            for v in [code_volts(c) for c in (7, 300, 900, 2000, 3500)] + special_voltages(S)[:4]:
                o = rig.read_held(S["key"], v)[1]
                if oracle_voltage(S, v, o):
                    held_bad.append((S["key"], v, o))
        ob("impl:a driver object that was just created reads every special voltage (0, negative, infinite, huge ...) inside the clauses",
           not fresh_bad, repr(fresh_bad[:3]))
        ob("impl:a voltage that is held reads the same again after 1.5 s of FPGA time", not held_bad, repr(held_bad[:3]))
        ob("impl:setDistance(d) then getDistance() returns a finite number for every sampled distance",
           not dbad, repr(dbad[:3]))
        ob("impl:helper.getDistance() returns the d that was set", not gbad, repr(gbad[:3]))
        ob("runtime-scan:readings never increase over the 4096 ADC codes (about libm pow; not a theorem)",
           not mono_bad, repr(mono_bad[:3]))
        rig.apply(NOMINAL)
        ob("impl:every RoboRioSim setter (rails, battery, enable flags, currents, brownout, CPU temperature) is read "
           "back unchanged through wpilib.RobotController on every roboRIO state used", not rig.env_bad,
           repr(rig.env_bad[:2]))
        ob("runtime-scan:getDistance() over the ADC codes is bit-identical on %d other states of the roboRIO (user "
           "rails sagging / 0 V / negative / infinite / switched off, battery, currents ...): it depends on the pin "
           "voltage only" % nscan_env, not pin_bad, repr(pin_bad[:3]))
        # ---- regenerated data: the literals as the two source files have them now ----
        vals, robs = regen_extract(REPO)
        for o in robs:
            ob(*o)
        for S in SENSORS:
            if "remembers" in vals.get(S["key"], {}):
                ob("regen:%s.setDistance stores its raw parameter in the field getDistance() returns" % S["sim"],
                   vals[S["key"]]["remembers"], "self.%s is assigned something else" % vals[S["key"]]["field"])
        gen, per = regen_files(vals)
        # Properties/C17.vo and IR/*.vo must be up to date before anything is compiled against them
        while prover.is_alive() and not any(n == "make:coq" for (n, _, _) in list(ctx.obligations)):
            time.sleep(0.05)
        regen_items = []
        if per:
            rc, out = ctx.coq_file("Gen_ir", gen)
            ob("regen:Gen_ir.v (the literals of both files as exact rationals) compiles", rc == 0, out[-1500:])
            if rc == 0:
                for S, pn, pt, dn, dt in per:
                    regen_items += [(pn, pt), (dn, dt)]
        # ---- the lemma files, 16-way ------------------------------------
        nsh = 16 if quick else 64
        files, index = list(regen_items), {}
        # shards balanced by estimated cost (an interval goal ~45 ms, a lemma decided in Z ~8 ms)
        bins = [[0.0, []] for _ in range(nsh)]
        for lem in sorted(lemmas, key=lambda l: -cost(l[1])):
            b = min(bins, key=lambda b: b[0])
            b[0] += cost(lem[1])
            b[1].append(lem)
        for k in range(nsh):
            part = bins[k][1]
            if not part:
                continue
            text = HEADER
            line = text.count("\n") + 1
            starts = []
            for name, txt, desc in part:
                starts.append((line, name, desc))
                text += txt
                line += txt.count("\n")
            text += "Check %s.\n" % part[-1][0]
            fname = "corr_%02d" % k
            files.append((fname, text))
            index[fname] = (starts, len(part))
        res = ctx.coq_files_parallel(files, timeout=1500)
        import re
        for S, pn, pt, dn, dt in (per if regen_items else []):
            rc, out = res[pn]
            ob("regen:%s re-proved for the regenerated %s literals: admissible, fl <= volts hi, helper uses 1/e and the "
               "driver's c/lo/hi, generic theorems of Properties/C17.v instantiated" % (pn, S["cls"]), rc == 0, out[-1500:])
            rc, out = res[dn]
            ob("regen:%s regenerated %s constants equal the datasheet values %s*V^%s, %s..%s cm (and the model's)"
               % (dn, S["cls"], S["c"], S["e"], S["lo"], S["hi"]), rc == 0, out[-1500:])
        for fname, _ in files[len(regen_items):]:
            rc, out = res[fname]
            starts, n = index[fname]
            detail = ""
            if rc != 0:
                mm = re.search(r'line (\d+), characters', out)
                bad = None
                if mm:
                    ln = int(mm.group(1))
                    for (l0, name, desc) in starts:
                        if l0 <= ln:
                            bad = (name, desc)
                    if bad:
                        state["first_bad"].append(bad)
                detail = "first failing lemma: %r\n%s" % (bad, out[-1200:])
            ob("corr:%s (%d per-sample lemmas: implementation double vs real model, interval)" % (fname, n),
               rc == 0, detail)
        ctx.coverage.update({
            "evaluations": nv + nd,
            "traces_validated_against_impl": nv + nd,
            "lemmas_checked_by_coq": len(lemmas),
            "distinct_nontrivial": sum(v for k, v in ctx.dist.items() if ":branch:mid" in k) +
                                   sum(v for k, v in ctx.dist.items() if ":distance:inside" in k),
            "rule": "per sensor: ADC codes code*5/4096 V (%s), the codes around every switch of the clamp (of the "
                    "implementation and of the model), special doubles (0, -0.0, negatives, denormals, the floor and its "
                    "neighbours, > 5 V, huge, +-inf, the exact boundary voltages), random doubles; distances through the "
                    "helper: specials (0, negatives, ints, the limits and their neighbours, huge, +-inf) and random "
                    "inside/below/above; every sample on its own state of the rest of the simulated roboRIO (RoboRioSim: "
                    "5 V / 3.3 V / 6 V rails, battery, enable flags, currents, brownout voltage, CPU temperature; edge "
                    "states for the special samples, random states otherwise, every 6th nominal), which is part of the "
                    "lemma; non-trivial = voltage samples whose reading is strictly inside the range "
                    "(power-law branch) + distances strictly inside"
                    % ("every 16th code" if quick else "all 4096 codes"),
            "roboRIO_states": {"edge_states": len(picker.edges), "full_or_thinned_ADC_sweeps_per_sensor": nscan_env // 3},
            "exhaustive": False,
            "exhaustive_parts": ["runtime monotonicity scan: all 3*4096 codes",
                                 "pin-only scan: all 3*4096 codes on %d roboRIO states%s"
                                 % ((8, " (every 8th code on the other edge states)") if quick
                                    else (nscan_env // 3, ""))] +
                                ([] if quick else ["per-sample lemmas: all 3*4096 ADC codes"]),
            "samples": samples[:5],
            "tolerance": "1e-12 relative (ctol)",
            "regenerated": {k: {n: str(x) for n, x in v.items()} for k, v in vals.items()},
        })

    try:
        body()
    except Exception as ex:  # noqa: BLE001 - same for the correspondence step
        import traceback
        ob("harness:correspondence step completed", False, traceback.format_exc()[-1500:] or repr(ex))
    prover.join()
    for name, ok, detail in pend:
        ctx.obligation(name, ok, detail)

    def search():
        return search_violations(ctx, state)

    return ctx.finish(search=search)


# ---------------------------------------------------------------------------
def search_violations(ctx, state):
    """A concrete (roboRIO state, voltage) / (roboRIO state, distance) on which the PROPERTY fails on the
    implementation.  Preference: the clause (exception first), then the simplest state of the rest of the roboRIO
    (nominal, then one field off nominal, in the order of edge_envs), then ADC codes / round voltages / small
    integer distances."""
    rig = state["rig"]
    if rig is None:
        try:
            rig = Rig()
        except Exception:  # noqa: BLE001
            return []
    found = []
    order = {"exception": 0, "sim-exception": 0, "finite": 1, "range": 2, "sim-remembers": 3,
             "power-law": 4, "sim-inverse": 5, "pin-only": 6, "monotone": 7}
    r = ctx.rng
    edges = [e for _, e in state.get("edges") or edge_envs()]
    if not edges or edges[0] is not NOMINAL:
        edges = [NOMINAL] + edges
    rank = {}
    for k, e in enumerate(edges):
        rank.setdefault(e, k)
    extra_envs = [random_env(r) for _ in range(24)]

    def erank(env):
        return (len(env_diff(env)), rank.get(env, len(edges)))

    def shrink(env, fails):
        """put the fields back to nominal one at a time while the same clause still fails"""
        for f in list(env_diff(env)):
            cand = list(env)
            cand[ENV_FIELDS.index(f)] = NOMINAL[ENV_FIELDS.index(f)]
            cand = tuple(cand)
            if fails(cand):
                env = cand
        return env

    for S in SENSORS:
        K = S["key"]
        # ---- voltages: 1. everything already observed in this run (includes the disagreeing samples), with its
        # roboRIO state; 2. nominal state: all 4096 codes, the specials, a bigger random batch; 3. every edge state
        # and some random states: every 4th code and the specials
        base = [code_volts(c) for c in range(NCODES)] + special_voltages(S)
        work = [(env, v) for (k, env, v) in state["vobs"] if k == K]
        work += [(NOMINAL, v) for v in base]
        work += [(NOMINAL, r.uniform(0.0, VREF)) for _ in range(20000)]
        work += [(NOMINAL, 10.0 ** r.uniform(-12, 6)) for _ in range(5000)]
        thin = [code_volts(c) for c in range(0, NCODES, 4)] + special_voltages(S)
        for env in edges[1:] + extra_envs:
            work += [(env, v) for v in thin]
        nominal, per, pairs, seen = {}, [], {}, set()
        for env, v in work:
            key = (env, fhex(v))
            if key in seen:
                continue
            seen.add(key)
            _, o = rig.read(K, v, env)
            bad = oracle_voltage(S, v, o)
            if not bad and env_diff(env):
                if fhex(v) not in nominal:
                    nominal[fhex(v)] = rig.read(K, v, NOMINAL)[1]
                bad = oracle_pin_only(S, v, nominal[fhex(v)], o)
            elif not env_diff(env):
                nominal[fhex(v)] = o
            if bad:
                # prefer a simple roboRIO state, ADC codes, then round voltages (1 V, 2.5 V ...), then the nearest to 1 V
                per.append((order[bad[0]], erank(env), not _is_code(v), not _is_round(v), abs(v - 1.0), env, v, bad[0]))
            if o[0] == "ok" and finite(o[1]):
                pairs.setdefault(env, []).append((v, o[1]))
        if per:
            per.sort(key=lambda t: t[:5])
        done = set()
        for _, _, _, _, _, env, v, clause in per:
            # the best input of each clause that fails, at most two clauses per sensor (e.g. "raises with the 5 V
            # rail at 0 V" and "off the power law with the rail at 4.6 V")
            if clause in done or len(done) >= 2:
                continue
            done.add(clause)

            def fails(e, v=v, clause=clause):
                o = rig.read(K, v, e)[1]
                b = oracle_voltage(S, v, o) or (oracle_pin_only(S, v, rig.read(K, v, NOMINAL)[1], o)
                                                if env_diff(e) else None)
                return bool(b) and b[0] == clause
            env = shrink(env, fails)
            o = rig.read(K, v, env)[1]
            bad = oracle_voltage(S, v, o)
            if bad:
                found.append((order[bad[0]], v_violation(S, v, o, bad[0], bad[1], env)))
            else:
                o0 = rig.read(K, v, NOMINAL)[1]
                bad = oracle_pin_only(S, v, o0, o)
                if bad:
                    viol = v_violation(S, v, o, bad[0], bad[1], env)
                    viol["observed_nominal"] = repr(o0)
                    found.append((order[bad[0]], viol))
        # a driver object that was just created, at the special voltages; and voltages that are held for 1.5 s of FPGA time
        if not per:
            for v in special_voltages(S) + [code_volts(c) for c in range(0, NCODES, 256)]:
                o = rig.read_fresh(K, v)[1]
                bad = oracle_voltage(S, v, o)
                if bad:
                    viol = v_violation(S, v, o, bad[0], bad[1] + " (the first reading of a driver object that was just created)")
                    viol["mode"] = "voltage-fresh"
                    found.append((order[bad[0]], viol))
                    break
            else:
                for v in [code_volts(c) for c in range(64, NCODES, 128)] + special_voltages(S):
                    o = rig.read_held(K, v)[1]
                    bad = oracle_voltage(S, v, o)
                    if bad:
                        viol = v_violation(S, v, o, bad[0], bad[1] + " (the same voltage read again after 1.5 s of FPGA time)")
                        viol["mode"] = "voltage-held"
                        found.append((order[bad[0]], viol))
                        break
        # the voltage steps between two readings that are one loop period (20 ms of FPGA time) apart
        if not per:
            sv = special_voltages(S) + [code_volts(c) for c in range(64, NCODES, 256)]
            hit = False
            for v1 in (code_volts(1640), code_volts(490), sv[0], sv[-1]):
                for v2 in sv:
                    o = rig.read_step(K, v1, v2)[1]
                    bad = oracle_voltage(S, v2, o)
                    if bad:
                        viol = v_violation(S, v2, o, bad[0], bad[1] + " (read 20 ms of FPGA time after a reading at %r V)" % v1)
                        viol["mode"] = "voltage-step"
                        viol["prev_voltage_hex"] = fhex(v1)
                        found.append((order[bad[0]], viol))
                        hit = True
                        break
                if hit:
                    break
        # monotone: within one state of the roboRIO (ADC codes first)
        for env in sorted(pairs, key=erank):
            m = oracle_monotone([p for p in pairs[env] if _is_code(p[0])]) or oracle_monotone(pairs[env])
            if m:
                found.append((order["monotone"], mono_violation(S, m, env)))
                break
        # ---- distances through the helper, the same three stages
        ints = list(range(-5, int(2 * S["fhi"])))
        dwork = [(env, d) for (k, _, _, env), (d, _) in state["dobs"].items() if k == K]
        dwork += [(NOMINAL, d) for d in special_distances(S) + ints]
        dwork += [(NOMINAL, r.uniform(-S["flo"], 3 * S["fhi"])) for _ in range(20000)]
        for env in edges[1:] + extra_envs:
            dwork += [(env, d) for d in special_distances(S) + ints[::7]]
        perd = []
        for env, d in dwork:
            res = rig.set(K, d, env)
            bad = oracle_distance(S, d, res)
            if bad:
                nice = not (isinstance(d, int) or (finite(d) and float(d).is_integer()))
                # an in-range distance shows more than one that is clamped anyway
                inside = not (finite(d) and S["flo"] < d < S["fhi"])
                perd.append((order[bad[0]], erank(env), nice, inside, abs(d) if finite(d) else 1e999, env, d, bad[0]))
        if perd:
            perd.sort(key=lambda t: t[:5])
            _, _, _, _, _, env, d, clause = perd[0]

            def dfails(e, d=d, clause=clause):
                b = oracle_distance(S, d, rig.set(K, d, e))
                return bool(b) and b[0] == clause
            env = shrink(env, dfails)
            res = rig.set(K, d, env)
            bad = oracle_distance(S, d, res)
            if bad:
                found.append((order[bad[0]], d_violation(S, d, res, bad[0], bad[1], env)))
    rig.apply(NOMINAL)
    found.sort(key=lambda t: t[0])
    return [f for _, f in found]


def _is_round(v):
    return finite(v) and abs(v) < 1e6 and (v * 8) % 1 == 0


def _is_code(v):
    q = v * NCODES / VREF
    return finite(v) and 0 <= q < NCODES and q == int(q)


# ---------------------------------------------------------------------------
def replay(ctx, obj):
    if obj.get("kind") != "input":
        print("replay names broken obligations only: %s" % [b.get("name") for b in obj.get("broken_obligations", [])])
        return run(ctx)
    rig = Rig()
    S = BY_KEY[obj["sensor"]]
    K = S["key"]
    env = env_unjson(obj.get("env"))          # replay files written before the roboRIO state existed: nominal
    rig.apply(env, check=True)
    print("rest of the simulated roboRIO (wpilib.simulation.RoboRioSim): %s" % env_text(env)[4:])
    for f, x in env_diff(env).items():
        print("  RoboRioSim.%s(%r)   # %s" % (ENV_SETTERS[ENV_FIELDS.index(f)], x, ENV_DOC[f]))
    if rig.env_bad:
        print("  (RobotController does not report this state back: %r)" % (rig.env_bad[:1],))
    bad = None
    if obj["mode"] == "voltage":
        v = unhex(obj["voltage_hex"])
        seen, o = rig.read(K, v, env)
        print("%s: AnalogInputSim.setVoltage(%r); getVoltage() = %r; getDistance() -> %r" % (S["cls"], v, seen, o))
        bad = oracle_voltage(S, v, o)
        if not bad and env_diff(env):
            o0 = rig.read(K, v, NOMINAL)[1]
            print("%s: the same voltage on the nominal roboRIO: getDistance() -> %r" % (S["cls"], o0))
            bad = oracle_pin_only(S, v, o0, o)
    elif obj["mode"] in ("voltage-fresh", "voltage-held"):
        v = unhex(obj["voltage_hex"])
        seen, o = (rig.read_fresh if obj["mode"] == "voltage-fresh" else rig.read_held)(K, v, env)
        print("%s (%s): AnalogInputSim.setVoltage(%r); getDistance() -> %r" % (
            S["cls"], "a driver object that was just created" if obj["mode"] == "voltage-fresh" else "read again after 1.5 s of FPGA time", v, o))
        bad = oracle_voltage(S, v, o)
    elif obj["mode"] == "voltage-step":
        v1, v = unhex(obj["prev_voltage_hex"]), unhex(obj["voltage_hex"])
        seen, o = rig.read_step(K, v1, v, env)
        print("%s: getDistance() at %r V; 20 ms of FPGA time later setVoltage(%r); getDistance() -> %r" % (S["cls"], v1, v, o))
        bad = oracle_voltage(S, v, o)
    elif obj["mode"] == "voltage-pair":
        v1, v2 = [unhex(h) for h in obj["voltages_hex"]]
        o1, o2 = rig.read(K, v1, env)[1], rig.read(K, v2, env)[1]
        print("%s: getDistance() at %r V -> %r ; at %r V -> %r" % (S["cls"], v1, o1, v2, o2))
        bad = oracle_voltage(S, v1, o1) or oracle_voltage(S, v2, o2)
        if not bad and oracle_monotone([(v1, o1[1]), (v2, o2[1])]):
            bad = ("monotone", "the reading increases with the voltage")
    elif obj["mode"] == "distance":
        d = unhex(obj["distance_hex"])
        res = rig.set(K, d, env)
        print("%s: setDistance(%r) -> call %r, helper.getDistance() = %r, voltage = %r, sensor.getDistance() -> %r"
              % ((S["sim"], d) + tuple(res)))
        bad = oracle_distance(S, d, res)
    rig.apply(NOMINAL)
    if bad:
        print("clause %s fails: %s" % bad)
        print("VIOLATION property=C17 replay=(replayed)")
        return 1
    print("property holds on this input")
    return 0
