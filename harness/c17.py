"""C17: Sharp IR distance readings are bounded, monotone and invert the sim model.

The theorems (coq/theories/Properties/C17.v) are about a real-valued model
(`reading`, `volts` of coq/theories/IR/Model.v).  Tie to the source, redone on
every run: the coefficients, exponents, limits and the floor are literals
inside methods, so they are tied by correspondence --

  * every sampled voltage (ADC codes code*5/4096 V, the special doubles
    0, -0.0, negatives, denormals, huge, +-inf, the clamp boundaries, random
    doubles) is put on the real `wpilib.AnalogInput` simulation
    (`AnalogInputSim.setVoltage`), `getDistance()` of the driver from
    $VERIF_REPO is read back, and ONE COQ LEMMA PER SAMPLE
        close ctol <impl double> (reading_<sensor> <voltage double>)
    is emitted; the doubles are written as their exact binary rationals.
    The lemma is closed per clamp branch by a helper lemma of IR/Proofs.v whose
    only numeric premise goes to `interval with (i_prec 80)`;
  * every sampled distance goes through the real `*Sim` helper:
    setDistance(d), then three lemmas per sample: the voltage the helper put
    on the input against `volts_<sensor> d`, the driver's reading at that
    voltage against `reading_<sensor>`, and the reading against the clamped d;
    plus `get_distance (set_distance .. d) = <what helper.getDistance()
    returned>`.

ctol = 1e-12 (relative).  The comparison is by VALUE: a rewrite that computes
the same numbers (other order of min/max, `x ** e`, renamed locals) is silent.

A runtime scan (labelled as such; it is about libm, not a theorem) checks that
the 4096 readings per sensor never increase with the code.
"""
import importlib
import json
import math
import os
import sys
import threading
from fractions import Fraction

from .common import CORPUS

# the model's parameter sets, only used to choose the helper lemma (clamp
# branch) for a sample; a wrong choice can only make a lemma fail
SENSORS = [
    dict(key="A02", cls="SharpIR2Y0A02", sim="SharpIR2Y0A02Sim", c="62.28", e="-1.092", lo="22.5", hi="145"),
    dict(key="A21", cls="SharpIR2Y0A21", sim="SharpIR2Y0A21Sim", c="26.449", e="-1.226", lo="10", hi="80"),
    dict(key="A41", cls="SharpIR2Y0A41", sim="SharpIR2Y0A41Sim", c="12.84", e="-0.9824", lo="4.5", hi="35"),
]
for _s in SENSORS:
    for _k in ("c", "e", "lo", "hi"):
        _s["F" + _k] = Fraction(_s[_k])
        _s["f" + _k] = float(_s[_k])
FL = Fraction("0.00001")
BY_KEY = {s["key"]: s for s in SENSORS}
NCODES = 4096
VREF = 5.0
ORACLE_TOL = 1e-9
INF = float("inf")

HEADER = ("From Coq Require Import Reals Lra.\nFrom Interval Require Import Tactic.\n"
          "From RV Require Import IR.Model IR.Proofs.\nOpen Scope R_scope.\n")


# ---------------------------------------------------------------------------
# driving the implementation
# ---------------------------------------------------------------------------
class Rig:
    """The three drivers on analog ports 0..2 of the simulated HAL, each with the
    wpilib AnalogInputSim of its input and with its own *Sim helper."""

    def __init__(self):
        for m in [k for k in sys.modules if k.startswith("robotpy_ext.common_drivers.distance_sensors")]:
            del sys.modules[m]
        self.simmod = importlib.import_module("robotpy_ext.common_drivers.distance_sensors_sim")
        self.mod = sys.modules["robotpy_ext.common_drivers.distance_sensors"]
        from wpilib.simulation import AnalogInputSim
        self.s = {}
        for port, S in enumerate(SENSORS):
            sensor = getattr(self.mod, S["cls"])(port)
            ain = AnalogInputSim(sensor.distance)
            helper = getattr(self.simmod, S["sim"])(sensor)
            self.s[S["key"]] = (sensor, ain, helper)

    def read(self, key, v):
        """voltage v on the input -> (seen voltage, outcome)"""
        sensor, ain, _ = self.s[key]
        ain.setVoltage(v)
        seen = sensor.distance.getVoltage()
        try:
            x = sensor.getDistance()
        except Exception as ex:  # noqa: BLE001 - an exception IS the observation
            return seen, ("exc", type(ex).__name__, str(ex)[:80])
        return seen, ("ok", x)

    def set(self, key, d):
        """helper.setDistance(d) -> (outcome of the call, helper.getDistance(), voltage, reading)"""
        sensor, _, helper = self.s[key]
        try:
            helper.setDistance(d)
        except Exception as ex:  # noqa: BLE001
            return ("exc", type(ex).__name__, str(ex)[:80]), None, None, None
        g = helper.getDistance()
        u = sensor.distance.getVoltage()
        try:
            x = sensor.getDistance()
        except Exception as ex:  # noqa: BLE001
            return ("ok",), g, u, ("exc", type(ex).__name__, str(ex)[:80])
        return ("ok",), g, u, ("ok", x)


def is_num(x):
    return isinstance(x, (int, float)) and not isinstance(x, bool)


def finite(x):
    return is_num(x) and math.isfinite(x)


def code_volts(code):
    return code * VREF / NCODES          # exact: code*5 < 2**15, /2**12


def fhex(x):
    """exact, type-preserving text of an int or a double"""
    return x.hex() if isinstance(x, float) else "int:%d" % x


def unhex(s):
    if isinstance(s, (int, float)):
        return s
    if s.startswith("int:"):
        return int(s[4:])
    return float.fromhex(s)


# ---------------------------------------------------------------------------
# the property, stated directly over implementation observations (the oracle
# of the counter-example search; never the deciding method)
# ---------------------------------------------------------------------------
def clampf(S, d):
    return max(min(d, S["fhi"]), S["flo"])


def oracle_voltage(S, v, out):
    """clauses of C17 that speak about ONE voltage; returns None or (clause, text)"""
    if out[0] != "ok":
        return "exception", "getDistance() raised %s(%s)" % (out[1], out[2])
    x = out[1]
    if not finite(x):
        return "finite", "getDistance() = %r is not a finite number" % (x,)
    if not (S["flo"] <= x <= S["fhi"]):
        return "range", "getDistance() = %r is outside %s..%s cm" % (x, S["lo"], S["hi"])
    if v > 0 and math.isfinite(v):
        try:
            ref = S["fc"] * math.pow(v, S["fe"])
        except OverflowError:
            ref = INF
        if S["flo"] <= ref <= S["fhi"] and abs(x - ref) > ORACLE_TOL * ref:
            return "power-law", "getDistance() = %r but %s*V^%s = %r is inside the range" % (x, S["c"], S["e"], ref)
    return None


def oracle_monotone(pairs):
    """pairs: [(v, x)] with finite x; first increase of the reading with the voltage, or None"""
    ps = sorted(pairs, key=lambda p: p[0])
    best = None
    for (v1, x1), (v2, x2) in zip(ps, ps[1:]):
        if v1 < v2 and x2 > x1:
            best = (v1, x1, v2, x2)
            break
    return best


def oracle_distance(S, d, res):
    call, g, u, out = res
    if call[0] != "ok":
        return "sim-exception", "setDistance(%r) raised %s(%s)" % (d, call[1], call[2])
    if not (type(g) is type(d) and g == d):
        return "sim-remembers", "after setDistance(%r) the helper's getDistance() returns %r" % (d, g)
    if out[0] != "ok":
        return "exception", "after setDistance(%r) getDistance() raised %s(%s)" % (d, out[1], out[2])
    x = out[1]
    if not finite(x):
        return "finite", "after setDistance(%r) getDistance() = %r" % (d, x)
    want = clampf(S, d)
    if abs(x - want) > ORACLE_TOL * want:
        return "sim-inverse", "after setDistance(%r) the sensor reads %r, not %r" % (d, x, want)
    return None


def v_violation(S, v, out, clause, text):
    return {"kind": "input", "mode": "voltage", "sensor": S["key"], "voltage": repr(v), "voltage_hex": fhex(v),
            "clause": clause, "fingerprint": "C17:%s:%s" % (S["key"], clause),
            "what": "%s at %r V: %s" % (S["cls"], v, text), "observed": repr(out)}


def mono_violation(S, m):
    v1, x1, v2, x2 = m
    return {"kind": "input", "mode": "voltage-pair", "sensor": S["key"],
            "voltages": [repr(v1), repr(v2)], "voltages_hex": [fhex(v1), fhex(v2)],
            "clause": "monotone", "fingerprint": "C17:%s:monotone" % S["key"],
            "what": "%s: reading rises from %r cm at %r V to %r cm at %r V" % (S["cls"], x1, v1, x2, v2)}


def d_violation(S, d, res, clause, text):
    return {"kind": "input", "mode": "distance", "sensor": S["key"], "distance": repr(d), "distance_hex": fhex(d),
            "clause": clause, "fingerprint": "C17:%s:%s" % (S["key"], clause),
            "what": "%s: %s" % (S["sim"], text), "observed": repr(res)}


# ---------------------------------------------------------------------------
# inputs
# ---------------------------------------------------------------------------
def corpus_inputs():
    p = os.path.join(CORPUS, "C17", "edge_inputs.json")
    try:
        j = json.load(open(p))
        return [unhex(x) for x in j["voltages"]], [unhex(x) for x in j["distances"]]
    except (OSError, ValueError, KeyError):
        return [], []


def special_voltages(S):
    nx = math.nextafter
    fl = 0.00001
    out = [0.0, -0.0, -5e-324, -1e-300, -0.001, -1.0, -5.0, -1e308, -sys.float_info.max,
           5e-324, 1e-320, 2.2250738585072014e-308, 1e-300, 1e-100, 1e-10, 9.999e-6,
           nx(fl, 0.0), fl, nx(fl, 1.0), 1.1e-5, 1e-4, 1e-3, 1.0, VREF, nx(VREF, 9.0), 5.5, 12.0, 100.0,
           1e6, 1e100, 1e308, sys.float_info.max, INF, -INF]
    # the model's clamp boundaries (the voltages the helper uses for the limits) and their neighbours
    for lim in (S["fhi"], S["flo"]):
        b = math.pow(lim / S["fc"], 1 / S["fe"])
        out += [b, nx(b, 0.0), nx(b, 9.0), b * (1 - 1e-9), b * (1 + 1e-9), b * 0.999, b * 1.001]
    return out


def voltage_samples(ctx, S, scan, extra):
    """[(tag, v)] for one sensor.  scan: {code: outcome} of the full ADC sweep."""
    quick = ctx.tier != "thorough"
    codes = set(range(0, NCODES, 16)) | {1, 2, NCODES - 1} if quick else set(range(NCODES))
    bcodes = set()
    # where the implementation's reading enters / leaves a limit ...
    cls = []
    for code in range(NCODES):
        o = scan[code]
        x = o[1] if o[0] == "ok" else None
        cls.append("exc" if x is None else ("hi" if x == S["fhi"] else ("lo" if x == S["flo"] else "mid")))
    for code in range(NCODES - 1):
        if cls[code] != cls[code + 1]:
            bcodes |= {c for c in range(code - 2, code + 4) if 0 <= c < NCODES}
    # ... and where the model's does
    for lim in (S["fhi"], S["flo"]):
        b = math.pow(lim / S["fc"], 1 / S["fe"]) * NCODES / VREF
        if 0 <= b < NCODES:
            bcodes |= {c for c in range(int(b) - 2, int(b) + 4) if 0 <= c < NCODES}
    out = [("special", v) for v in extra + special_voltages(S)]
    out += [("boundary-code", code_volts(c)) for c in sorted(bcodes)]
    out += [("code", code_volts(c)) for c in sorted(codes - bcodes)]
    r = ctx.rng
    for _ in range(60 if quick else 1500):
        out.append(("random", r.uniform(0.0, VREF)))
    for _ in range(40 if quick else 500):
        out.append(("random-log", 10.0 ** r.uniform(-7, 3)))
    seen, res = set(), []
    for tag, v in out:
        k = fhex(v)
        if k not in seen:
            seen.add(k)
            res.append((tag, v))
    return res


def special_distances(S):
    nx = math.nextafter
    lo, hi = S["flo"], S["fhi"]
    out = [0, 0.0, -0.0, -1, -5.0, -1e308, 5e-324, 1e-300, 1, 2, 5, 10, 25, 30, 50, 60, 100, 200, 1000,
           1e6, 1e300, sys.float_info.max, INF, -INF,
           lo, hi, nx(lo, 0.0), nx(lo, 1e9), nx(hi, 0.0), nx(hi, 1e9), lo * (1 - 1e-9), lo * (1 + 1e-9),
           hi * (1 - 1e-9), hi * (1 + 1e-9), int(hi), int(hi) + 1, int(lo), int(lo) + 1, (lo + hi) / 2]
    return out


def distance_samples(ctx, S, n, extra):
    r = ctx.rng
    lo, hi = S["flo"], S["fhi"]
    out = [("special", d) for d in extra + special_distances(S)]
    while len(out) < n:
        k = r.random()
        if k < 0.70:
            out.append(("inside", r.uniform(lo, hi)))
        elif k < 0.80:
            out.append(("below", r.uniform(-0.5 * lo, lo)))
        elif k < 0.90:
            out.append(("above", r.uniform(hi, 3 * hi)))
        elif k < 0.95:
            out.append(("int", r.randrange(-5, int(2 * hi))))
        else:
            out.append(("log", 10.0 ** r.uniform(-3, 5)))
    return out


# ---------------------------------------------------------------------------
# Coq emission
# ---------------------------------------------------------------------------
def lit(x):
    f = Fraction(x)
    n, d = f.numerator, f.denominator
    return "(%s / %d)" % (("(%d)" % n) if n < 0 else str(n), d)


def iv(unf):
    return "unfold %s; interval with (i_prec 80)" % unf


def zq(x):
    """numerator and denominator as arguments of the q_* lemmas (Z and positive)"""
    f = Fraction(x)
    n, d = f.numerator, f.denominator
    return "%s %d" % (("(%d)" % n) if n < 0 else str(n), d)


BOOL = "vm_compute; reflexivity"


def reading_lemma(name, S, v, x):
    """close ctol x (reading_K v): the implementation read x at voltage v.
    The rational side conditions (which clamp branch) are decided in Z by the
    q_* lemmas of IR/Proofs.v; the power-law premise goes to interval."""
    K = S["key"]
    adm = "_ _ _ _ _ %s_admissible" % K
    if v == INF:
        return ("Lemma %s : %s = reading_x %s_c %s_e %s_lo %s_hi floor_volts PInf.\n"
                "Proof. apply (corr_v_pinf %s); unfold %s_lo; lra. Qed.\n" % (name, lit(x), K, K, K, K, adm, K)), "v=+inf"
    if v == -INF:
        return ("Lemma %s : %s = reading_x %s_c %s_e %s_lo %s_hi floor_volts NInf.\n"
                "Proof. apply (corr_v_ninf %s _ %s_floor_reads_hi); unfold %s_hi; lra. Qed.\n"
                % (name, lit(x), K, K, K, K, adm, K, K)), "v=-inf"
    st = "Lemma %s : close ctol %s (reading_%s %s).\n" % (name, lit(x), K, lit(v))
    fv, fx = Fraction(v), Fraction(x)
    args = "%s %s" % (zq(v), zq(x))
    if fv <= FL:
        pf = "apply (%s_q_floor %s); %s" % (K, args, BOOL)
        br = "floor"
    elif fx == S["Fhi"]:
        pf = "apply (%s_q_hi %s); [%s | %s]" % (K, args, BOOL, iv("fr, ctol, %s_hi, %s_c, %s_e" % (K, K, K)))
        br = "hi"
    elif fx == S["Flo"]:
        pf = "apply (%s_q_lo %s); [%s | %s]" % (K, args, BOOL, iv("fr, ctol, %s_lo, %s_c, %s_e" % (K, K, K)))
        br = "lo"
    else:
        pf = "apply (%s_q_mid %s); [%s | %s]" % (K, args, BOOL, iv("fr, close, ctol, %s_c, %s_e" % (K, K)))
        br = "mid"
    return st + "Proof. " + pf + ". Qed.\n", br


def volts_lemma(name, S, d, u):
    """close ctol u (volts_K d): the helper put u volts on the input for distance d"""
    K = S["key"]
    tail = iv("fr, close, ctol, %s_lo, %s_hi, %s_c, %s_e" % (K, K, K, K))
    if d == INF or d == -INF:
        adm = "_ _ _ _ _ %s_admissible _ ctol_ok" % K
        w = "PInf" if d > 0 else "NInf"
        return ("Lemma %s : close ctol %s (volts_x %s_c %s_e %s_lo %s_hi %s).\nProof. apply (corr_volts_%s %s); %s. Qed.\n"
                % (name, lit(u), K, K, K, K, w, w.lower(), adm, tail))
    fd = Fraction(d)
    st = "Lemma %s : close ctol %s (volts_%s %s).\n" % (name, lit(u), K, lit(d))
    br = "hi" if fd >= S["Fhi"] else ("lo" if fd <= S["Flo"] else "mid")
    pf = "apply (%s_q_volts_%s %s %s); [%s | %s]" % (K, br, zq(d), zq(u), BOOL, tail)
    return st + "Proof. " + pf + ". Qed.\n"


def clamp_lemma(name, S, d, x):
    """close ctol x (clamp lo hi d): the sensor reads the clamped distance (all in Z)"""
    K = S["key"]
    if d == INF or d == -INF:
        adm = "_ _ _ _ _ %s_admissible _ ctol_ok" % K
        rat = "apply close_rat; unfold ctol, %s_lo, %s_hi; lra" % (K, K)
        w = "PInf" if d > 0 else "NInf"
        return ("Lemma %s : close ctol %s (clamp_x %s_lo %s_hi %s).\nProof. apply (corr_clamp_%s %s); %s. Qed.\n"
                % (name, lit(x), K, K, w, w.lower(), adm, rat))
    fd = Fraction(d)
    st = "Lemma %s : close ctol %s (clamp %s_lo %s_hi %s).\n" % (name, lit(x), K, K, lit(d))
    br = "hi" if fd >= S["Fhi"] else ("lo" if fd <= S["Flo"] else "mid")
    pf = "apply (%s_q_clamp_%s %s %s); %s" % (K, br, zq(d), zq(x), BOOL)
    return st + "Proof. " + pf + ". Qed.\n"


def cost(txt):
    return 45 if "interval" in txt else 8


def remembers_lemma(name, S, d, g):
    K = S["key"]
    return ("Lemma %s : get_distance (set_distance %s_c %s_e %s_lo %s_hi sim_init %s) = %s.\n"
            "Proof. cbn [get_distance set_distance sim_distance]. first [reflexivity | lra]. Qed.\n" % (name, K, K, K, K, lit(d), lit(g)))


# ---------------------------------------------------------------------------
def run(ctx):
    ctx.assumptions += [
        "C17: float arithmetic and libm pow idealised as exact real arithmetic / Rpower; every sampled double is "
        "compared with the real model to 1e-12 relative, NaN is outside the quantifier",
        "C17: wpilib AnalogInput simulation returns the voltage that was set (checked on every sample); the 12-bit "
        "0-5 V input is modelled as the 4096 voltages code*5/4096",
        "C17: the generated per-sample lemmas are closed by `interval with (i_prec 80)` (coq-interval 4.6.1), which "
        "computes with Coq's primitive 63-bit integers: those lemmas (NOT the theorems of Properties/C17.v) depend on "
        "the Uint63/PrimInt63 axioms of the standard library in addition to the real-number axioms",
    ]
    # the proof part (make, Properties/C17.v, Print Assumptions, token scan) runs beside the
    # correspondence: Print Assumptions over Reals costs ~0.85 s per theorem
    def prove():
        try:
            ctx.prove()
        except Exception as ex:  # noqa: BLE001 - a crash of the proof step must not pass silently
            ctx.obligation("prove:Properties/C17.v checked", False, repr(ex))

    prover = threading.Thread(target=prove)
    prover.start()
    pend = []       # obligations of this thread, recorded after the prover's (stable order)

    def ob(name, ok, detail=""):
        pend.append((name, bool(ok), detail))

    state = {"rig": None, "vobs": {}, "dobs": {}, "first_bad": []}

    def body():
        try:
            rig = Rig()
        except Exception as ex:  # noqa: BLE001
            ob("impl:the three drivers and their helpers can be constructed", False, repr(ex))
            return
        ob("impl:the three drivers and their helpers can be constructed", True)
        state["rig"] = rig
        cv, cd = corpus_inputs()
        quick = ctx.tier != "thorough"
        lemmas = []          # (name, text, description)
        sim_reading_every = 4   # reading lemma at the helper's voltage: every 4th distance (and all specials)
        passthrough_bad, vbad, dbad, gbad, mono_bad = [], [], [], [], []
        nv = nd = 0
        samples = []
        for S in SENSORS:
            K = S["key"]
            # full ADC sweep (cheap at run time): monotonicity scan + where the clamp switches
            scan = {}
            for code in range(NCODES):
                seen, o = rig.read(K, code_volts(code))
                scan[code] = o
                state["vobs"][(K, code_volts(code))] = o
            okpairs = [(code_volts(c), o[1]) for c, o in scan.items() if o[0] == "ok" and finite(o[1])]
            m = oracle_monotone(okpairs)
            if m:
                mono_bad.append((K, m))
            # voltage samples -> lemmas
            for tag, v in voltage_samples(ctx, S, scan, cv):
                seen, o = rig.read(K, v)
                state["vobs"][(K, v)] = o
                if not (seen == v and type(seen) is float):
                    passthrough_bad.append((K, v, seen))
                    continue
                nv += 1
                ctx.count("%s:voltage:%s" % (K, tag))
                if o[0] != "ok" or not finite(o[1]):
                    vbad.append((K, v, o))
                    continue
                name = "r_%s_%d" % (K, nv)
                txt, br = reading_lemma(name, S, v, o[1])
                ctx.count("%s:branch:%s" % (K, br))
                lemmas.append((name, txt, "%s getDistance() at %r V = %r" % (K, v, o[1])))
                if len(samples) < 3 and br == "mid":
                    samples.append({"sensor": K, "voltage": v, "getDistance": o[1]})
            # distances through the helper -> lemmas
            n = (2000 if quick else 50000) // len(SENSORS)
            for tag, d in distance_samples(ctx, S, n, cd):
                res = rig.set(K, d)
                state["dobs"][(K, fhex(d), type(d).__name__)] = (d, res)
                call, g, u, o = res
                nd += 1
                ctx.count("%s:distance:%s" % (K, tag))
                if call[0] != "ok" or o[0] != "ok" or not finite(o[1]) or not finite(u):
                    dbad.append((K, d, res))
                    continue
                if not (type(g) is type(d) and g == d):
                    gbad.append((K, d, g))
                base = "d_%s_%d" % (K, nd)
                lemmas.append((base + "u", volts_lemma(base + "u", S, d, u), "%s setDistance(%r) -> %r V" % (K, d, u)))
                if nd % sim_reading_every == 0 or tag == "special":
                    txt, _ = reading_lemma(base + "r", S, u, o[1])
                    lemmas.append((base + "r", txt,
                                   "%s getDistance() at %r V = %r (after setDistance(%r))" % (K, u, o[1], d)))
                lemmas.append((base + "c", clamp_lemma(base + "c", S, d, o[1]),
                               "%s reads %r after setDistance(%r)" % (K, o[1], d)))
                if finite(d) and finite(g):
                    lemmas.append((base + "g", remembers_lemma(base + "g", S, d, g),
                                   "%s helper.getDistance() = %r after setDistance(%r)" % (K, g, d)))
                if len(samples) < 5 and tag == "inside":
                    samples.append({"sensor": K, "setDistance": d, "voltage": u, "getDistance": o[1]})
        ob("impl:AnalogInputSim.setVoltage(v) -> AnalogInput.getVoltage() == v on every sample",
           not passthrough_bad, repr(passthrough_bad[:3]))
        ob("impl:getDistance() returns a finite number for every sampled voltage", not vbad, repr(vbad[:3]))
        ob("impl:setDistance(d) then getDistance() returns a finite number for every sampled distance",
           not dbad, repr(dbad[:3]))
        ob("impl:helper.getDistance() returns the d that was set", not gbad, repr(gbad[:3]))
        ob("runtime-scan:readings never increase over the 4096 ADC codes (about libm pow; not a theorem)",
           not mono_bad, repr(mono_bad[:3]))
        # ---- the lemma files, 16-way ------------------------------------
        nsh = 16 if quick else 64
        files, index = [], {}
        # shards balanced by estimated cost (an interval goal ~45 ms, a lemma decided in Z ~8 ms)
        bins = [[0.0, []] for _ in range(nsh)]
        for lem in sorted(lemmas, key=lambda l: -cost(l[1])):
            b = min(bins, key=lambda b: b[0])
            b[0] += cost(lem[1])
            b[1].append(lem)
        for k in range(nsh):
            part = bins[k][1]
            if not part:
                continue
            text = HEADER
            line = text.count("\n") + 1
            starts = []
            for name, txt, desc in part:
                starts.append((line, name, desc))
                text += txt
                line += txt.count("\n")
            text += "Check %s.\n" % part[-1][0]
            fname = "corr_%02d" % k
            files.append((fname, text))
            index[fname] = (starts, len(part))
        res = ctx.coq_files_parallel(files, timeout=1500)
        import re
        for fname, _ in files:
            rc, out = res[fname]
            starts, n = index[fname]
            detail = ""
            if rc != 0:
                mm = re.search(r'line (\d+), characters', out)
                bad = None
                if mm:
                    ln = int(mm.group(1))
                    for (l0, name, desc) in starts:
                        if l0 <= ln:
                            bad = (name, desc)
                    if bad:
                        state["first_bad"].append(bad)
                detail = "first failing lemma: %r\n%s" % (bad, out[-1200:])
            ob("corr:%s (%d per-sample lemmas: implementation double vs real model, interval)" % (fname, n),
               rc == 0, detail)
        ctx.coverage.update({
            "evaluations": nv + nd,
            "traces_validated_against_impl": nv + nd,
            "lemmas_checked_by_coq": len(lemmas),
            "distinct_nontrivial": sum(v for k, v in ctx.dist.items() if ":branch:mid" in k) +
                                   sum(v for k, v in ctx.dist.items() if ":distance:inside" in k),
            "rule": "per sensor: ADC codes code*5/4096 V (%s), the codes around every switch of the clamp (of the "
                    "implementation and of the model), special doubles (0, -0.0, negatives, denormals, the floor and its "
                    "neighbours, > 5 V, huge, +-inf, the exact boundary voltages), random doubles; distances through the "
                    "helper: specials (0, negatives, ints, the limits and their neighbours, huge, +-inf) and random "
                    "inside/below/above; non-trivial = voltage samples whose reading is strictly inside the range "
                    "(power-law branch) + distances strictly inside"
                    % ("every 16th code" if quick else "all 4096 codes"),
            "exhaustive": False,
            "exhaustive_parts": ["runtime monotonicity scan: all 3*4096 codes"] +
                                ([] if quick else ["per-sample lemmas: all 3*4096 ADC codes"]),
            "samples": samples[:5],
            "tolerance": "1e-12 relative (ctol)",
        })

    try:
        body()
    except Exception as ex:  # noqa: BLE001 - same for the correspondence step
        import traceback
        ob("harness:correspondence step completed", False, traceback.format_exc()[-1500:] or repr(ex))
    prover.join()
    for name, ok, detail in pend:
        ctx.obligation(name, ok, detail)

    def search():
        return search_violations(ctx, state)

    return ctx.finish(search=search)


# ---------------------------------------------------------------------------
def search_violations(ctx, state):
    """A concrete voltage / distance on which the PROPERTY fails on the implementation."""
    rig = state["rig"]
    if rig is None:
        try:
            rig = Rig()
        except Exception:  # noqa: BLE001
            return []
    found = []
    order = {"exception": 0, "sim-exception": 0, "finite": 1, "range": 2, "sim-remembers": 3,
             "power-law": 4, "sim-inverse": 5, "monotone": 6}
    r = ctx.rng
    for S in SENSORS:
        K = S["key"]
        # 1. everything already observed in this run (includes the disagreeing samples),
        # 2. all 4096 codes, the specials, a bigger random batch
        vs = [v for (k, v) in state["vobs"] if k == K]
        vs += [code_volts(c) for c in range(NCODES)] + special_voltages(S)
        vs += [r.uniform(0.0, VREF) for _ in range(20000)] + [10.0 ** r.uniform(-12, 6) for _ in range(5000)]
        pairs, per = [], []
        seen = set()
        for v in vs:
            if fhex(v) in seen:
                continue
            seen.add(fhex(v))
            _, o = rig.read(K, v)
            bad = oracle_voltage(S, v, o)
            if bad:
                # prefer ADC codes, then round voltages (1 V, 2.5 V ...), then the nearest to 1 V
                per.append((order[bad[0]], not _is_code(v), not _is_round(v),
                            abs(v - 1.0), v_violation(S, v, o, *bad)))
            if o[0] == "ok" and finite(o[1]):
                pairs.append((v, o[1]))
        if per:
            per.sort(key=lambda t: t[:4])
            found.append((per[0][0], per[0][4]))
        m = oracle_monotone([p for p in pairs if _is_code(p[0])]) or oracle_monotone(pairs)
        if m:
            found.append((order["monotone"], mono_violation(S, m)))
        ds = [d for (k, _, _), (d, _) in state["dobs"].items() if k == K]
        ds += special_distances(S) + list(range(-5, int(2 * S["fhi"])))
        ds += [r.uniform(-S["flo"], 3 * S["fhi"]) for _ in range(20000)]
        perd = []
        for d in ds:
            res = rig.set(K, d)
            bad = oracle_distance(S, d, res)
            if bad:
                nice = not (isinstance(d, int) or (finite(d) and float(d).is_integer()))
                perd.append((order[bad[0]], nice, abs(d) if finite(d) else 1e999, d_violation(S, d, res, *bad)))
        if perd:
            perd.sort(key=lambda t: t[:3])
            found.append((perd[0][0], perd[0][3]))
    found.sort(key=lambda t: t[0])
    return [f for _, f in found]


def _is_round(v):
    return finite(v) and abs(v) < 1e6 and (v * 8) % 1 == 0


def _is_code(v):
    q = v * NCODES / VREF
    return finite(v) and 0 <= q < NCODES and q == int(q)


# ---------------------------------------------------------------------------
def replay(ctx, obj):
    if obj.get("kind") != "input":
        print("replay names broken obligations only: %s" % [b.get("name") for b in obj.get("broken_obligations", [])])
        return run(ctx)
    rig = Rig()
    S = BY_KEY[obj["sensor"]]
    K = S["key"]
    bad = None
    if obj["mode"] == "voltage":
        v = unhex(obj["voltage_hex"])
        seen, o = rig.read(K, v)
        print("%s: AnalogInputSim.setVoltage(%r); getVoltage() = %r; getDistance() -> %r" % (S["cls"], v, seen, o))
        bad = oracle_voltage(S, v, o)
    elif obj["mode"] == "voltage-pair":
        v1, v2 = [unhex(h) for h in obj["voltages_hex"]]
        o1, o2 = rig.read(K, v1)[1], rig.read(K, v2)[1]
        print("%s: getDistance() at %r V -> %r ; at %r V -> %r" % (S["cls"], v1, o1, v2, o2))
        bad = oracle_voltage(S, v1, o1) or oracle_voltage(S, v2, o2)
        if not bad and oracle_monotone([(v1, o1[1]), (v2, o2[1])]):
            bad = ("monotone", "the reading increases with the voltage")
    elif obj["mode"] == "distance":
        d = unhex(obj["distance_hex"])
        res = rig.set(K, d)
        print("%s: setDistance(%r) -> call %r, helper.getDistance() = %r, voltage = %r, sensor.getDistance() -> %r"
              % ((S["sim"], d) + tuple(res)))
        bad = oracle_distance(S, d, res)
    if bad:
        print("clause %s fails: %s" % bad)
        print("VIOLATION property=C17 replay=(replayed)")
        return 1
    print("property holds on this input")
    return 0
