"""C20: crc7 == bit-serial CRC-7 (0x91 reflected), linear, detects short errors.

Tie to the source:
  * the 256-entry table is REGENERATED from the imported module on every run
    (work/C20/Gen_table.v) and `table_ok gen_table = true` is re-proved, the
    theorems of Properties/C20.v are instantiated with it;
  * the byte loop of crc7() is tied by correspondence: crc7(msg) computed by the
    implementation == crc_table_opt gen_table msg evaluated inside Coq, for all
    one-byte messages (exhaustive over the first table index), all two-byte
    messages (thorough: exhaustive over index x reachable checksum), the empty
    message and random long ones, given as list / bytes / bytearray.
"""
import importlib
import json
import os
import sys

from .common import coq_N, coq_list, shards


def impl():
    for m in [k for k in sys.modules if k.startswith("robotpy_ext.misc.crc7")]:
        del sys.modules[m]
    return importlib.import_module("robotpy_ext.misc.crc7")


def ref_crc(data):
    """bit-serial reference (oracle for the search; NOT the deciding method)."""
    c = 0
    for d in data:
        c ^= d
        for _ in range(8):
            c = ((c ^ 0x91) >> 1) if (c & 1) else (c >> 1)
    return c


FORMS = ["list", "bytes", "bytearray", "tuple", "memoryview-window-of-bytes", "memoryview-window-of-bytearray"]


def as_form(msg, form):
    """the message as the caller's kind of buffer; a memoryview is a proper window of a larger receive buffer whose other
    bytes are not zero (as in `memoryview(rxbuf)[2:2 + n]`)"""
    if form == 0:
        return list(msg)
    if form == 1:
        return bytes(msg)
    if form == 2:
        return bytearray(msg)
    if form == 3:
        return tuple(msg)
    if form == 4:
        return memoryview(bytes([0xA5, 0x5A] + list(msg) + [0xC3]))[2:2 + len(msg)]
    return memoryview(bytearray([0x01] + list(msg) + [0xFE, 0x7F]))[1:1 + len(msg)]


def call(mod, msg, form):
    data = as_form(msg, form)
    try:
        r = mod.crc7(data)
    except Exception as e:
        return ("exc", type(e).__name__)
    if isinstance(r, bool) or not isinstance(r, int):
        return ("bad", repr(r))
    return ("ok", r)


def call_raw(mod, obj):
    try:
        r = mod.crc7(obj)
    except Exception as e:
        return ("exc", type(e).__name__)
    if isinstance(r, bool) or not isinstance(r, int):
        return ("bad", repr(r))
    return ("ok", r)


def gen_messages(ctx):
    msgs = [[]] + [[i] for i in range(256)]
    if ctx.tier == "thorough":
        msgs += [[i, j] for i in range(256) for j in range(256)]
        nrand = 4000
    else:
        r = ctx.rng
        msgs += [[r.randrange(256), r.randrange(256)] for _ in range(1500)]
        nrand = 600
    r = ctx.rng
    # long messages: every length around the one-byte / two-byte length boundaries, and a few very long ones
    for n in list(range(250, 262)) + [511, 512, 513, 1023, 1024, 1025, 2048] + ([4096] if ctx.tier == "thorough" else []):
        msgs.append([r.randrange(256) for _ in range(n)])
        if n <= 1025:
            m = [0] * n
            m[-1] = 1 << r.randrange(8)           # a single bit in the last byte of an all-zero message
            msgs.append(m)
    for _ in range(nrand):
        n = r.choice([3, 4, 5, 8, 16, 17, 31, 64, 100, 200, 255, 256, 257, 300])
        kind = r.random()
        if kind < 0.15:
            m = [0] * n
            m[r.randrange(n)] = 1 << r.randrange(8)
        elif kind < 0.3:
            m = [r.choice([0, 255]) for _ in range(n)]
        else:
            m = [r.randrange(256) for _ in range(n)]
        msgs.append(m)
    return msgs


def gen_call_history(r):
    """a short sequence of crc7 calls: ["ok", msg] a valid message; ["bad", prefix, junk] a message whose element after the prefix is
    rejected (out of range / not an int: IndexError or TypeError also on the unchanged library); ["nested", outer, k, inner] a call on
    a lazy iterable that itself calls crc7(inner) after yielding k bytes of outer"""
    h = []
    for _ in range(r.choice([2, 2, 3, 4])):
        x = r.random()
        m = [r.randrange(256) for _ in range(r.choice([0, 1, 2, 3, 8]))]
        if x < 0.5:
            h.append(["ok", m])
        elif x < 0.8:
            h.append(["bad", m, r.choice([300, 256, -1, None, "x", 2.5])])
        else:
            inner = [r.randrange(256) for _ in range(r.choice([1, 2, 5]))]
            h.append(["nested", m, r.randrange(len(m) + 1), inner])
    h.append(["ok", [r.randrange(256) for _ in range(r.choice([0, 1, 2, 6]))]])
    return h


def run_call_history(mod, h):
    """-> None, or what is wrong"""
    for i, c in enumerate(h):
        if c[0] == "ok":
            got = call_raw(mod, list(c[1]))
            if got != ("ok", ref_crc(c[1])):
                return "call %d: crc7(%r) = %r after the calls %r, bit-serial CRC-7 gives %d" % (i, c[1], got, h[:i], ref_crc(c[1]))
        elif c[0] == "bad":
            try:
                mod.crc7(list(c[1]) + [c[2]])
            except Exception:       # noqa: rejected, as expected
                pass
        else:
            outer, k, inner = c[1], c[2], c[3]
            res = {}

            def lazy():
                for j, b in enumerate(outer):
                    if j == k:
                        res["inner"] = call_raw(mod, list(inner))
                    yield b
                if k >= len(outer):
                    res["inner"] = call_raw(mod, list(inner))
            try:
                got = ("ok", mod.crc7(lazy()))
            except Exception as e:      # noqa
                got = ("raised", type(e).__name__)
            if res.get("inner") != ("ok", ref_crc(inner)):
                return "call %d: crc7(%r) evaluated while crc7 is consuming %r gives %r, bit-serial CRC-7 gives %d" % (
                    i, inner, outer, res.get("inner"), ref_crc(inner))
            if got != ("ok", ref_crc(outer)):
                return "call %d: crc7 of a lazy iterable over %r (during which crc7(%r) was evaluated) = %r, bit-serial CRC-7 gives %d" % (
                    i, outer, inner, got, ref_crc(outer))
    return None


def oracle_search(mod, ctx, msgs):
    """Concrete failing inputs of the PROPERTY on the implementation."""
    out = []
    table = getattr(mod, "_crc7_table", None)
    cand = [[i] for i in range(256)] + msgs
    rl = ctx.rng
    # very long messages (only against the bit-serial reference: a 64k literal is too much for one Coq term)
    cand += [[rl.randrange(256) for _ in range(n)] for n in (4096, 65535, 65536, 65537)]
    if ctx.tier == "thorough" or True:
        cand = cand + [[i, j] for i in range(256) for j in range(0, 256, 1)]
    for m in cand:
        got = call(mod, m, 0)
        exp = ref_crc(m)
        if got != ("ok", exp):
            out.append({"kind": "input", "what": "crc7(%r) = %r, bit-serial CRC-7 gives %d" % (m, got, exp),
                        "fingerprint": "crc7-differs-from-bitwise", "input": m, "expected": exp, "got": list(got)})
            return out
    # a buffer object reused after an in-place change
    rr = ctx.rng
    for _ in range(3000):
        n = rr.choice([1, 2, 3, 8])
        buf = bytearray(rr.randrange(256) for _ in range(n)) if rr.random() < 0.5 else [rr.randrange(256) for _ in range(n)]
        first = list(buf)
        g1 = call_raw(mod, buf)
        i = rr.randrange(n)
        bit = rr.randrange(8)
        buf[i] ^= 1 << bit
        g2 = call_raw(mod, buf)
        if g1 != ("ok", ref_crc(first)):
            break
        if g2 != ("ok", ref_crc(list(buf))):
            out.append({"kind": "history", "what": "crc7 of a %s reused after flipping bit %d of byte %d in place: %r, bit-serial CRC-7 of %r gives %d "
                        "(first call on %r gave %r)" % (type(buf).__name__, bit, i, g2, list(buf), ref_crc(list(buf)), first, g1),
                        "fingerprint": "crc7-stale-result-on-reused-buffer", "first": first, "flip": [i, bit], "buffer_type": type(buf).__name__})
            return out
    # the result depends on the message only: not on earlier calls, rejected calls or calls still in progress
    for _ in range(1500):
        h = gen_call_history(rr)
        vd = run_call_history(mod, h)
        if vd:
            out.append({"kind": "calls", "what": vd, "fingerprint": "crc7-depends-on-earlier-calls", "history": h})
            return out
    # detection / linearity on the implementation
    r = ctx.rng
    for _ in range(20000):
        n = r.randrange(1, 40)
        a = [r.randrange(256) for _ in range(n)]
        nb = 8 * n
        k = r.random()
        e = [0] * n
        if k < 0.3:
            p = r.randrange(nb)
            ps = [p]
        elif k < 0.65:
            p = r.randrange(nb)
            q = p + r.randrange(1, 127)
            ps = [p, q] if q < nb else [p]
        else:
            p = r.randrange(nb)
            ps = sorted(set([p] + [p + r.randrange(7) for _ in range(r.randrange(7))]))
            ps = [x for x in ps if x < nb]
        for x in ps:
            e[x // 8] ^= 1 << (x % 8)
        b = [x ^ y for x, y in zip(a, e)]
        ga, gb = call(mod, a, 0), call(mod, b, 0)
        if ga == gb:
            out.append({"kind": "input", "what": "flipping bits %r of %r does not change crc7 (%r)" % (ps, a, ga),
                        "fingerprint": "crc7-undetected-error", "input": a, "flipped_bits": ps})
            return out
    return out




RACE_PROBE = r"""
import sys, threading, json, importlib
sys.path.insert(0, sys.argv[1])
K = int(sys.argv[2]); msgA = bytes(json.loads(sys.argv[3])); msgB = bytes(json.loads(sys.argv[4]))
import robotpy_ext.misc.crc7 as mod
fn = mod.__file__
go_main = threading.Event(); go_a = threading.Event(); res = {}
count = [0]
def tracer(frame, event, arg):
    if frame.f_code.co_filename != fn:
        return None
    def local(frame, event, arg):
        if event == 'line':
            count[0] += 1
            if count[0] == K:
                go_main.set(); go_a.wait(20)
        return local
    return local
def a():
    sys.settrace(tracer)
    try:
        res['a'] = ['ok', mod.crc7(msgA)]
    except BaseException as e:
        res['a'] = ['exc', type(e).__name__]
    finally:
        sys.settrace(None); go_main.set()
t = threading.Thread(target=a); t.start()
go_main.wait(20)
try:
    res['b'] = ['ok', mod.crc7(msgB)]
except BaseException as e:
    res['b'] = ['exc', type(e).__name__]
go_a.set(); t.join(20)
try:
    res['after'] = ['ok', mod.crc7(msgB)]
except BaseException as e:
    res['after'] = ['exc', type(e).__name__]
res['lines'] = count[0]
print(json.dumps(res))
"""


def race_probe(k, msg_a, msg_b):
    """first use of the module from two threads: thread A is held after its k-th executed line inside crc7.py (fresh process,
    so module-level lazy state is virgin) while the main thread makes one complete call; then A finishes, then one more call"""
    import subprocess
    from .common import REPO
    try:
        p = subprocess.run([sys.executable, "-c", RACE_PROBE, REPO, str(k), json.dumps(list(msg_a)), json.dumps(list(msg_b))],
                           stdout=subprocess.PIPE, stderr=subprocess.DEVNULL, text=True, timeout=60)
        return json.loads(p.stdout.strip().splitlines()[-1])
    except Exception:
        return None


def race_verdict(res, msg_a, msg_b):
    if not res:
        return None
    for who, m in (("a", msg_a), ("b", msg_b), ("after", msg_b)):
        if who in res and res[who] != ["ok", ref_crc(list(m))]:
            return "crc7(%r) %s gave %r, bit-serial CRC-7 is %d" % (
                list(m), {"a": "in the thread that was held", "b": "called from a second thread meanwhile", "after": "called afterwards"}[who],
                res[who], ref_crc(list(m)))
    return None


def race_search():
    msg_a, msg_b = [0xFF, 0x00, 0xA7, 0x3C], [0x12, 0x80, 0x7F]
    from concurrent.futures import ThreadPoolExecutor
    ks = list(range(1, 41)) + list(range(45, 400, 7))
    with ThreadPoolExecutor(8) as ex:
        out = list(ex.map(lambda k: (k, race_probe(k, msg_a, msg_b)), ks))
    for k, res in out:
        vd = race_verdict(res, msg_a, msg_b)
        if vd:
            return {"kind": "race", "what": "first use from two threads (thread A held after %d executed lines of crc7.py): %s" % (k, vd),
                    "fingerprint": "crc7-first-use-race", "k": k, "msg_a": msg_a, "msg_b": msg_b, "observed": res}
    return None


NEIGHBOUR_PROBE = r"""
import sys, json
sys.path.insert(0, sys.argv[1])
only = json.loads(sys.argv[2]); msgs = [bytes(m) for m in json.loads(sys.argv[3])]
import robotpy_ext.misc.crc7 as mod
def snap():
    out = []
    for m in msgs:
        try:
            out.append(['ok', mod.crc7(m)])
        except BaseException as e:
            out.append(['exc', type(e).__name__])
    return out
res = {'before': snap(), 'after': []}
names = [n for n in sorted(vars(mod)) if not n.startswith('_') and n != 'crc7' and callable(getattr(mod, n))
         and getattr(getattr(mod, n), '__module__', None) == mod.__name__]
for n in names:
    if only is not None and n != only:
        continue
    for arg in (b'\x01\x02\x80', [1, 2, 128], None):
        try:
            getattr(mod, n)(*(() if arg is None else (arg,)))
        except BaseException:
            pass
        res['after'].append([n, repr(arg), snap()])
print(json.dumps(res))
"""


def neighbour_probe(only=None):
    """fresh process: crc7 on a few messages, then every other public callable the module defines (called with a short
    message / without arguments), crc7 on the same messages after each: the checksum of a message does not depend on what
    else the module was used for"""
    import subprocess
    from .common import REPO
    msgs = [[1], [0xFF, 0x00, 0xA7, 0x3C], [0x12, 0x80, 0x7F], []]
    try:
        p = subprocess.run([sys.executable, "-c", NEIGHBOUR_PROBE, REPO, json.dumps(only), json.dumps(msgs)],
                           stdout=subprocess.PIPE, stderr=subprocess.DEVNULL, text=True, timeout=60)
        res = json.loads(p.stdout.strip().splitlines()[-1])
    except Exception:
        return None
    want = [["ok", ref_crc(m)] for m in msgs]
    if res["before"] != want:
        return None          # wrong from the start: the plain input search reports that
    for n, arg, got in res["after"]:
        for m, g, w in zip(msgs, got, want):
            if g != w:
                return {"kind": "neighbour", "what": "after a call of %s(%s) of the same module crc7(%r) gives %r, the bit-serial CRC-7 is %d "
                        "(it was right before that call)" % (n, arg, m, g, w[1]), "fingerprint": "crc7-depends-on-other-calls", "function": n}
    return None


def translate_loop(repo):
    """the byte loop of crc7(), read from the source (fail-closed):
         csum = 0 ; for d in data: csum = _crc7_table[d ^ csum] ; return csum
       -> fold_left (fun csum d => nth (N.to_nat (N.lxor d csum)) T 0) data 0"""
    import ast
    tree = ast.parse(open(os.path.join(repo, "robotpy_ext/misc/crc7.py")).read())
    fs = [n for n in tree.body if isinstance(n, ast.FunctionDef) and n.name == "crc7"]
    if len(fs) != 1 or fs[0].decorator_list:
        raise ValueError("crc7 is not a plain module-level function")
    f = fs[0]
    if [a.arg for a in f.args.args] != ["data"] or f.args.vararg or f.args.kwarg or f.args.defaults:
        raise ValueError("signature of crc7 is not (data)")
    body = [st for st in f.body if not (isinstance(st, ast.Expr) and isinstance(st.value, ast.Constant))]
    U = ast.unparse
    if len(body) != 3:
        raise ValueError("crc7 has %d statements, expected: csum = 0; for d in data: ...; return csum" % len(body))
    a, loop, ret = body
    if not (isinstance(a, ast.Assign) and U(a) == "csum = 0"):
        raise ValueError("first statement is %r" % U(a))
    if not (isinstance(loop, ast.For) and U(loop.target) == "d" and U(loop.iter) == "data" and not loop.orelse and len(loop.body) == 1):
        raise ValueError("loop header/body: %r" % U(loop)[:80])
    st = loop.body[0]
    if not (isinstance(st, ast.Assign) and U(st.targets[0]) == "csum" and isinstance(st.value, ast.Subscript)
            and U(st.value.value) == "_crc7_table" and isinstance(st.value.slice, ast.BinOp)
            and isinstance(st.value.slice.op, ast.BitXor)):
        raise ValueError("loop body is %r, expected csum = _crc7_table[<d ^ csum>]" % U(st))
    ops = sorted([U(st.value.slice.left), U(st.value.slice.right)])
    if ops != ["csum", "d"]:
        raise ValueError("table index is %r" % U(st.value.slice))
    if not (isinstance(ret, ast.Return) and U(ret) == "return csum"):
        raise ValueError("last statement is %r" % U(ret))
    l, r = U(st.value.slice.left), U(st.value.slice.right)
    return ("Definition gen_crc7 (T : list N) (data : list N) : N :=\n"
            "  fold_left (fun csum d => nth (N.to_nat (N.lxor %s %s)) T 0%%N) data 0%%N.\n" % (l, r))


def run(ctx):
    ctx.assumptions.append("C20: Python list indexing and int xor as modelled by nth/N.lxor; inputs are bytes 0..255")
    ctx.prove()
    mod = impl()
    # ---- regenerated data: the table as the code has it now ----------
    table = getattr(mod, "_crc7_table", None)
    table_ok = isinstance(table, (list, tuple)) and all(isinstance(x, int) and not isinstance(x, bool) and 0 <= x < 2 ** 16 for x in table)
    ctx.obligation("regen:table-readable", table_ok, repr(table)[:200])
    if table_ok:
        gen = ("From Coq Require Import NArith List.\nImport ListNotations.\n"
               "Definition gen_table : list N := %s.\n" % coq_list([coq_N(x) for x in table]))
        rc, out = ctx.coq_file("Gen_table", gen)
        ctx.obligation("regen:Gen_table.v compiles", rc == 0, out)
        inst = """From Coq Require Import NArith List.
From RV Require Import CRC.Model CRC.Proofs Properties.C20.
From W Require Import Gen_table.
Lemma gen_table_ok : table_ok gen_table = true.
Proof. vm_compute. reflexivity. Qed.
Definition impl_table_equals_bitwise := C20_table_equals_bitwise gen_table gen_table_ok.
Definition impl_no_index_error := C20_no_index_error gen_table gen_table_ok.
Definition impl_seven_bits := C20_seven_bits gen_table gen_table_ok.
Definition impl_linear := C20_linear gen_table gen_table_ok.
Definition impl_single_bit := C20_single_bit gen_table gen_table_ok.
Definition impl_double_bit := C20_double_bit gen_table gen_table_ok.
Definition impl_burst7 := C20_burst7 gen_table gen_table_ok.
Print Assumptions impl_burst7.
"""
        rc, out = ctx.coq_file("Gen_C20", inst)
        ctx.obligation("regen:table_ok gen_table (256 entries re-proved) + instantiated theorems",
                       rc == 0 and "Closed under the global context" in out, out)
    # ---- regenerated code: the byte loop as the source has it now ------
    try:
        loop = translate_loop(os.environ.get("VERIF_REPO", "/repo"))
        ctx.obligation("regen:crc7() has the shape `csum = 0; for d in data: csum = _crc7_table[d ^ csum]; return csum`", True, "")
        rc, out = ctx.coq_file("Gen_crc7", "From Coq Require Import NArith List.\nFrom RV Require Import CRC.Model.\n" + loop +
                               "Lemma fold_ext (f g : N -> N -> N) : (forall a b, f a b = g a b) -> forall l a, fold_left f l a = fold_left g l a.\n"
                               "Proof. intros H l; induction l as [|x l IH]; intros a; cbn; [reflexivity | rewrite H; apply IH]. Qed.\n"
                               "Lemma src_crc7 : forall T data, gen_crc7 T data = crc_table T data.\n"
                               "Proof. intros T data; unfold gen_crc7, crc_table; apply fold_ext; intros a b;\n"
                               "  first [reflexivity | rewrite N.lxor_comm; reflexivity]. Qed.\n")
        ctx.obligation("regen:Gen_crc7 (the loop translated from the source == CRC.Model.crc_table, for every table and message)",
                       rc == 0, out[-800:])
    except (ValueError, OSError, SyntaxError, AttributeError, IndexError) as e:
        ctx.obligation("regen:crc7() has the shape `csum = 0; for d in data: csum = _crc7_table[d ^ csum]; return csum`", False, str(e))
    # ---- correspondence of the byte loop -----------------------------
    msgs = gen_messages(ctx)
    cases = []
    nontrivial = set()
    impl_errors = []
    forms = []
    for i, m in enumerate(msgs):
        form = i % len(FORMS)
        forms.append(form)
        got = call(mod, m, form)
        ctx.count("len=%s" % (len(m) if len(m) < 3 else ">=3"))
        ctx.count("form=%s" % FORMS[form])
        if got[0] != "ok" or got[1] < 0:
            impl_errors.append((m, got))
            cases.append((m, None))
        else:
            cases.append((m, got[1]))
        if len(m) >= 1:
            nontrivial.add(tuple(m))
    # the same mutable buffer object checksummed again after in-place changes (a receive buffer):
    # crc7 must be a function of the bytes it is given now, not of an earlier call
    r = ctx.rng
    for _ in range(120 if ctx.tier == "quick" else 1500):
        n = r.choice([1, 2, 3, 8, 16, 33])
        buf = [r.randrange(256) for _ in range(n)]
        obj = buf if r.random() < 0.5 else bytearray(buf)
        for step in range(r.choice([2, 3, 5])):
            try:
                got = mod.crc7(obj)
            except Exception as e:     # noqa
                got = None
                impl_errors.append((list(obj), ("exc", type(e).__name__)))
            snap = list(obj)
            ok = isinstance(got, int) and not isinstance(got, bool) and got >= 0
            cases.append((snap, got if ok else None))
            msgs.append(snap)
            nontrivial.add(tuple(snap))
            ctx.count("form=reused-buffer")
            k = r.random()
            if k < 0.5:
                i = r.randrange(n)
                obj[i] ^= 1 << r.randrange(8)          # flip one bit in place
            elif k < 0.8:
                i = r.randrange(n)
                obj[i] = r.randrange(256)
            # else: unchanged, checksum the same content again
    ctx.obligation("corr:crc7 returns an int for every byte string", not impl_errors, repr(impl_errors[:3]))
    bad_total = []
    if table_ok:
        items = []
        for k, sh in enumerate(shards(cases, 6000)):
            body = coq_list(["(%s, %s)" % (coq_list([coq_N(x) for x in m]), "None" if v is None else "Some %s" % coq_N(v))
                             for m, v in sh])
            txt = ("From Coq Require Import NArith List.\nFrom RV Require Import CRC.Model.\nFrom W Require Import Gen_table.\n"
                   "Import ListNotations.\n"
                   "Definition cases : list (list N * option N) := %s.\n"
                   "Fixpoint bad (i : nat) (l : list (list N * option N)) : list nat :=\n"
                   "  match l with [] => [] | (m, v) :: r =>\n"
                   "    let ok := match crc_table_opt gen_table m, v with Some a, Some b => N.eqb a b | _, _ => false end in\n"
                   "    if ok then bad (S i) r else i :: bad (S i) r end.\n"
                   "Eval vm_compute in (bad 0 cases).\n" % body)
            items.append(("cases_%d" % k, txt))
        res = ctx.coq_files_parallel(items)
        from .common import parse_eval_lists
        for k, (name, _) in enumerate(items):
            rc, out = res[name]
            lists = parse_eval_lists(out) if rc == 0 else []
            ok = rc == 0 and len(lists) == 1 and lists[0] == []
            ctx.obligation("corr:%s (model crc_table_opt gen_table == crc7())" % name, ok, out[-1500:])
            if rc == 0 and lists and lists[0]:
                bad_total += [k * 6000 + i for i in lists[0]]
    ctx.coverage.update({
        "evaluations": len(msgs),
        "traces_validated_against_impl": len(msgs),
        "distinct_nontrivial": len(nontrivial),
        "rule": "messages: empty, all 256 one-byte, two-byte (all 65536 in thorough, 1500 random in quick), random "
                "lengths 3..100 (sparse/extreme/uniform), each passed as list, bytes, bytearray, tuple or a memoryview window of a larger buffer; non-trivial = "
                "distinct non-empty byte strings",
        "exhaustive": False,
        "exhaustive_parts": ["256 table entries (table_ok)", "all one-byte messages"] +
                            (["all 65536 two-byte messages"] if ctx.tier == "thorough" else []),
        "samples": [{"msg": m, "crc7": v} for m, v in (cases[1:3] + cases[-2:])],
    })

    def search():
        found = []
        for i in bad_total[:50]:
            m, v = cases[i]
            exp = ref_crc(m)
            if v != exp and call(mod, m, 0) != ("ok", exp):     # reproducible on a fresh object
                found.append({"kind": "input", "what": "crc7(%r) = %r, bit-serial CRC-7 gives %d" % (m, v, exp),
                              "fingerprint": "crc7-differs-from-bitwise", "input": m, "expected": exp, "got": v})
                break
            if v != exp and i < len(forms) and call(mod, m, forms[i]) != ("ok", exp):     # reproducible in the kind of buffer it was passed in
                found.append({"kind": "input", "what": "crc7(<%s of %r>) = %r, bit-serial CRC-7 gives %d" % (FORMS[forms[i]], m, v, exp),
                              "fingerprint": "crc7-differs-from-bitwise-in-" + FORMS[forms[i]], "input": m, "form": forms[i],
                              "expected": exp, "got": v})
                break
        if not found:
            found = oracle_search(mod, ctx, msgs)
        if not found:
            v = race_search()
            if v:
                found = [v]
        if not found:
            v = neighbour_probe()
            if v:
                found = [v]
        if found:
            # shrink: shortest failing prefix/suffix
            v = found[0]
            if v.get("fingerprint") == "crc7-differs-from-bitwise":
                m = v["input"]
                best = m

                def fails(sub):
                    return call(mod, sub, 0) != ("ok", ref_crc(sub))
                # long messages: cut from the back, then from the front, by halving steps (a failure that needs its length keeps it)
                for cut_front in (False, True):
                    step = len(best) // 2
                    while step >= 1 and len(best) > 48:
                        sub = best[step:] if cut_front else best[:len(best) - step]
                        if sub and fails(sub):
                            best = sub
                        else:
                            step //= 2
                m2 = best
                if len(m2) <= 48:
                    for i in range(len(m2)):
                        for j in range(i + 1, len(m2) + 1):
                            sub = m2[i:j]
                            if len(sub) < len(best) and fails(sub):
                                best = sub
                if best is not m:
                    v["input"] = best
                    v["expected"] = ref_crc(best)
                    v["got"] = list(call(mod, best, 0))
                    v["what"] = "crc7(%r) = %r, bit-serial CRC-7 gives %d" % (best, v["got"], v["expected"])
        return found

    return ctx.finish(search=search)


def replay(ctx, obj):
    mod = impl()
    if obj.get("kind") == "history":
        first = obj["first"]
        buf = bytearray(first) if obj.get("buffer_type") == "bytearray" else list(first)
        g1 = call_raw(mod, buf)
        i, bit = obj["flip"]
        buf[i] ^= 1 << bit
        g2 = call_raw(mod, buf)
        print("crc7(buffer) = %r ; after flipping bit %d of byte %d in place crc7(buffer) = %r ; reference = %d" % (g1, bit, i, g2, ref_crc(list(buf))))
        if g2 != ("ok", ref_crc(list(buf))) or g1 != ("ok", ref_crc(first)):
            print("VIOLATION property=C20 replay=(replayed)")
            return 1
        return 0
    if obj.get("kind") == "race":
        res = race_probe(obj["k"], obj["msg_a"], obj["msg_b"])
        vd = race_verdict(res, obj["msg_a"], obj["msg_b"])
        print("first use from two threads, thread A held after %d lines: %r" % (obj["k"], res))
        if vd:
            print("violates C20:", vd)
            print("VIOLATION property=C20 replay=(replayed)")
            return 1
        return 0
    if obj.get("kind") == "neighbour":
        v = neighbour_probe(obj.get("function"))
        if v:
            print("violates C20:", v["what"])
            print("VIOLATION property=C20 replay=(replayed)")
            return 1
        print("crc7 gives the bit-serial CRC-7 before and after calls of the module's other functions")
        return 0
    if obj.get("kind") == "calls":
        vd = run_call_history(mod, obj["history"])
        print("calls:", obj["history"])
        if vd:
            print("violates C20:", vd)
            print("VIOLATION property=C20 replay=(replayed)")
            return 1
        print("every call returns the bit-serial CRC-7 of its own message")
        return 0
    if obj.get("kind") == "input" and "flipped_bits" not in obj:
        m = obj["input"]
        got = call(mod, m, obj.get("form", 0))
        exp = ref_crc(m)
        print("crc7(%s of %r) = %r ; bit-serial reference = %d" % (FORMS[obj.get("form", 0)], m, got, exp))
        if got != ("ok", exp):
            print("VIOLATION property=C20 replay=%s" % "(replayed)")
            return 1
        return 0
    if obj.get("kind") == "input":
        a = obj["input"]
        b = list(a)
        for x in obj["flipped_bits"]:
            b[x // 8] ^= 1 << (x % 8)
        ga, gb = call(mod, a, 0), call(mod, b, 0)
        print("crc7(original) = %r ; crc7(flipped) = %r" % (ga, gb))
        if ga == gb:
            print("VIOLATION property=C20 replay=(replayed)")
            return 1
        return 0
    print("replay names broken obligations only: %s" % [b["name"] for b in obj.get("broken_obligations", [])])
    return run(ctx)
