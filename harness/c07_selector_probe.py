"""C07, the selector's OWN exception policy (robotpy_ext/autonomous/selector.py `_on_exception`, used when run() is given no
on_exception -- a robot that is not a MagicRobot drives its autonomous modes this way).  One fresh process per scenario:
a package with one DEFAULT mode whose on_enable / on_iteration (the 2nd) / on_disable raise as scripted, the simulated
driver station in autonomous+enabled, FMS attached or not; AutonomousModeSelector(pkg).run(iter_fn=hook) in real time
(5 passes of 10 ms), the hook ends the period.  Property (C07): with the FMS attached every fault is swallowed, the other
callbacks still run in order and the loop keeps iterating; without it the first fault propagates out of run()."""
import json
import os
import subprocess
import sys

PROBE = r"""
import sys, os, json, tempfile, shutil
repo, fms, faults = sys.argv[1], sys.argv[2] == '1', set(json.loads(sys.argv[3]))
sys.path.insert(0, repo)
d = tempfile.mkdtemp(); os.chdir(d); sys.path.insert(0, d)
os.mkdir(os.path.join(d, 'c07auto'))
open(os.path.join(d, 'c07auto', '__init__.py'), 'w').close()
open(os.path.join(d, 'c07auto', 'm.py'), 'w').write('''
import builtins
class M:
    MODE_NAME = "m"
    DEFAULT = True
    def on_enable(self): builtins._c07("on_enable")
    def on_iteration(self, tm): builtins._c07("on_iteration")
    def on_disable(self): builtins._c07("on_disable")
''')
import builtins
log = []; count = {}
def cb(name):
    count[name] = count.get(name, 0) + 1
    log.append(name)
    if "%s#%d" % (name, count[name]) in faults or name + "#*" in faults:
        raise RuntimeError("scripted fault in " + name)
builtins._c07 = cb
import hal, wpilib
from wpilib.simulation import DriverStationSim
from robotpy_ext.autonomous import AutonomousModeSelector
DriverStationSim.setFmsAttached(fms); DriverStationSim.setDsAttached(True)
DriverStationSim.setAutonomous(True); DriverStationSim.setEnabled(True); DriverStationSim.notifyNewData()
res = {}
try:
    sel = AutonomousModeSelector("c07auto")
    passes = [0]
    def hook():
        passes[0] += 1
        log.append("pass")
        if passes[0] >= 5:
            DriverStationSim.setEnabled(False); DriverStationSim.notifyNewData()
    try:
        sel.run(control_loop_wait_time=0.01, iter_fn=hook)
        res["escaped"] = None
    except BaseException as e:
        res["escaped"] = type(e).__name__ + ": " + str(e)[:120]
except BaseException as e:
    res["setup_error"] = type(e).__name__ + ": " + str(e)[:200]
res["log"] = log
os.chdir("/"); shutil.rmtree(d, ignore_errors=True)
print(json.dumps(res))
"""

SCENARIOS = [(True, []), (True, ["on_enable#1"]), (True, ["on_iteration#2"]), (True, ["on_iteration#*"]), (True, ["on_disable#1"]),
             (True, ["on_enable#1", "on_iteration#1", "on_disable#1"]),
             (False, []), (False, ["on_enable#1"]), (False, ["on_iteration#2"]), (False, ["on_disable#1"])]


def run_scenario(repo, fms, faults):
    try:
        p = subprocess.run(["/venv/bin/python", "-c", PROBE, repo, "1" if fms else "0", json.dumps(faults)],
                           stdout=subprocess.PIPE, stderr=subprocess.DEVNULL, text=True, timeout=90,
                           env=dict(os.environ, PYTHONHASHSEED="0"))
        return json.loads(p.stdout.strip().splitlines()[-1])
    except Exception as e:     # noqa
        return {"probe_error": repr(e)}


def verdict(fms, faults, res):
    """None | text.  A scenario that could not be driven (probe/setup error) is no verdict."""
    if "probe_error" in res or "setup_error" in res:
        return None
    log = res["log"]
    full = ["on_enable"] + ["on_iteration", "pass"] * 5 + ["on_disable"]
    if fms or not faults:
        if res["escaped"] is not None:
            return "FMS %s, faults %r: %s escaped from AutonomousModeSelector.run() (callbacks so far: %r)" % (
                "attached" if fms else "not attached", faults, res["escaped"], log)
        if log != full:
            return "FMS attached, faults %r: callbacks %r, expected %r (every fault swallowed, the others still run, the loop goes on)" % (
                faults, log, full)
        return None
    if res["escaped"] is None:
        return "FMS not attached, faults %r: run() returned normally, the fault must propagate (callbacks: %r)" % (faults, log)
    first = sorted(faults)[0].split("#")[0]
    if first == "on_iteration" and "on_iteration#2" in faults:
        want = ["on_enable", "on_iteration", "pass", "on_iteration"]
    elif first == "on_enable":
        want = ["on_enable"]
    else:
        want = None      # a fault in on_disable: everything before it ran
    if want is not None and log != want:
        return "FMS not attached, faults %r: callbacks %r before the fault escaped, expected %r" % (faults, log, want)
    return None


def check(repo):
    """-> (list of (fms, faults, result), first violation or None)"""
    from concurrent.futures import ThreadPoolExecutor
    with ThreadPoolExecutor(5) as ex:
        rs = list(ex.map(lambda s: run_scenario(repo, s[0], s[1]), SCENARIOS))
    out = []
    bad = None
    for (fms, faults), res in zip(SCENARIOS, rs):
        out.append((fms, faults, res))
        v = verdict(fms, faults, res)
        if v and bad is None:
            # a scenario is only believed when it shows twice (real-time loop on a loaded machine)
            res2 = run_scenario(repo, fms, faults)
            if verdict(fms, faults, res2):
                bad = {"kind": "selector-standalone", "fms": fms, "faults": faults, "what": verdict(fms, faults, res2),
                       "fingerprint": "C07:selector-own-exception-policy", "observed": res2}
    return out, bad


if __name__ == "__main__":
    o, b = check(sys.argv[1] if len(sys.argv) > 1 else "/repo")
    for fms, faults, res in o:
        print(fms, faults, res)
    print("VIOLATION" if b else "ok", b)
