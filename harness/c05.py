"""C05: see harness/robot_common.py (shared MagicRobot-loop machinery, one process per generated robot)
and coq/theories/Properties/C05.v."""
from . import robot_common


def run(ctx):
    return robot_common.robot_check(ctx, "C05")


def replay(ctx, obj):
    return robot_common.robot_replay(ctx, "C05", obj)
