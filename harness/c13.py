"""C13: see harness/sm_common.py (shared StateMachine family machinery) and coq/theories/Properties/C13.v."""
from . import sm_common


def run(ctx):
    return sm_common.sm_check(ctx, "C13")


def replay(ctx, obj):
    return sm_common.sm_replay(ctx, "C13", obj)
